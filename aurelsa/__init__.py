"""aurelsa -- static analysers deciding the properties C01..C20 of robynlm/aurel."""
