"""CLI:  python -m aurelsa <ID> [--tier quick|thorough] [--replay PATH]"""
import argparse
import importlib
import os
import sys

from .common import run_check


def main(argv=None):
    ap = argparse.ArgumentParser(prog="check")
    ap.add_argument("prop")
    ap.add_argument("--tier", default=os.environ.get("VERIF_TIER", "quick"),
                    choices=["quick", "thorough"])
    ap.add_argument("--replay", default=None)
    a = ap.parse_args(argv)
    prop = a.prop.upper()
    try:
        mod = importlib.import_module(f"aurelsa.props.{prop.lower()}")
    except ModuleNotFoundError:
        print(f"ANALYSIS-ERROR property={prop}: no check implemented")
        return 2
    level = getattr(mod, "LEVEL", "other")

    def fn(rep):
        mod.run(rep)
        if a.tier == "thorough" and not a.replay:
            from . import selftest
            selftest.run(prop, mod, rep)
    return run_check(prop, fn, a.tier, level, a.replay)


if __name__ == "__main__":
    sys.exit(main())
