"""E2 -- alias / ownership / mutation analysis.

Forward dataflow over the statements of each function (flow-sensitive, union at merges, loop
bodies iterated to a fixpoint).  The abstract value of an expression is a pair of owner sets:

    own   owners whose storage the object itself may share
    elem  owners whose storage its *elements* may share (containers)

Owners: 'CACHE:<key>' (values obtained through self[...] / self.data[...] / rel.data[...]),
'FD' (attributes of a FiniteDifference reached through self.fd), 'SELF:<attr>' (other
attributes of self), 'PARAM:<name>' and 'KW:<name>' (caller-owned arguments and values fetched
from **kwargs), 'GLOBAL:<name>' (module-level objects).  Everything else is fresh.

A *sink* is any in-place operation: augmented assignment to a possibly-mutable object,
subscript/attribute store, `del x[k]`, a mutating method, numpy functions that write into
their argument, `out=` / `overwrite_input=True` keywords, and passing the object to a
repository function whose summary says it mutates that parameter.  Summaries (returns-alias-of,
mutates) are computed to a fixpoint over the call graph.
"""
from __future__ import annotations

import ast

from .common import norm_src, unparse

MUTATING_METHODS = {"append", "extend", "remove", "pop", "sort", "insert", "clear", "update",
                    "setdefault", "fill", "resize", "put", "itemset", "partition", "setflags",
                    "reverse", "popitem", "add", "discard", "sort_values"}
NP_WRITERS = {"np.put": 0, "np.place": 0, "np.copyto": 0, "np.fill_diagonal": 0,
              "np.putmask": 0, "np.random.shuffle": 0, "random.shuffle": 0,
              "np.put_along_axis": 0}
VIEW_FUNCS = {"np.transpose", "np.reshape", "np.real", "np.imag", "np.squeeze", "np.asarray",
              "np.ravel", "np.swapaxes", "np.moveaxis", "np.atleast_1d", "np.atleast_3d",
              "np.asanyarray", "np.ascontiguousarray", "np.broadcast_to", "np.expand_dims",
              "np.flip", "np.diagonal", "np.rollaxis"}
COPY_CONTAINER = {"list", "sorted", "set", "dict", "tuple", "frozenset", "reversed"}
ELEM_PASS = {"zip", "enumerate", "iter", "map", "filter"}
IMMUTABLE_RESULT = {"len", "int", "float", "str", "bool", "abs", "max", "min", "sum", "round",
                    "isinstance", "type", "repr", "range", "callable", "hasattr", "any", "all"}


class Val:
    """own: owners of the object itself; elem: owners of its elements (one level down);
    deep: owners of anything further down.  `isdict`: known to be a dict (iteration yields
    immutable keys)."""
    __slots__ = ("own", "elem", "deep", "imm", "isdict", "strv")

    def __init__(self, own=(), elem=(), deep=(), imm=False, isdict=False, strv=False):
        self.own = frozenset(own)
        self.elem = frozenset(elem)
        self.deep = frozenset(deep)
        self.imm = imm
        self.isdict = isdict
        self.strv = strv        # known to be a str

    def join(self, o):
        return Val(self.own | o.own, self.elem | o.elem, self.deep | o.deep,
                   self.imm and o.imm, self.isdict and o.isdict, self.strv and o.strv)

    def down(self):
        """value of an element"""
        return Val(self.elem, self.deep, self.deep)

    def all(self):
        return self.own | self.elem | self.deep

    def __eq__(self, o):
        return (self.own == o.own and self.elem == o.elem and self.deep == o.deep
                and self.imm == o.imm and self.isdict == o.isdict and self.strv == o.strv)

    def __repr__(self):
        return (f"Val(own={sorted(self.own)}, elem={sorted(self.elem)}, "
                f"deep={sorted(self.deep)}, imm={self.imm})")


def container(items, isdict=False):
    """a fresh container holding the given values"""
    elem, deep = frozenset(), frozenset()
    for v in items:
        elem |= v.own
        deep |= v.elem | v.deep
    return Val((), elem, deep, isdict=isdict)


def owned(tag):
    return Val({tag}, {tag + "/*"}, {tag + "/*"})


FRESH = Val()
IMM = Val(imm=True)
STR = Val(imm=True, strv=True)


class Summary:
    def __init__(self):
        self.mutates = {}     # param name -> (node, description)
        self.ret = Val()      # with PARAM:<name> owners meaning "aliases that argument"
        self.params = []


class Mutation:
    def __init__(self, fn, node, owners, how):
        self.fn, self.node, self.owners, self.how = fn, node, owners, how


class Analyzer:
    def __init__(self, functions, module_aliases=None, selfname="self"):
        """functions: dict qualname -> (relfile, FunctionDef|Lambda, is_method)"""
        self.functions = functions
        self.summaries = {q: Summary() for q in functions}
        self.mutations = []
        self.collect = False
        self.selfname = selfname
        for q, (_rel, fn, _m) in functions.items():
            args = fn.args
            names = [a.arg for a in args.args] + [a.arg for a in args.kwonlyargs]
            self.summaries[q].params = names

    # -- driver --------------------------------------------------------------------------------
    def run(self):
        for _ in range(4):
            changed = False
            for q in self.functions:
                old = (dict(self.summaries[q].mutates), self.summaries[q].ret)
                self.analyze(q)
                new = (self.summaries[q].mutates, self.summaries[q].ret)
                if set(old[0]) != set(new[0]) or old[1] != new[1]:
                    changed = True
            if not changed:
                break
        self.collect = True
        self.mutations = []
        for q in self.functions:
            self.analyze(q)
        return self.mutations

    def analyze(self, q):
        rel, fn, is_method = self.functions[q]
        self.cur = q
        self.cur_rel = rel
        env = {}
        a = fn.args
        params = [x.arg for x in a.args] + [x.arg for x in a.kwonlyargs]
        for i, p in enumerate(params):
            if is_method and i == 0:
                continue
            env[p] = owned("PARAM:" + p)
        if a.vararg:
            env[a.vararg.arg] = Val((), {"PARAM:*" + a.vararg.arg},
                                    {"PARAM:*" + a.vararg.arg + "/*"})
        if a.kwarg:
            # the dict itself is created for this call; its values are the caller's
            env[a.kwarg.arg] = Val((), {"KW:*"}, {"KW:*/*"}, isdict=True)
            self.kwname = a.kwarg.arg
        else:
            self.kwname = None
        self.ret = Val()
        self.summ = self.summaries[q]
        if isinstance(fn, ast.Lambda):
            self.ret = self.ev(fn.body, env)
        else:
            self.block(fn.body, env)
        self.summ.ret = self.ret

    # -- statements ------------------------------------------------------------------------------
    def block(self, stmts, env):
        for st in stmts:
            self.stmt(st, env)

    def merge(self, a, b):
        out = {}
        for k in set(a) | set(b):
            va, vb = a.get(k), b.get(k)
            if va is None:
                out[k] = vb
            elif vb is None:
                out[k] = va
            else:
                out[k] = va.join(vb)
        return out

    def stmt(self, st, env):
        if isinstance(st, ast.Assign):
            v = self.ev(st.value, env)
            for t in st.targets:
                self.assign(t, v, env, st)
        elif isinstance(st, ast.AnnAssign) and st.value is not None:
            self.assign(st.target, self.ev(st.value, env), env, st)
        elif isinstance(st, ast.AugAssign):
            rhs = self.ev(st.value, env)
            t = st.target
            if isinstance(t, ast.Name):
                cur = env.get(t.id, FRESH)
                if cur.imm or (isinstance(st.op, ast.Add)
                               and (rhs.strv or self.rhs_forces_immutable(st.value))):
                    # the left-hand side must be a str/number/tuple: a rebinding
                    env[t.id] = IMM
                else:
                    self.sink(cur.own, st, f"augmented assignment `{norm_src(st)[:60]}`")
                    env[t.id] = Val(cur.own, cur.elem | rhs.elem, cur.deep | rhs.deep)
            else:
                base = self.ev(t.value, env)
                self.sink(base.own, st, f"in-place update `{norm_src(st)[:60]}`")
        elif isinstance(st, ast.Delete):
            for t in st.targets:
                if isinstance(t, (ast.Subscript, ast.Attribute)):
                    base = self.ev(t.value, env)
                    self.sink(base.own, st, f"`{norm_src(st)[:60]}`")
                elif isinstance(t, ast.Name):
                    env.pop(t.id, None)
        elif isinstance(st, ast.Expr):
            self.ev(st.value, env)
        elif isinstance(st, ast.Return):
            if st.value is not None:
                self.ret = self.ret.join(self.ev(st.value, env))
        elif isinstance(st, ast.If):
            self.ev(st.test, env)
            e1, e2 = dict(env), dict(env)
            self.block(st.body, e1)
            self.block(st.orelse, e2)
            env.clear()
            env.update(self.merge(e1, e2))
        elif isinstance(st, (ast.For, ast.While)):
            if isinstance(st, ast.For):
                it = self.ev(st.iter, env)
                # loop variable: an element of the iterable (a key, for a dict)
                items = isinstance(st.iter, ast.Call) and isinstance(st.iter.func, ast.Attribute) \
                    and st.iter.func.attr == "items" and not st.iter.args \
                    and isinstance(st.target, ast.Tuple) and len(st.target.elts) == 2
                if items:
                    # for k, v in d.items(): the key is immutable, the value an element of d
                    d = self.ev(st.iter.func.value, env)
                    self.assign(st.target.elts[0], IMM, env, st)
                    self.assign(st.target.elts[1], d.down(), env, st)
                else:
                    self.assign(st.target, IMM if it.isdict else it.down(), env, st)
            else:
                self.ev(st.test, env)
            for _ in range(3):
                e1 = dict(env)
                self.block(st.body, e1)
                merged = self.merge(env, e1)
                if merged == env:
                    break
                env.clear()
                env.update(merged)
            self.block(st.orelse, env)
        elif isinstance(st, ast.With):
            for item in st.items:
                v = self.ev(item.context_expr, env)
                if item.optional_vars is not None:
                    self.assign(item.optional_vars, v, env, st)
            self.block(st.body, env)
        elif isinstance(st, ast.Try):
            e0 = dict(env)
            self.block(st.body, env)
            for h in st.handlers:
                eh = self.merge(e0, env)
                self.block(h.body, eh)
                merged = self.merge(env, eh)
                env.clear()
                env.update(merged)
            self.block(st.orelse, env)
            self.block(st.finalbody, env)
        elif isinstance(st, (ast.FunctionDef, ast.ClassDef, ast.Import, ast.ImportFrom,
                             ast.Pass, ast.Break, ast.Continue, ast.Raise, ast.Global,
                             ast.Nonlocal, ast.Assert)):
            if isinstance(st, ast.Raise) and st.exc is not None:
                self.ev(st.exc, env)
        else:
            for ch in ast.iter_child_nodes(st):
                if isinstance(ch, ast.expr):
                    self.ev(ch, env)

    @staticmethod
    def rhs_forces_immutable(node):
        """`x += <string expression>` can only succeed for a str x: a rebinding.  (Numbers do
        not force anything: `array += 1` is an in-place update.)"""
        if isinstance(node, ast.Constant) and isinstance(node.value, str):
            return True
        if isinstance(node, ast.JoinedStr):
            return True
        if isinstance(node, ast.BinOp) and isinstance(node.op, ast.Add):
            return Analyzer.rhs_forces_immutable(node.left) or \
                Analyzer.rhs_forces_immutable(node.right)
        return False

    def assign(self, target, v, env, st):
        if isinstance(target, ast.Name):
            env[target.id] = v
        elif isinstance(target, (ast.Tuple, ast.List)):
            for t in target.elts:
                if isinstance(t, ast.Starred):
                    t = t.value
                self.assign(t, IMM if v.imm else v.down(), env, st)
        elif isinstance(target, ast.Subscript):
            base = self.ev(target.value, env)
            self.sink(base.own, st, f"store `{norm_src(st)[:60]}`")
            # the container now holds v
            if isinstance(target.value, ast.Name) and target.value.id in env:
                b = env[target.value.id]
                env[target.value.id] = Val(b.own, b.elem | v.own, b.deep | v.elem | v.deep,
                                           False, b.isdict)
        elif isinstance(target, ast.Attribute):
            base = self.ev(target.value, env)
            if not (isinstance(target.value, ast.Name) and target.value.id == self.selfname):
                self.sink(base.own, st, f"attribute store `{norm_src(st)[:60]}`")

    def sink(self, owners, node, how):
        owners = {o for o in owners if o not in ("SELFOBJ",)}
        if not owners:
            return
        for o in owners:
            if o.startswith("PARAM:"):
                p = o[6:]
                if p not in self.summ.mutates:
                    self.summ.mutates[p] = (node, how)
        if self.collect:
            self.mutations.append(Mutation(self.cur, node, frozenset(owners), how))

    # -- expressions -------------------------------------------------------------------------------
    def ev(self, node, env):
        if node is None:
            return FRESH
        m = getattr(self, "ev_" + type(node).__name__, None)
        if m is not None:
            return m(node, env)
        # generic: evaluate children for side effects (calls), result fresh
        for ch in ast.iter_child_nodes(node):
            if isinstance(ch, ast.expr):
                self.ev(ch, env)
        return FRESH

    def ev_Constant(self, node, env):
        return STR if isinstance(node.value, str) else IMM

    def ev_JoinedStr(self, node, env):
        for v in node.values:
            if isinstance(v, ast.FormattedValue):
                self.ev(v.value, env)
        return STR

    def ev_Name(self, node, env):
        if node.id in env:
            return env[node.id]
        if node.id == self.selfname:
            return Val({"SELFOBJ"})
        if node.id in GLOBAL_MUTABLES.get(self.cur_rel, ()):
            return owned("GLOBAL:" + node.id)
        return FRESH

    def ev_Attribute(self, node, env):
        src = unparse(node)
        if src.startswith(self.selfname + ".fd.") or src == self.selfname + ".fd":
            return owned("FD")
        if isinstance(node.value, ast.Name) and node.value.id == self.selfname \
                and self.selfname not in env:
            if node.attr == "data":
                return Val({"CACHEDICT"}, {"CACHE:*"}, {"CACHE:*/*"}, isdict=True)
            return owned("SELF:" + node.attr)
        if node.attr == "data" and isinstance(node.value, ast.Name) \
                and node.value.id in ("rel",):
            return Val({"CACHEDICT"}, {"CACHE:*"}, {"CACHE:*/*"}, isdict=True)
        base = self.ev(node.value, env)
        if node.attr in ("shape", "ndim", "size", "dtype", "nbytes", "__name__", "__code__"):
            return IMM
        return Val(base.own, base.elem, base.deep)

    def ev_Subscript(self, node, env):
        # self["key"]
        if isinstance(node.value, ast.Name) and node.value.id in (self.selfname, "rel") \
                and node.value.id not in env:
            self.ev(node.slice, env)
            k = node.slice.value if isinstance(node.slice, ast.Constant) else "*"
            return owned(f"CACHE:{k}")
        base = self.ev(node.value, env)
        self.ev(node.slice, env)
        if "CACHEDICT" in base.own:
            k = node.slice.value if isinstance(node.slice, ast.Constant) else "*"
            return owned(f"CACHE:{k}")
        if base.imm:
            return IMM
        # an element of a container, or a view of an array: may share storage with either
        if isinstance(node.slice, ast.Slice) or (isinstance(node.slice, ast.Tuple) and any(
                isinstance(e, ast.Slice) for e in node.slice.elts)):
            return Val(base.own | base.elem, base.elem | base.deep, base.deep)
        if base.isdict:
            return base.down()
        return Val(base.own | base.elem, base.elem | base.deep, base.deep)

    def ev_Slice(self, node, env):
        for x in (node.lower, node.upper, node.step):
            if x is not None:
                self.ev(x, env)
        return IMM

    def ev_Tuple(self, node, env):
        vs = [self.ev(e, env) for e in node.elts]
        c = container(vs)
        return Val((), c.elem, c.deep, imm=not c.all() and all(v.imm for v in vs))

    def ev_List(self, node, env):
        return container([self.ev(e, env) for e in node.elts])

    ev_Set = ev_List

    def ev_Dict(self, node, env):
        vals = []
        for k, v in zip(node.keys, node.values):
            if k is not None:
                self.ev(k, env)
                vals.append(self.ev(v, env))
            else:
                vals.append(self.ev(v, env).down())    # **mapping
        return container(vals, isdict=True)

    def comp(self, node, env, elts, isdict=False):
        e = dict(env)
        for g in node.generators:
            it = self.ev(g.iter, e)
            self.assign(g.target, IMM if it.isdict else it.down(), e, node)
            for c in g.ifs:
                self.ev(c, e)
        return container([self.ev(x, e) for x in elts], isdict=isdict)

    def ev_ListComp(self, node, env):
        return self.comp(node, env, [node.elt])

    ev_SetComp = ev_ListComp
    ev_GeneratorExp = ev_ListComp

    def ev_DictComp(self, node, env):
        e = dict(env)
        for g in node.generators:
            it = self.ev(g.iter, e)
            self.assign(g.target, IMM if it.isdict else it.down(), e, node)
            for c in g.ifs:
                self.ev(c, e)
        self.ev(node.key, e)
        return container([self.ev(node.value, e)], isdict=True)

    def ev_BinOp(self, node, env):
        a, b = self.ev(node.left, env), self.ev(node.right, env)
        if isinstance(node.op, ast.Add):
            # list concatenation keeps the elements
            return Val((), a.elem | b.elem, a.deep | b.deep, imm=a.imm and b.imm,
                       strv=a.strv or b.strv)
        return Val((), (), imm=a.imm and b.imm)

    def ev_UnaryOp(self, node, env):
        v = self.ev(node.operand, env)
        return Val((), (), imm=v.imm)

    def ev_BoolOp(self, node, env):
        r = Val(imm=True)
        for v in node.values:
            r = r.join(self.ev(v, env))
        return r

    def ev_Compare(self, node, env):
        self.ev(node.left, env)
        for c in node.comparators:
            self.ev(c, env)
        return FRESH

    def ev_IfExp(self, node, env):
        self.ev(node.test, env)
        return self.ev(node.body, env).join(self.ev(node.orelse, env))

    def ev_Lambda(self, node, env):
        return FRESH

    def ev_Starred(self, node, env):
        return self.ev(node.value, env)

    def ev_Call(self, node, env):
        fsrc = unparse(node.func)
        args = [self.ev(a, env) for a in node.args]
        kws = {k.arg: self.ev(k.value, env) for k in node.keywords}
        # keyword-driven in-place numpy behaviour
        for k in node.keywords:
            if k.arg == "out":
                self.sink(kws["out"].own, node, f"`out=` of `{fsrc}`")
            if k.arg == "overwrite_input" and not (isinstance(k.value, ast.Constant)
                                                    and k.value.value is False):
                if args:
                    self.sink(args[0].own, node, f"`{fsrc}(..., overwrite_input=True)` "
                              "reorders its input array in place")
            if k.arg == "copy" and isinstance(k.value, ast.Constant) and k.value.value is False \
                    and args:
                return Val(args[0].own, args[0].elem, args[0].deep)
        if fsrc in NP_WRITERS and args:
            self.sink(args[NP_WRITERS[fsrc]].own, node, f"`{fsrc}` writes into its argument")
            return FRESH
        # kwargs.get('x', default)
        if self.kwname and fsrc == self.kwname + ".get" and node.args \
                and isinstance(node.args[0], ast.Constant):
            d = args[1] if len(args) > 1 else FRESH
            return owned("KW:" + str(node.args[0].value)).join(Val(d.own, d.elem, d.deep))
        if isinstance(node.func, ast.Attribute):
            recv = self.ev(node.func.value, env)
            meth = node.func.attr
            rsrc = unparse(node.func.value)
            if meth in MUTATING_METHODS and not recv.imm \
                    and not rsrc.startswith(("np.", "os.", "re.", "json.", "sys.", "glob.",
                                             "sc.", "sp.")):
                self.sink(recv.own, node, f"mutating call `{norm_src(node)[:60]}`")
                added = None
                if meth in ("append", "add") and args:
                    added = container([args[0]])
                elif meth == "insert" and len(args) > 1:
                    added = container([args[1]])
                elif meth == "setdefault" and len(args) > 1:
                    added = container([args[1]])
                elif meth in ("extend", "update") and args:
                    added = Val((), args[0].elem, args[0].deep)
                if added is not None and isinstance(node.func.value, ast.Name) \
                        and node.func.value.id in env:
                    b = env[node.func.value.id]
                    env[node.func.value.id] = Val(b.own, b.elem | added.elem,
                                                  b.deep | added.deep, False, b.isdict)
                if meth == "pop":
                    return recv.down()
                if meth == "setdefault":
                    d = args[1] if len(args) > 1 else FRESH
                    return recv.down().join(Val(d.own, d.elem, d.deep))
                return FRESH
            if meth in ("copy", "tolist"):
                return Val((), recv.elem, recv.deep, isdict=recv.isdict)
            if meth in ("astype", "flatten"):
                return FRESH
            if meth == "keys":
                return Val((), (), ())      # keys are immutable
            if meth == "values":
                return Val((), recv.elem, recv.deep)
            if meth == "items":
                return Val((), (), recv.elem | recv.deep)   # tuples (key, value)
            if meth == "get" and not rsrc.startswith(("os.", "np.")):
                d = args[1] if len(args) > 1 else FRESH
                return recv.down().join(Val(d.own, d.elem, d.deep))
            if meth in ("reshape", "transpose", "view", "ravel", "squeeze", "swapaxes",
                        "as_mutable", "as_immutable", "conj", "conjugate"):
                return Val(recv.own, recv.elem, recv.deep)
            if meth in ("split", "strip", "replace", "join", "format", "lower", "upper",
                        "startswith", "endswith", "count", "index", "isdigit", "item",
                        "min", "max", "sum", "mean", "match", "group", "search", "rstrip",
                        "lstrip", "isatty"):
                return IMM if meth != "split" else FRESH
        if fsrc in VIEW_FUNCS and args:
            return Val(args[0].own, args[0].elem, args[0].deep)
        if fsrc == "np.einsum" and len(node.args) == 2:
            return Val(args[1].own, args[1].elem, args[1].deep)  # single operand: maybe a view
        if fsrc in ("np.array", "np.copy", "np.stack", "np.concatenate", "np.append",
                    "np.zeros", "np.ones", "np.zeros_like", "np.where", "np.sort",
                    "np.argmin", "np.abs", "np.sum", "np.min", "np.max", "np.arange"):
            return FRESH
        if fsrc in COPY_CONTAINER and args:
            if fsrc in ("sorted", "set", "frozenset") or args[0].isdict and fsrc != "dict":
                # elements only (for a dict: its keys)
                if args[0].isdict:
                    return FRESH
            return Val((), args[0].elem, args[0].deep, isdict=(fsrc == "dict"))
        if fsrc in COPY_CONTAINER:
            return Val(isdict=(fsrc == "dict"))
        if fsrc == "zip":
            deep = frozenset()
            for a in args:
                deep |= a.elem | a.deep
            return Val((), (), deep)          # tuples of elements
        if fsrc == "enumerate" and args:
            return Val((), (), args[0].elem | args[0].deep)
        if fsrc in ELEM_PASS:
            elem, deep = frozenset(), frozenset()
            for a in args:
                elem |= a.elem
                deep |= a.deep
            return Val((), elem, deep)
        if fsrc in IMMUTABLE_RESULT:
            return IMM
        # repository functions
        target = self.resolve(fsrc)
        if target is not None:
            summ = self.summaries[target]
            params = summ.params
            is_method = self.functions[target][2]
            plist = params[1:] if is_method else params
            bound = {}
            for i, a in enumerate(args):
                if i < len(plist):
                    bound[plist[i]] = a
            for k, v in kws.items():
                if k in plist:
                    bound[k] = v
            for p, (mnode, how) in summ.mutates.items():
                nested = p.endswith("/*")
                base = p[:-2] if nested else p
                if base in bound:
                    o = (bound[base].elem | bound[base].deep) if nested else bound[base].own
                    self.sink(o, node, f"`{fsrc}(...)` mutates "
                              f"{'objects nested in ' if nested else ''}its parameter "
                              f"`{base}` ({how})")

            def inst(tags, level):
                out = set()
                for o in tags:
                    if o.startswith("PARAM:"):
                        nested = o.endswith("/*")
                        base = o[6:-2] if nested else o[6:]
                        if base in bound:
                            b = bound[base]
                            out |= (b.elem | b.deep) if nested else b.own
                    else:
                        out.add(o)
                return out
            ret = Val(inst(summ.ret.own, 0), inst(summ.ret.elem, 1), inst(summ.ret.deep, 2),
                      isdict=summ.ret.isdict)
            fnode = self.functions[target][1]
            memo = [d for d in getattr(fnode, "decorator_list", [])
                    if any(w in unparse(d) for w in ("lru_cache", "functools.cache", "memoize",
                                                     "memoise")) or unparse(d) == "cache"]
            if memo and not ret.imm:
                # a memoised function hands out the same object on every call
                tag = "MEMO:" + target.split("::")[-1]
                ret = Val(ret.own | {tag}, ret.elem, ret.deep, isdict=ret.isdict)
            return ret
        return FRESH

    def resolve(self, fsrc):
        """map a call expression to a repository function"""
        sn = self.selfname + "."
        cands = []
        if fsrc.startswith(sn + "fd."):
            cands.append("finitedifference.py::FiniteDifference." + fsrc[len(sn) + 3:])
        elif fsrc.startswith(sn):
            cls = self.cur.split("::")[1].split(".")[0] if "." in self.cur.split("::")[1] \
                else None
            if cls:
                cands.append(self.cur.split("::")[0] + "::" + cls + "." + fsrc[len(sn):])
        elif fsrc.startswith("maths."):
            cands.append("maths.py::" + fsrc[6:])
        elif fsrc.startswith("numerical."):
            cands.append("numerical.py::" + fsrc[10:])
        elif fsrc.startswith("core."):
            cands.append("core.py::" + fsrc[5:])
        elif fsrc.startswith("reading."):
            cands.append("reading.py::" + fsrc[8:])
        elif "." not in fsrc:
            cands.append(self.cur_rel + "::" + fsrc)
        for c in cands:
            if c in self.functions:
                return c
        return None


GLOBAL_MUTABLES = {}


def collect_functions(sources, rels):
    """qualname 'file::name' -> (rel, node, is_method); also module-level lambdas in dict
    displays (time.est_functions) as 'file::<dict>.<key>'."""
    out = {}
    for rel in rels:
        tree = sources.module(rel)
        gl = set()
        for node in tree.body:
            if isinstance(node, ast.FunctionDef):
                out[f"{rel}::{node.name}"] = (rel, node, False)
            elif isinstance(node, ast.ClassDef):
                for sub in node.body:
                    if isinstance(sub, ast.FunctionDef):
                        out[f"{rel}::{node.name}.{sub.name}"] = (rel, sub, True)
            elif isinstance(node, ast.Assign) and isinstance(node.value, ast.Dict) \
                    and isinstance(node.targets[0], ast.Name):
                gl.add(node.targets[0].id)
                for k, v in zip(node.value.keys, node.value.values):
                    if isinstance(v, ast.Lambda) and isinstance(k, ast.Constant):
                        out[f"{rel}::{node.targets[0].id}[{k.value!r}]"] = (rel, v, False)
            elif isinstance(node, ast.Assign) and isinstance(node.targets[0], ast.Name) \
                    and isinstance(node.value, (ast.List, ast.Set, ast.Subscript)):
                gl.add(node.targets[0].id)
        GLOBAL_MUTABLES[rel] = gl
    return out
