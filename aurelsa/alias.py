"""E2 -- alias / ownership / mutation analysis.

Forward dataflow over the statements of each function (flow-sensitive, union at merges, loop
bodies iterated to a fixpoint).  The abstract value of an expression is a pair of owner sets:

    own   owners whose storage the object itself may share
    elem  owners whose storage its *elements* may share (containers)

Owners: 'CACHE:<key>' (values obtained through self[...] / self.data[...] / rel.data[...]),
'FD' (attributes of a FiniteDifference reached through self.fd), 'SELF:<attr>' (other
attributes of self), 'PARAM:<name>' and 'KW:<name>' (caller-owned arguments and values fetched
from **kwargs), 'GLOBAL:<name>' (module-level objects).  Everything else is fresh.

A *sink* is any in-place operation: augmented assignment to a possibly-mutable object,
subscript/attribute store, `del x[k]`, a mutating method, numpy functions that write into
their argument, `out=` / `overwrite_input=True` keywords, and passing the object to a
repository function whose summary says it mutates that parameter.  Summaries (returns-alias-of,
mutates) are computed to a fixpoint over the call graph.
"""
from __future__ import annotations

import ast

from .common import norm_src, unparse

MUTATING_METHODS = {"append", "extend", "remove", "pop", "sort", "insert", "clear", "update",
                    "setdefault", "fill", "resize", "put", "itemset", "partition", "setflags",
                    "reverse", "popitem", "add", "discard", "sort_values"}
NP_WRITERS = {"np.put": 0, "np.place": 0, "np.copyto": 0, "np.fill_diagonal": 0,
              "np.putmask": 0, "np.random.shuffle": 0, "random.shuffle": 0,
              "np.put_along_axis": 0}
VIEW_FUNCS = {"np.transpose", "np.reshape", "np.real", "np.imag", "np.squeeze", "np.asarray",
              "np.ravel", "np.swapaxes", "np.moveaxis", "np.atleast_1d", "np.atleast_3d",
              "np.asanyarray", "np.ascontiguousarray", "np.broadcast_to", "np.expand_dims",
              "np.flip", "np.diagonal", "np.rollaxis"}
COPY_CONTAINER = {"list", "sorted", "set", "dict", "tuple", "frozenset", "reversed"}
ELEM_PASS = {"zip", "enumerate", "iter", "map", "filter"}
IMMUTABLE_RESULT = {"len", "int", "float", "str", "bool", "abs", "max", "min", "sum", "round",
                    "isinstance", "type", "repr", "range", "callable", "hasattr", "any", "all"}


class Val:
    __slots__ = ("own", "elem", "imm")

    def __init__(self, own=(), elem=(), imm=False):
        self.own = frozenset(own)
        self.elem = frozenset(elem)
        self.imm = imm          # provably immutable (str, number, tuple literal of those)

    def join(self, o):
        return Val(self.own | o.own, self.elem | o.elem, self.imm and o.imm)

    def __eq__(self, o):
        return self.own == o.own and self.elem == o.elem and self.imm == o.imm

    def __repr__(self):
        return f"Val(own={sorted(self.own)}, elem={sorted(self.elem)}, imm={self.imm})"


FRESH = Val()
IMM = Val(imm=True)


class Summary:
    def __init__(self):
        self.mutates = {}     # param name -> (node, description)
        self.ret = Val()      # with PARAM:<name> owners meaning "aliases that argument"
        self.params = []


class Mutation:
    def __init__(self, fn, node, owners, how):
        self.fn, self.node, self.owners, self.how = fn, node, owners, how


class Analyzer:
    def __init__(self, functions, module_aliases=None, selfname="self"):
        """functions: dict qualname -> (relfile, FunctionDef|Lambda, is_method)"""
        self.functions = functions
        self.summaries = {q: Summary() for q in functions}
        self.mutations = []
        self.collect = False
        self.selfname = selfname
        for q, (_rel, fn, _m) in functions.items():
            args = fn.args
            names = [a.arg for a in args.args] + [a.arg for a in args.kwonlyargs]
            self.summaries[q].params = names

    # -- driver --------------------------------------------------------------------------------
    def run(self):
        for _ in range(4):
            changed = False
            for q in self.functions:
                old = (dict(self.summaries[q].mutates), self.summaries[q].ret)
                self.analyze(q)
                new = (self.summaries[q].mutates, self.summaries[q].ret)
                if set(old[0]) != set(new[0]) or old[1] != new[1]:
                    changed = True
            if not changed:
                break
        self.collect = True
        self.mutations = []
        for q in self.functions:
            self.analyze(q)
        return self.mutations

    def analyze(self, q):
        rel, fn, is_method = self.functions[q]
        self.cur = q
        self.cur_rel = rel
        env = {}
        a = fn.args
        params = [x.arg for x in a.args] + [x.arg for x in a.kwonlyargs]
        for i, p in enumerate(params):
            if is_method and i == 0:
                continue
            env[p] = Val({"PARAM:" + p}, {"PARAM:" + p})
        if a.vararg:
            env[a.vararg.arg] = Val((), {"PARAM:*" + a.vararg.arg})
        if a.kwarg:
            # the dict itself is created for this call; its values are the caller's
            env[a.kwarg.arg] = Val((), {"KW:*"})
            self.kwname = a.kwarg.arg
        else:
            self.kwname = None
        self.ret = Val()
        self.summ = self.summaries[q]
        if isinstance(fn, ast.Lambda):
            self.ret = self.ev(fn.body, env)
        else:
            self.block(fn.body, env)
        self.summ.ret = self.ret

    # -- statements ------------------------------------------------------------------------------
    def block(self, stmts, env):
        for st in stmts:
            self.stmt(st, env)

    def merge(self, a, b):
        out = {}
        for k in set(a) | set(b):
            va, vb = a.get(k), b.get(k)
            if va is None:
                out[k] = vb
            elif vb is None:
                out[k] = va
            else:
                out[k] = va.join(vb)
        return out

    def stmt(self, st, env):
        if isinstance(st, ast.Assign):
            v = self.ev(st.value, env)
            for t in st.targets:
                self.assign(t, v, env, st)
        elif isinstance(st, ast.AnnAssign) and st.value is not None:
            self.assign(st.target, self.ev(st.value, env), env, st)
        elif isinstance(st, ast.AugAssign):
            rhs = self.ev(st.value, env)
            t = st.target
            if isinstance(t, ast.Name):
                cur = env.get(t.id, FRESH)
                if rhs.imm or cur.imm or self.rhs_forces_immutable(st.value):
                    # the left-hand side must be a str/number/tuple: a rebinding
                    env[t.id] = IMM
                else:
                    self.sink(cur.own, st, f"augmented assignment `{norm_src(st)[:60]}`")
                    env[t.id] = Val(cur.own, cur.elem | rhs.elem | rhs.own)
            else:
                base = self.ev(t.value, env)
                self.sink(base.own, st, f"in-place update `{norm_src(st)[:60]}`")
        elif isinstance(st, ast.Delete):
            for t in st.targets:
                if isinstance(t, (ast.Subscript, ast.Attribute)):
                    base = self.ev(t.value, env)
                    self.sink(base.own, st, f"`{norm_src(st)[:60]}`")
                elif isinstance(t, ast.Name):
                    env.pop(t.id, None)
        elif isinstance(st, ast.Expr):
            self.ev(st.value, env)
        elif isinstance(st, ast.Return):
            if st.value is not None:
                self.ret = self.ret.join(self.ev(st.value, env))
        elif isinstance(st, ast.If):
            self.ev(st.test, env)
            e1, e2 = dict(env), dict(env)
            self.block(st.body, e1)
            self.block(st.orelse, e2)
            env.clear()
            env.update(self.merge(e1, e2))
        elif isinstance(st, (ast.For, ast.While)):
            if isinstance(st, ast.For):
                it = self.ev(st.iter, env)
                # loop variable: an element of the iterable
                self.assign(st.target, Val(it.elem, it.elem, imm=False), env, st)
            else:
                self.ev(st.test, env)
            for _ in range(3):
                e1 = dict(env)
                self.block(st.body, e1)
                merged = self.merge(env, e1)
                if merged == env:
                    break
                env.clear()
                env.update(merged)
            self.block(st.orelse, env)
        elif isinstance(st, ast.With):
            for item in st.items:
                v = self.ev(item.context_expr, env)
                if item.optional_vars is not None:
                    self.assign(item.optional_vars, v, env, st)
            self.block(st.body, env)
        elif isinstance(st, ast.Try):
            e0 = dict(env)
            self.block(st.body, env)
            for h in st.handlers:
                eh = self.merge(e0, env)
                self.block(h.body, eh)
                merged = self.merge(env, eh)
                env.clear()
                env.update(merged)
            self.block(st.orelse, env)
            self.block(st.finalbody, env)
        elif isinstance(st, (ast.FunctionDef, ast.ClassDef, ast.Import, ast.ImportFrom,
                             ast.Pass, ast.Break, ast.Continue, ast.Raise, ast.Global,
                             ast.Nonlocal, ast.Assert)):
            if isinstance(st, ast.Raise) and st.exc is not None:
                self.ev(st.exc, env)
        else:
            for ch in ast.iter_child_nodes(st):
                if isinstance(ch, ast.expr):
                    self.ev(ch, env)

    @staticmethod
    def rhs_forces_immutable(node):
        """`x += <str/number/tuple expression>` can only succeed for an immutable x ... except
        that a list accepts `+= <tuple>`; only str and numbers are taken as decisive."""
        if isinstance(node, ast.Constant) and isinstance(node.value, (str, int, float, complex)):
            return True
        if isinstance(node, ast.JoinedStr):
            return True
        if isinstance(node, ast.BinOp) and isinstance(node.op, ast.Add):
            return Analyzer.rhs_forces_immutable(node.left) or \
                Analyzer.rhs_forces_immutable(node.right)
        return False

    def assign(self, target, v, env, st):
        if isinstance(target, ast.Name):
            env[target.id] = v
        elif isinstance(target, (ast.Tuple, ast.List)):
            for t in target.elts:
                if isinstance(t, ast.Starred):
                    t = t.value
                self.assign(t, Val(v.elem | v.own, v.elem), env, st)
        elif isinstance(target, ast.Subscript):
            base = self.ev(target.value, env)
            self.sink(base.own, st, f"store `{norm_src(st)[:60]}`")
            # the container now holds v
            if isinstance(target.value, ast.Name) and target.value.id in env:
                b = env[target.value.id]
                env[target.value.id] = Val(b.own, b.elem | v.own | v.elem, False)
        elif isinstance(target, ast.Attribute):
            base = self.ev(target.value, env)
            if not (isinstance(target.value, ast.Name) and target.value.id == self.selfname):
                self.sink(base.own, st, f"attribute store `{norm_src(st)[:60]}`")

    def sink(self, owners, node, how):
        owners = {o for o in owners}
        if not owners:
            return
        for o in owners:
            if o.startswith("PARAM:"):
                p = o[6:]
                if p not in self.summ.mutates:
                    self.summ.mutates[p] = (node, how)
        if self.collect:
            self.mutations.append(Mutation(self.cur, node, frozenset(owners), how))

    # -- expressions -------------------------------------------------------------------------------
    def ev(self, node, env):
        if node is None:
            return FRESH
        m = getattr(self, "ev_" + type(node).__name__, None)
        if m is not None:
            return m(node, env)
        # generic: evaluate children for side effects (calls), result fresh
        for ch in ast.iter_child_nodes(node):
            if isinstance(ch, ast.expr):
                self.ev(ch, env)
        return FRESH

    def ev_Constant(self, node, env):
        return IMM

    def ev_JoinedStr(self, node, env):
        for v in node.values:
            if isinstance(v, ast.FormattedValue):
                self.ev(v.value, env)
        return IMM

    def ev_Name(self, node, env):
        if node.id in env:
            return env[node.id]
        if node.id == self.selfname:
            return Val({"SELFOBJ"})
        if node.id in GLOBAL_MUTABLES.get(self.cur_rel, ()):
            return Val({"GLOBAL:" + node.id}, {"GLOBAL:" + node.id})
        return FRESH

    def ev_Attribute(self, node, env):
        src = unparse(node)
        if src.startswith(self.selfname + ".fd.") or src == self.selfname + ".fd":
            return Val({"FD"}, {"FD"})
        if isinstance(node.value, ast.Name) and node.value.id == self.selfname:
            if node.attr == "data":
                return Val({"CACHEDICT"}, {"CACHE:*"})
            return Val({"SELF:" + node.attr}, {"SELF:" + node.attr})
        base = self.ev(node.value, env)
        if node.attr == "data" and isinstance(node.value, ast.Name) \
                and node.value.id in ("rel",):
            return Val({"CACHEDICT"}, {"CACHE:*"})
        if node.attr in ("shape", "ndim", "size", "dtype", "nbytes", "__name__", "__code__"):
            return IMM
        return Val(base.own, base.elem)

    def ev_Subscript(self, node, env):
        # self["key"]
        if isinstance(node.value, ast.Name) and node.value.id in (self.selfname, "rel") \
                and node.value.id not in env:
            self.ev(node.slice, env)
            k = node.slice.value if isinstance(node.slice, ast.Constant) else "*"
            return Val({f"CACHE:{k}"}, {f"CACHE:{k}"})
        base = self.ev(node.value, env)
        self.ev(node.slice, env)
        if "CACHEDICT" in base.own:
            k = node.slice.value if isinstance(node.slice, ast.Constant) else "*"
            return Val({f"CACHE:{k}"}, {f"CACHE:{k}"})
        if base.imm:
            return IMM
        return Val((base.own - {"CACHEDICT"}) | base.elem, base.elem)

    def ev_Slice(self, node, env):
        for x in (node.lower, node.upper, node.step):
            if x is not None:
                self.ev(x, env)
        return IMM

    def ev_Tuple(self, node, env):
        vs = [self.ev(e, env) for e in node.elts]
        elem = frozenset().union(*[v.own | v.elem for v in vs]) if vs else frozenset()
        return Val((), elem, imm=not elem and all(v.imm for v in vs))

    def ev_List(self, node, env):
        vs = [self.ev(e, env) for e in node.elts]
        elem = frozenset().union(*[v.own | v.elem for v in vs]) if vs else frozenset()
        return Val((), elem)

    ev_Set = ev_List

    def ev_Dict(self, node, env):
        elem = frozenset()
        for k, v in zip(node.keys, node.values):
            if k is not None:
                self.ev(k, env)
            vv = self.ev(v, env)
            elem |= vv.own | vv.elem
        return Val((), elem)

    def comp(self, node, env, elts):
        e = dict(env)
        for g in node.generators:
            it = self.ev(g.iter, e)
            self.assign(g.target, Val(it.elem, it.elem), e, node)
            for c in g.ifs:
                self.ev(c, e)
        elem = frozenset()
        for x in elts:
            v = self.ev(x, e)
            elem |= v.own | v.elem
        return Val((), elem)

    def ev_ListComp(self, node, env):
        return self.comp(node, env, [node.elt])

    ev_SetComp = ev_ListComp
    ev_GeneratorExp = ev_ListComp

    def ev_DictComp(self, node, env):
        return self.comp(node, env, [node.key, node.value])

    def ev_BinOp(self, node, env):
        a, b = self.ev(node.left, env), self.ev(node.right, env)
        if isinstance(node.op, ast.Add):
            # list concatenation keeps the elements
            return Val((), a.elem | b.elem, imm=a.imm and b.imm)
        return Val((), (), imm=a.imm and b.imm)

    def ev_UnaryOp(self, node, env):
        v = self.ev(node.operand, env)
        return Val((), (), imm=v.imm)

    def ev_BoolOp(self, node, env):
        r = Val(imm=True)
        for v in node.values:
            r = r.join(self.ev(v, env))
        return r

    def ev_Compare(self, node, env):
        self.ev(node.left, env)
        for c in node.comparators:
            self.ev(c, env)
        return FRESH

    def ev_IfExp(self, node, env):
        self.ev(node.test, env)
        return self.ev(node.body, env).join(self.ev(node.orelse, env))

    def ev_Lambda(self, node, env):
        return FRESH

    def ev_Starred(self, node, env):
        return self.ev(node.value, env)

    def ev_Call(self, node, env):
        fsrc = unparse(node.func)
        args = [self.ev(a, env) for a in node.args]
        kws = {k.arg: self.ev(k.value, env) for k in node.keywords}
        # keyword-driven in-place numpy behaviour
        for k in node.keywords:
            if k.arg == "out":
                self.sink(kws["out"].own, node, f"`out=` of `{fsrc}`")
            if k.arg == "overwrite_input" and not (isinstance(k.value, ast.Constant)
                                                    and k.value.value is False):
                if args:
                    self.sink(args[0].own, node, f"`{fsrc}(..., overwrite_input=True)` "
                              "reorders its input array in place")
            if k.arg == "copy" and isinstance(k.value, ast.Constant) and k.value.value is False \
                    and args:
                return Val(args[0].own, args[0].elem)
        if fsrc in NP_WRITERS and args:
            self.sink(args[NP_WRITERS[fsrc]].own, node, f"`{fsrc}` writes into its argument")
            return FRESH
        # kwargs.get('x', default)
        if self.kwname and fsrc == self.kwname + ".get" and node.args \
                and isinstance(node.args[0], ast.Constant):
            d = args[1] if len(args) > 1 else FRESH
            o = "KW:" + str(node.args[0].value)
            return Val({o} | d.own, {o} | d.elem)
        if isinstance(node.func, ast.Attribute):
            recv = self.ev(node.func.value, env)
            meth = node.func.attr
            if meth in MUTATING_METHODS and not recv.imm \
                    and not unparse(node.func.value).startswith(("np.", "os.", "re.", "json.",
                                                                 "sys.", "glob.", "sc.")):
                self.sink(recv.own, node, f"mutating call `{norm_src(node)[:60]}`")
                if meth in ("append", "extend", "insert", "add", "update", "setdefault") \
                        and isinstance(node.func.value, ast.Name) \
                        and node.func.value.id in env:
                    add = frozenset().union(*[a.own | a.elem for a in args]) if args \
                        else frozenset()
                    b = env[node.func.value.id]
                    env[node.func.value.id] = Val(b.own, b.elem | add)
                if meth in ("pop", "setdefault"):
                    return Val(recv.elem, recv.elem)
                return FRESH
            if meth in ("copy", "astype", "flatten", "tolist"):
                return Val((), recv.elem if meth in ("copy", "tolist") else ())
            if meth in ("keys", "values", "items"):
                return Val((), recv.elem | ({"CACHE:*"} if "CACHEDICT" in recv.own else set()))
            if meth == "get" and not fsrc.startswith(("os.", "np.")):
                d = args[1] if len(args) > 1 else FRESH
                return Val(recv.elem | d.own, recv.elem | d.elem)
            if meth in ("reshape", "transpose", "view", "ravel", "squeeze", "swapaxes"):
                return Val(recv.own, recv.elem)
            if meth in ("split", "strip", "replace", "join", "format", "lower", "upper",
                        "startswith", "endswith", "count", "index", "isdigit", "item",
                        "min", "max", "sum", "mean", "match", "group", "search"):
                return IMM if meth not in ("split",) else FRESH
        if fsrc in VIEW_FUNCS and args:
            return Val(args[0].own, args[0].elem)
        if fsrc == "np.einsum" and len(node.args) == 2:
            return Val(args[1].own, args[1].elem)     # single operand: may return a view
        if fsrc in ("np.array", "np.copy", "np.stack", "np.concatenate", "np.append",
                    "np.zeros", "np.ones", "np.zeros_like", "np.where", "np.sort"):
            return FRESH
        if fsrc in COPY_CONTAINER and args:
            return Val((), args[0].elem)
        if fsrc in COPY_CONTAINER:
            return FRESH
        if fsrc in ELEM_PASS:
            elem = frozenset().union(*[a.elem for a in args]) if args else frozenset()
            return Val((), elem)
        if fsrc in IMMUTABLE_RESULT:
            return IMM
        # repository functions
        target = self.resolve(fsrc)
        if target is not None:
            summ = self.summaries[target]
            params = summ.params
            is_method = self.functions[target][2]
            plist = params[1:] if is_method else params
            bound = {}
            for i, a in enumerate(args):
                if i < len(plist):
                    bound[plist[i]] = a
            for k, v in kws.items():
                if k in plist:
                    bound[k] = v
            for p, (mnode, how) in summ.mutates.items():
                if p in bound:
                    self.sink(bound[p].own, node,
                              f"`{fsrc}(...)` mutates its parameter `{p}` ({how})")
            # return aliasing
            own, elem = set(), set()
            for o in summ.ret.own:
                if o.startswith("PARAM:") and o[6:] in bound:
                    own |= bound[o[6:]].own
                elif not o.startswith("PARAM:"):
                    own.add(o)
            for o in summ.ret.elem:
                if o.startswith("PARAM:") and o[6:] in bound:
                    elem |= bound[o[6:]].own | bound[o[6:]].elem
                elif not o.startswith("PARAM:"):
                    elem.add(o)
            return Val(own, elem)
        return FRESH

    def resolve(self, fsrc):
        """map a call expression to a repository function"""
        sn = self.selfname + "."
        cands = []
        if fsrc.startswith(sn + "fd."):
            cands.append("finitedifference.py::FiniteDifference." + fsrc[len(sn) + 3:])
        elif fsrc.startswith(sn):
            cls = self.cur.split("::")[1].split(".")[0] if "." in self.cur.split("::")[1] \
                else None
            if cls:
                cands.append(self.cur.split("::")[0] + "::" + cls + "." + fsrc[len(sn):])
        elif fsrc.startswith("maths."):
            cands.append("maths.py::" + fsrc[6:])
        elif fsrc.startswith("numerical."):
            cands.append("numerical.py::" + fsrc[10:])
        elif fsrc.startswith("core."):
            cands.append("core.py::" + fsrc[5:])
        elif fsrc.startswith("reading."):
            cands.append("reading.py::" + fsrc[8:])
        elif "." not in fsrc:
            cands.append(self.cur_rel + "::" + fsrc)
        for c in cands:
            if c in self.functions:
                return c
        return None


GLOBAL_MUTABLES = {}


def collect_functions(sources, rels):
    """qualname 'file::name' -> (rel, node, is_method); also module-level lambdas in dict
    displays (time.est_functions) as 'file::<dict>.<key>'."""
    out = {}
    for rel in rels:
        tree = sources.module(rel)
        gl = set()
        for node in tree.body:
            if isinstance(node, ast.FunctionDef):
                out[f"{rel}::{node.name}"] = (rel, node, False)
            elif isinstance(node, ast.ClassDef):
                for sub in node.body:
                    if isinstance(sub, ast.FunctionDef):
                        out[f"{rel}::{node.name}.{sub.name}"] = (rel, sub, True)
            elif isinstance(node, ast.Assign) and isinstance(node.value, ast.Dict) \
                    and isinstance(node.targets[0], ast.Name):
                gl.add(node.targets[0].id)
                for k, v in zip(node.value.keys, node.value.values):
                    if isinstance(v, ast.Lambda) and isinstance(k, ast.Constant):
                        out[f"{rel}::{node.targets[0].id}[{k.value!r}]"] = (rel, v, False)
            elif isinstance(node, ast.Assign) and isinstance(node.targets[0], ast.Name) \
                    and isinstance(node.value, (ast.List, ast.Set, ast.Subscript)):
                gl.add(node.targets[0].id)
        GLOBAL_MUTABLES[rel] = gl
    return out
