"""Canonical forms of the membership predicates that gate 'skip what is already there' code:
quantifier normal form of any()/all()/not/in/not in, of the loop-and-flag idiom, and of string
concatenations used as keys.  Purely syntactic: negations are pushed inwards (De Morgan for
quantifiers), containers `list(D.keys())`, `D.keys()`, `D` are one container, `a + '_' + b` and
f"{a}_{b}" are one template."""
from __future__ import annotations

import ast

from .common import AnalysisError, unparse


def cat_parts(node):
    """string-template of a key expression: tuple of ('v', name) / ('s', literal)"""
    parts = []

    def add(n):
        if isinstance(n, ast.BinOp) and isinstance(n.op, ast.Add):
            add(n.left)
            add(n.right)
        elif isinstance(n, ast.JoinedStr):
            for v in n.values:
                if isinstance(v, ast.Constant):
                    add(v)
                elif isinstance(v, ast.FormattedValue) and v.format_spec is None \
                        and v.conversion == -1:
                    add(v.value)
                else:
                    raise AnalysisError("key template not understood: " + unparse(n))
        elif isinstance(n, ast.Constant) and isinstance(n.value, str):
            if parts and parts[-1][0] == "s":
                parts[-1] = ("s", parts[-1][1] + n.value)
            else:
                parts.append(("s", n.value))
        elif isinstance(n, ast.Call) and unparse(n.func) == "str" and len(n.args) == 1:
            add(n.args[0])
        else:
            parts.append(("v", unparse(n)))
    add(node)
    return tuple(parts)


def container(node):
    t = node
    if isinstance(t, ast.Call) and unparse(t.func) in ("list", "set", "tuple") and len(t.args) == 1:
        t = t.args[0]
    if isinstance(t, ast.Call) and isinstance(t.func, ast.Attribute) and t.func.attr == "keys" \
            and not t.args:
        t = t.func.value
    return unparse(t)


def neg(f):
    k = f[0]
    if k == "not":
        return f[1]
    if k == "exists":
        return ("forall", f[1], f[2], neg(f[3]))
    if k == "forall":
        return ("exists", f[1], f[2], neg(f[3]))
    if k == "and":
        return ("or",) + tuple(sorted((neg(x) for x in f[1:]), key=repr))
    if k == "or":
        return ("and",) + tuple(sorted((neg(x) for x in f[1:]), key=repr))
    if k == "const":
        return ("const", not f[1])
    return ("not", f)


def qform(node, resolve=None):
    """canonical form of a boolean expression; `resolve(name)` may supply the form of a flag"""
    if isinstance(node, ast.UnaryOp) and isinstance(node.op, ast.Not):
        return neg(qform(node.operand, resolve))
    if isinstance(node, ast.BoolOp):
        parts = tuple(sorted((qform(v, resolve) for v in node.values), key=repr))
        return (("and",) if isinstance(node.op, ast.And) else ("or",)) + parts
    if isinstance(node, ast.Compare) and len(node.ops) == 1:
        op = node.ops[0]
        if isinstance(op, (ast.In, ast.NotIn)):
            f = ("in", cat_parts(node.left), container(node.comparators[0]))
            return f if isinstance(op, ast.In) else neg(f)
        left, right = unparse(node.left), unparse(node.comparators[0])
        # emptiness tests of a list
        for a, b, o in ((left, right, op), (right, left, op)):
            if b in ("[]", "()", "''", '""') and isinstance(o, (ast.NotEq, ast.Eq)):
                f = ("nonempty", a)
                return f if isinstance(o, ast.NotEq) else neg(f)
        if left.startswith("len(") and right == "0":
            f = ("nonempty", left[4:-1])
            if isinstance(op, (ast.Gt, ast.NotEq)):
                return f
            if isinstance(op, ast.Eq):
                return neg(f)
        if left.startswith("len(") and right == "1" and isinstance(op, ast.GtE):
            return ("nonempty", left[4:-1])
    if isinstance(node, ast.Call) and unparse(node.func) in ("any", "all") and len(node.args) == 1 \
            and isinstance(node.args[0], (ast.GeneratorExp, ast.ListComp)) \
            and len(node.args[0].generators) == 1 and not node.args[0].generators[0].ifs:
        g = node.args[0].generators[0]
        body = rename(qform(node.args[0].elt, resolve), unparse(g.target), "$v")
        return ("exists" if unparse(node.func) == "any" else "forall", "$v",
                container(g.iter), body)
    if isinstance(node, ast.Call) and isinstance(node.func, ast.Name) \
            and node.func.id in FUNCS and not node.keywords:
        r = helper_form(FUNCS[node.func.id], node.args)
        if r is not None:
            return r
    if isinstance(node, ast.Name):
        if resolve is not None:
            r = resolve(node.id)
            if r is not None:
                return r
        return ("truthy", node.id)
    if isinstance(node, ast.Constant) and isinstance(node.value, bool):
        return ("const", node.value)
    if isinstance(node, ast.Call) and unparse(node.func) == "isinstance":
        return ("isinstance", unparse(node.args[0]), unparse(node.args[1]))
    return ("opaque", unparse(node))


FUNCS = {}       # module-level functions that may be looked into (set by the rule using us)


def helper_form(fn, args):
    """a predicate helper of the shape
         for v in S: if COND: return True      (or False)
         return False                          (or True)
       -> the quantified form of its call, with the parameters replaced by the arguments"""
    import copy
    body = [st for st in fn.body
            if not (isinstance(st, ast.Expr) and isinstance(st.value, ast.Constant))]
    params = [a.arg for a in fn.args.args]
    if len(params) != len(args):
        return None

    class Sub(ast.NodeTransformer):
        def visit_Name(self, n):
            if n.id in params and isinstance(n.ctx, ast.Load):
                return copy.deepcopy(args[params.index(n.id)])
            return n

    def strip(n):
        n = copy.copy(n)
        return n
    for x in ast.walk(fn):
        x.__dict__.pop("_parent", None)
    if len(body) == 1 and isinstance(body[0], ast.Return) and body[0].value is not None:
        return qform(Sub().visit(copy.deepcopy(body[0].value)))
    if len(body) == 2 and isinstance(body[0], ast.For) and isinstance(body[1], ast.Return) \
            and isinstance(body[1].value, ast.Constant) \
            and isinstance(body[1].value.value, bool) and len(body[0].body) == 1 \
            and isinstance(body[0].body[0], ast.If) and not body[0].body[0].orelse \
            and not body[0].orelse:
        iff = body[0].body[0]
        if len(iff.body) == 1 and isinstance(iff.body[0], ast.Return) \
                and isinstance(iff.body[0].value, ast.Constant) \
                and iff.body[0].value.value is (not body[1].value.value):
            lp = Sub().visit(copy.deepcopy(body[0]))
            inner = rename(qform(lp.body[0].test), unparse(lp.target), "$v")
            f = ("exists", "$v", container(lp.iter), inner)
            return f if body[1].value.value is False else neg(f)
    return None


def rename(f, old, new):
    if isinstance(f, tuple):
        return tuple(rename(x, old, new) for x in f)
    if f == old:
        return new
    return f


def flag_idiom(block, idx, name):
    """statements before block[idx] of the shape
         name = False ; for v in S: if COND: name = True ; break
       (or the dual with True/False exchanged) -> canonical form of `name`, else None.
       A direct assignment  name = <expr>  is resolved as well."""
    for j in range(idx - 1, -1, -1):
        st = block[j]
        if isinstance(st, ast.Assign) and unparse(st.targets[0]) == name:
            if not (isinstance(st.value, ast.Constant) and isinstance(st.value.value, bool)):
                return qform(st.value)
            init = st.value.value
            # the loop must follow between j and idx
            for k in range(j + 1, idx):
                lp = block[k]
                if isinstance(lp, ast.For) and len(lp.body) == 1 and isinstance(lp.body[0], ast.If) \
                        and not lp.orelse and not lp.body[0].orelse:
                    iff = lp.body[0]
                    sets = [s for s in iff.body if isinstance(s, ast.Assign)
                            and unparse(s.targets[0]) == name
                            and isinstance(s.value, ast.Constant)
                            and s.value.value is (not init)]
                    others = [s for s in iff.body if s not in sets and not isinstance(s, ast.Break)]
                    if sets and not others:
                        body = rename(qform(iff.test), unparse(lp.target), "$v")
                        f = ("exists", "$v", container(lp.iter), body)
                        return f if init is False else neg(f)
            return ("const", init)
        if isinstance(st, ast.For):
            continue        # candidate loop of the idiom; examined once the initialisation is found
        if any(isinstance(x, ast.Name) and x.id == name and isinstance(x.ctx, ast.Store)
               for x in ast.walk(st)):
            return None
    return None


def path_conditions(node):
    """[(canonical condition, If node)] that hold on the way to `node` inside its function;
    flags tested by name are resolved through the loop-and-flag idiom."""
    out = []
    child = node
    par = getattr(node, "_parent", None)
    while par is not None and not isinstance(par, (ast.FunctionDef, ast.Lambda)):
        if isinstance(par, ast.If):
            pos = child in par.body
            blk, idx = _block_of(par)

            def resolve(nm, blk=blk, idx=idx):
                return flag_idiom(blk, idx, nm) if blk is not None else None
            f = qform(par.test, resolve)
            out.append((f if pos else neg(f), par))
        child = par
        par = getattr(par, "_parent", None)
    return out


def _block_of(node):
    par = getattr(node, "_parent", None)
    for field in ("body", "orelse", "finalbody"):
        b = getattr(par, field, None)
        if isinstance(b, list) and node in b:
            return b, b.index(node)
    if isinstance(par, ast.Try):
        for h in par.handlers:
            if node in h.body:
                return h.body, h.body.index(node)
    return None, None


def mentions(f, what):
    if isinstance(f, tuple):
        return any(mentions(x, what) for x in f)
    return f == what
