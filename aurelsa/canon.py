"""Canonical form of a parsed module, applied once when a module is loaded, so that every rule
sees the same shapes whatever the author's style.  Every rewrite is behaviour-preserving by
construction (for the analyses: value, control flow, aliasing and effects are unchanged):

  K  keyword arguments to package functions / a few numpy functions become positional
  H  private helpers (`_name`: module-level functions and methods) are inlined at their call
     sites -- expression helpers (straight-line assignments + one return) anywhere, procedure
     helpers (no return value) at statement level -- and dropped once no reference is left
  A  `x.append(e)`  ->  `x += [e]`
  I  conditional expressions at statement level become if/else statements
  P  aliases (`fd = self.fd`, `cached = d[k]`) are replaced by what they stand for, and a
     temporary that is assigned once and used once in the next statement is inlined
  T  `a, b = x, y` becomes two assignments;  `for i in range(len(X)): v = X[i]` becomes
     `for i, v in enumerate(X)`;  `if not c: A else: B` becomes `if c: B else: A`
  G  a guard `if c: ...; return|continue|break` followed by more statements becomes
     `if c: ... else: <rest>`;  `if c: continue|pass else: B` becomes `if not c: B` with the
     negation pushed inwards

Nodes keep the line numbers of the text they came from, so findings still point at source."""
from __future__ import annotations

import ast
import copy
import itertools

_counter = itertools.count(1)

NUMPY_KW = {"transpose": ["a", "axes"], "moveaxis": ["a", "source", "destination"],
            "roll": ["a", "shift", "axis"], "swapaxes": ["a", "axis1", "axis2"],
            "concatenate": ["arrays", "axis"], "append": ["arr", "values", "axis"],
            "stack": ["arrays", "axis"], "percentile": ["a", "q"]}


def _unparse(n):
    try:
        return ast.unparse(n)
    except Exception:  # noqa: BLE001
        return ""


# ---------------------------------------------------------------------------------------------
# negation normal form
# ---------------------------------------------------------------------------------------------
_FLIP = {ast.Eq: ast.NotEq, ast.NotEq: ast.Eq, ast.Is: ast.IsNot, ast.IsNot: ast.Is,
         ast.In: ast.NotIn, ast.NotIn: ast.In, ast.Lt: ast.GtE, ast.GtE: ast.Lt,
         ast.Gt: ast.LtE, ast.LtE: ast.Gt}


def negate(test):
    t = test
    if isinstance(t, ast.UnaryOp) and isinstance(t.op, ast.Not):
        return t.operand
    if isinstance(t, ast.BoolOp):
        new = ast.BoolOp(op=ast.And() if isinstance(t.op, ast.Or) else ast.Or(),
                         values=[negate(v) for v in t.values])
        return ast.copy_location(new, t)
    if isinstance(t, ast.Compare) and len(t.ops) == 1 and type(t.ops[0]) in _FLIP \
            and not isinstance(t.ops[0], (ast.Lt, ast.Gt, ast.LtE, ast.GtE)):
        new = ast.Compare(left=t.left, ops=[_FLIP[type(t.ops[0])]()], comparators=t.comparators)
        return ast.copy_location(new, t)
    return ast.copy_location(ast.UnaryOp(op=ast.Not(), operand=t), t)


# ---------------------------------------------------------------------------------------------
# block-level rewrites (A, I, G)
# ---------------------------------------------------------------------------------------------
def _ends_in_jump(block):
    return bool(block) and isinstance(block[-1], (ast.Return, ast.Continue, ast.Break))


def _ifexp_split(st):
    """statement with a conditional expression at its top -> If statement, else None"""
    def mk(test, a, b):
        node = ast.If(test=test, body=[a], orelse=[b])
        return ast.copy_location(node, st)
    if isinstance(st, ast.Assign) and isinstance(st.value, ast.IfExp):
        v = st.value
        a = ast.copy_location(ast.Assign(targets=st.targets, value=v.body), st)
        b = ast.copy_location(ast.Assign(targets=copy.deepcopy(st.targets), value=v.orelse), st)
        return mk(v.test, a, b)
    if isinstance(st, ast.Return) and isinstance(st.value, ast.IfExp):
        v = st.value
        return mk(v.test, ast.copy_location(ast.Return(value=v.body), st),
                  ast.copy_location(ast.Return(value=v.orelse), st))
    if isinstance(st, ast.Expr) and isinstance(st.value, ast.Call) \
            and isinstance(st.value.func, ast.Attribute) and st.value.func.attr == "append" \
            and len(st.value.args) == 1 and isinstance(st.value.args[0], ast.IfExp) \
            and not st.value.keywords:
        v = st.value.args[0]

        def app(e):
            c = ast.Call(func=copy.deepcopy(st.value.func), args=[e], keywords=[])
            return ast.copy_location(ast.Expr(value=ast.copy_location(c, st.value)), st)
        return mk(v.test, app(v.body), app(v.orelse))
    if isinstance(st, ast.AugAssign) and isinstance(st.value, ast.List) \
            and len(st.value.elts) == 1 and isinstance(st.value.elts[0], ast.IfExp):
        v = st.value.elts[0]

        def aug(e):
            lst = ast.copy_location(ast.List(elts=[e], ctx=ast.Load()), st.value)
            return ast.copy_location(ast.AugAssign(target=copy.deepcopy(st.target), op=st.op,
                                                   value=lst), st)
        return mk(v.test, aug(v.body), aug(v.orelse))
    return None


def _append_to_aug(st):
    if isinstance(st, ast.Expr) and isinstance(st.value, ast.Call) \
            and isinstance(st.value.func, ast.Attribute) and st.value.func.attr == "append" \
            and isinstance(st.value.func.value, ast.Name) and len(st.value.args) == 1 \
            and not st.value.keywords:
        tgt = ast.Name(id=st.value.func.value.id, ctx=ast.Store())
        ast.copy_location(tgt, st.value.func.value)
        lst = ast.copy_location(ast.List(elts=[st.value.args[0]], ctx=ast.Load()), st.value)
        return ast.copy_location(ast.AugAssign(target=tgt, op=ast.Add(), value=lst), st)
    return None


def _split_tuple_assign(st):
    """a, b = x, y  (no target name read on the right)  ->  a = x ; b = y
    a, b = m.groups()  ->  a = m.group(1) ; b = m.group(2)   (m a plain name)"""
    if isinstance(st, ast.Assign) and len(st.targets) == 1 \
            and isinstance(st.targets[0], ast.Tuple) and isinstance(st.value, ast.Call) \
            and isinstance(st.value.func, ast.Attribute) and st.value.func.attr == "groups" \
            and not st.value.args and not st.value.keywords \
            and isinstance(st.value.func.value, ast.Name) \
            and all(isinstance(t, ast.Name) for t in st.targets[0].elts) \
            and st.value.func.value.id not in {t.id for t in st.targets[0].elts}:
        out = []
        for i, t in enumerate(st.targets[0].elts):
            call = ast.Call(func=ast.Attribute(value=ast.Name(id=st.value.func.value.id,
                                                              ctx=ast.Load()),
                                               attr="group", ctx=ast.Load()),
                            args=[ast.Constant(i + 1)], keywords=[])
            a = ast.copy_location(ast.Assign(targets=[t], value=call), st)
            ast.fix_missing_locations(a)
            out.append(a)
        return out
    if isinstance(st, ast.Assign) and len(st.targets) == 1 \
            and isinstance(st.targets[0], ast.Tuple) and isinstance(st.value, ast.Tuple) \
            and len(st.targets[0].elts) == len(st.value.elts) \
            and all(isinstance(t, ast.Name) for t in st.targets[0].elts):
        tnames = {t.id for t in st.targets[0].elts}
        rnames = {x.id for x in ast.walk(st.value) if isinstance(x, ast.Name)}
        if not (tnames & rnames) and len(tnames) == len(st.targets[0].elts):
            return [ast.copy_location(ast.Assign(targets=[t], value=v), st)
                    for t, v in zip(st.targets[0].elts, st.value.elts)]
    return None


def _range_len_to_enumerate(st):
    """for i in range(len(X)): v = X[i]; ...   ->   for i, v in enumerate(X): ..."""
    if not (isinstance(st, ast.For) and isinstance(st.target, ast.Name) and not st.orelse
            and isinstance(st.iter, ast.Call) and _unparse(st.iter.func) == "range"
            and len(st.iter.args) == 1 and isinstance(st.iter.args[0], ast.Call)
            and _unparse(st.iter.args[0].func) == "len" and len(st.iter.args[0].args) == 1
            and isinstance(st.iter.args[0].args[0], ast.Name) and st.body):
        return None
    i, X = st.target.id, st.iter.args[0].args[0].id
    first = st.body[0]
    if not (isinstance(first, ast.Assign) and len(first.targets) == 1
            and isinstance(first.targets[0], ast.Name)
            and _unparse(first.value) == f"{X}[{i}]"):
        return None
    v = first.targets[0].id
    # the sequence is not rebound in the loop (the element is read before anything else in the
    # body, so rebinding the index or the element name later in the body changes nothing)
    for n in ast.walk(st):
        if isinstance(n, ast.Name) and isinstance(n.ctx, ast.Store) and n.id == X:
            return None
    if v == i or v == X:
        return None
    # nor changed in place (its length or elements) while the loop runs
    for n in ast.walk(st):
        if isinstance(n, ast.Call) and isinstance(n.func, ast.Attribute) \
                and isinstance(n.func.value, ast.Name) and n.func.value.id == X \
                and n.func.attr in ("append", "extend", "insert", "pop", "remove", "clear",
                                    "sort", "reverse"):
            return None
        tg = n.targets if isinstance(n, ast.Assign) else (
            [n.target] if isinstance(n, ast.AugAssign) else (
                n.targets if isinstance(n, ast.Delete) else []))
        for t in tg:
            if isinstance(t, ast.Subscript) and isinstance(t.value, ast.Name) \
                    and t.value.id == X:
                return None
            if isinstance(t, ast.Name) and t.id == X and isinstance(n, ast.AugAssign):
                return None
    tgt = ast.Tuple(elts=[ast.Name(id=i, ctx=ast.Store()), ast.Name(id=v, ctx=ast.Store())],
                    ctx=ast.Store())
    it = ast.Call(func=ast.Name(id="enumerate", ctx=ast.Load()),
                  args=[ast.Name(id=X, ctx=ast.Load())], keywords=[])
    new = ast.For(target=ast.copy_location(tgt, st.target), iter=ast.copy_location(it, st.iter),
                  body=st.body[1:] or [ast.copy_location(ast.Pass(), st)], orelse=[])
    new = ast.copy_location(new, st)
    ast.fix_missing_locations(new)
    return new


def _product_to_nested(st):
    """for a, b in itertools.product(A, B): BODY  ->  for a in A: for b in B: BODY
    (plain iterables that the body does not rebind)"""
    if not (isinstance(st, ast.For) and not st.orelse and isinstance(st.iter, ast.Call)
            and _unparse(st.iter.func) in ("itertools.product", "product")
            and not st.iter.keywords and isinstance(st.target, (ast.Tuple, ast.List))
            and len(st.target.elts) == len(st.iter.args) >= 2
            and all(isinstance(t, ast.Name) for t in st.target.elts)):
        return None

    def plain(e):
        if isinstance(e, ast.Name):
            return True
        if isinstance(e, (ast.Attribute, ast.Subscript)):
            return plain(e.value) and (not isinstance(e, ast.Subscript) or isinstance(
                e.slice, (ast.Constant, ast.Name)))
        if isinstance(e, ast.Call) and not e.keywords:
            if isinstance(e.func, ast.Attribute) and e.func.attr in ("keys", "values", "items",
                                                                     "copy") and not e.args:
                return plain(e.func.value)
            if isinstance(e.func, ast.Name) and e.func.id in ("list", "tuple", "sorted",
                                                              "range", "len") \
                    and all(plain(a) for a in e.args):
                return True
        return isinstance(e, ast.Constant)
    if not all(plain(a) for a in st.iter.args):
        return None
    stored = set()
    for b in st.body:
        stored |= {n.id for n in ast.walk(b) if isinstance(n, ast.Name)
                   and isinstance(n.ctx, (ast.Store, ast.Del))}
    used = {n.id for a in st.iter.args for n in ast.walk(a) if isinstance(n, ast.Name)}
    if stored & used or _jumps_out(st.body):
        return None
    body = st.body
    for t, a in reversed(list(zip(st.target.elts, st.iter.args))):
        loop = ast.For(target=t, iter=a, body=body, orelse=[])
        ast.copy_location(loop, st)
        body = [loop]
    return body[0]


def _unpack_loop_var(st):
    """for t in X: a, b = t; ...   ->   for a, b in X: ...  (other reads of t become (a, b))"""
    if not (isinstance(st, ast.For) and isinstance(st.target, ast.Name) and st.body):
        return None
    first = st.body[0]
    t = st.target.id
    if not (isinstance(first, ast.Assign) and len(first.targets) == 1
            and isinstance(first.targets[0], ast.Tuple)
            and all(isinstance(e, ast.Name) for e in first.targets[0].elts)
            and isinstance(first.value, ast.Name) and first.value.id == t):
        return None
    names = [e.id for e in first.targets[0].elts]
    for n in ast.walk(st):
        if isinstance(n, ast.Name) and isinstance(n.ctx, ast.Store) and \
                (n.id == t and n is not st.target or
                 (n.id in names and n not in first.targets[0].elts)):
            return None

    class R(ast.NodeTransformer):
        def visit_Name(self, n):
            if n.id == t and isinstance(n.ctx, ast.Load):
                return ast.copy_location(ast.Tuple(
                    elts=[ast.Name(id=x, ctx=ast.Load()) for x in names], ctx=ast.Load()), n)
            return n
    body = [R().visit(x) for x in st.body[1:]] or [ast.copy_location(ast.Pass(), st)]
    tgt = ast.Tuple(elts=[ast.Name(id=x, ctx=ast.Store()) for x in names], ctx=ast.Store())
    new = ast.For(target=ast.copy_location(tgt, st.target), iter=st.iter, body=body,
                  orelse=st.orelse)
    new = ast.copy_location(new, st)
    ast.fix_missing_locations(new)
    return new


def _strip_keys(e):
    """X.keys() / list(X.keys())  ->  X   (as an iterable or a membership container)"""
    if isinstance(e, ast.Call) and _unparse(e.func) in ("list", "tuple") and len(e.args) == 1 \
            and not e.keywords and isinstance(e.args[0], ast.Call) \
            and isinstance(e.args[0].func, ast.Attribute) and e.args[0].func.attr == "keys" \
            and not e.args[0].args:
        return e.args[0].func.value
    if isinstance(e, ast.Call) and isinstance(e.func, ast.Attribute) and e.func.attr == "keys" \
            and not e.args and not e.keywords:
        return e.func.value
    return e


class _KeysNorm(ast.NodeTransformer):
    """iteration over / membership in  d.keys()  is iteration over / membership in  d"""

    def visit_Compare(self, node):
        self.generic_visit(node)
        if len(node.ops) == 1 and isinstance(node.ops[0], (ast.In, ast.NotIn)):
            node.comparators = [_strip_keys(node.comparators[0])]
        return node

    def visit_For(self, node):
        self.generic_visit(node)
        if isinstance(node.iter, ast.Call) and isinstance(node.iter.func, ast.Attribute) \
                and node.iter.func.attr == "keys" and not node.iter.args:
            node.iter = node.iter.func.value
        return node

    def visit_comprehension(self, node):
        self.generic_visit(node)
        if isinstance(node.iter, ast.Call) and isinstance(node.iter.func, ast.Attribute) \
                and node.iter.func.attr == "keys" and not node.iter.args:
            node.iter = node.iter.func.value
        return node


def _items_to_keys(st):
    """for k, v in D.items(): ...   ->   for k in D: ... with v read as D[k]"""
    if not (isinstance(st, ast.For) and isinstance(st.target, ast.Tuple)
            and len(st.target.elts) == 2 and all(isinstance(e, ast.Name)
                                                  for e in st.target.elts)
            and isinstance(st.iter, ast.Call) and isinstance(st.iter.func, ast.Attribute)
            and st.iter.func.attr == "items" and not st.iter.args
            and _alias_expr(st.iter.func.value)):
        return None
    k, v = st.target.elts[0].id, st.target.elts[1].id
    D = st.iter.func.value
    dnames = {x.id for x in ast.walk(D) if isinstance(x, ast.Name)}
    for n in ast.walk(st):
        if isinstance(n, ast.Name) and isinstance(n.ctx, ast.Store) \
                and n not in st.target.elts and (n.id in (k, v) or n.id in dnames):
            return None
    # a store through D inside the loop could change what D[k] is
    for n in ast.walk(st):
        tg = n.targets if isinstance(n, ast.Assign) else (
            [n.target] if isinstance(n, ast.AugAssign) else [])
        for t in tg:
            if isinstance(t, ast.Subscript) and _unparse(t.value) == _unparse(D):
                return None

    class R(ast.NodeTransformer):
        def visit_Name(self, n):
            if n.id == v and isinstance(n.ctx, ast.Load):
                sub = ast.Subscript(value=copy.deepcopy(D),
                                    slice=ast.Name(id=k, ctx=ast.Load()), ctx=ast.Load())
                return ast.copy_location(sub, n)
            return n
    body = [R().visit(x) for x in st.body]
    new = ast.For(target=ast.copy_location(ast.Name(id=k, ctx=ast.Store()), st.target),
                  iter=copy.deepcopy(D), body=body, orelse=st.orelse)
    new = ast.copy_location(new, st)
    ast.fix_missing_locations(new)
    return new


def _is_negative(test):
    if isinstance(test, ast.UnaryOp) and isinstance(test.op, ast.Not):
        return True
    return isinstance(test, ast.Compare) and len(test.ops) == 1 \
        and isinstance(test.ops[0], (ast.NotIn, ast.IsNot, ast.NotEq))


def _pure_value(e):
    if isinstance(e, (ast.Constant, ast.Name)):
        return True
    if isinstance(e, (ast.List, ast.Tuple)):
        return all(_pure_value(x) for x in e.elts)
    if isinstance(e, ast.Dict):
        return all(k is not None and _pure_value(k) for k in e.keys) and all(
            _pure_value(v) for v in e.values)
    if isinstance(e, ast.BinOp):
        return _pure_value(e.left) and _pure_value(e.right)
    if isinstance(e, (ast.Attribute, ast.Subscript)):
        return _simple_arg(e)
    return False


def _loop_over_lookups(st):
    """for x in [D[k] for k in S]: B   ->   for k in S: x = D[k]; B     (D[k] a plain lookup;
    B does not rebind k or the names D[k] reads)"""
    if not (isinstance(st, ast.For) and not st.orelse and isinstance(st.target, ast.Name)
            and isinstance(st.iter, (ast.ListComp, ast.GeneratorExp))
            and len(st.iter.generators) == 1 and not st.iter.generators[0].ifs
            and not st.iter.generators[0].is_async
            and isinstance(st.iter.elt, ast.Subscript) and _alias_expr(st.iter.elt)):
        return None
    g = st.iter.generators[0]
    names = {n.id for n in ast.walk(st.iter) if isinstance(n, ast.Name)}
    stored = {n.id for b in st.body for n in ast.walk(b) if isinstance(n, ast.Name)
              and isinstance(n.ctx, (ast.Store, ast.Del))} - {st.target.id}
    if names & stored or st.target.id in names:
        return None
    bind = ast.Assign(targets=[ast.Name(id=st.target.id, ctx=ast.Store())], value=st.iter.elt)
    tgt = copy.deepcopy(g.target)
    for n in ast.walk(tgt):
        if isinstance(n, (ast.Name, ast.Tuple, ast.List)):
            n.ctx = ast.Store()
    loop = ast.For(target=tgt, iter=g.iter, body=[bind] + st.body, orelse=[])
    ast.copy_location(loop, st)
    ast.fix_missing_locations(loop)
    return [loop]


def _reduce_to_loop(st):
    """T = functools.reduce(F, (E for k in S), INIT)   ->   T = INIT; for k in S: T = F(T, E)
    (T a name or a plain subscript that neither F's arguments nor S mention)"""
    if not (isinstance(st, ast.Assign) and len(st.targets) == 1
            and isinstance(st.value, ast.Call) and _unparse(st.value.func) in (
                "functools.reduce", "reduce") and len(st.value.args) == 3
            and not st.value.keywords and isinstance(st.value.args[0], ast.Name)):
        return None
    tgt = st.targets[0]
    if not (isinstance(tgt, ast.Name) or (isinstance(tgt, ast.Subscript) and _alias_expr(tgt))):
        return None
    f, it, init = st.value.args
    if isinstance(it, ast.GeneratorExp):
        if len(it.generators) != 1 or it.generators[0].ifs or it.generators[0].is_async:
            return None
        var, seq, elt = it.generators[0].target, it.generators[0].iter, it.elt
    else:
        name = f"item__r{next(_counter)}"
        var, seq, elt = ast.Name(id=name, ctx=ast.Store()), it, ast.Name(id=name,
                                                                          ctx=ast.Load())
    root = tgt
    while isinstance(root, ast.Subscript):
        root = root.value
    tnames = {n.id for n in ast.walk(tgt) if isinstance(n, ast.Name)}
    if any(isinstance(n, ast.Name) and n.id == root.id for x in (seq, elt, init)
           for n in ast.walk(x)) and isinstance(tgt, ast.Name):
        return None
    if isinstance(tgt, ast.Subscript) and any(
            _unparse(n) == _unparse(tgt) for x in (seq, elt) for n in ast.walk(x)
            if isinstance(n, ast.Subscript)):
        return None
    if any(isinstance(n, ast.Name) and n.id in tnames and isinstance(n.ctx, ast.Store)
           for n in ast.walk(var)):
        return None
    load = copy.deepcopy(tgt)
    for n in ast.walk(load):
        if isinstance(n, (ast.Name, ast.Subscript)) and isinstance(getattr(n, "ctx", None),
                                                                    ast.Store):
            n.ctx = ast.Load()
    first = ast.Assign(targets=[copy.deepcopy(tgt)], value=init)
    step = ast.Assign(targets=[copy.deepcopy(tgt)],
                      value=ast.Call(func=f, args=[load, elt], keywords=[]))
    var = copy.deepcopy(var)
    for n in ast.walk(var):
        if isinstance(n, (ast.Name, ast.Tuple, ast.List)):
            n.ctx = ast.Store()
    loop = ast.For(target=var, iter=seq, body=[step], orelse=[])
    for n in (first, loop):
        ast.copy_location(n, st)
        ast.fix_missing_locations(n)
    return [first, loop]


def _lazy_iter_loops(block):
    """T = filter(P, S) / map(F, S) consumed by the `for` loop that follows (or written in its
    header): the predicate / function is applied element by element as the loop runs --
    for x in filter(P, S): B  ->  for x in S: if P(x): B ;
    for y in map(F, S): B     ->  for e in S: y = F(e); B
    and  T = D.setdefault(K, V)  (V a plain value)  ->  if K not in D: D[K] = V ; T = D[K]"""
    out = []
    i = 0
    block = [x for st in block for x in (_reduce_to_loop(st) or _loop_over_lookups(st)
                                          or [st])]
    while i < len(block):
        st = block[i]
        nxt = block[i + 1] if i + 1 < len(block) else None
        call = None
        if isinstance(st, ast.For) and isinstance(st.iter, ast.Call):
            call, loop, skip = st.iter, st, 1
        elif isinstance(st, ast.Assign) and len(st.targets) == 1 \
                and isinstance(st.targets[0], ast.Name) and isinstance(st.value, ast.Call) \
                and isinstance(nxt, ast.For) and isinstance(nxt.iter, ast.Name) \
                and nxt.iter.id == st.targets[0].id:
            tname = st.targets[0].id
            uses = sum(isinstance(n, ast.Name) and n.id == tname
                       for b in block for n in ast.walk(b))
            if uses == 2:
                call, loop, skip = st.value, nxt, 2
        if call is not None and isinstance(call.func, ast.Name) \
                and call.func.id in ("filter", "map") and len(call.args) == 2 \
                and not call.keywords and not loop.orelse and not _jumps_out(loop.body) \
                and not isinstance(call.args[0], ast.Constant):
            fn_, seq = call.args
            if call.func.id == "filter":
                test = ast.Call(func=fn_, args=[copy.deepcopy(loop.target)], keywords=[])
                for n in ast.walk(test):
                    if isinstance(n, (ast.Name, ast.Tuple, ast.List)) and hasattr(n, "ctx"):
                        n.ctx = ast.Load()
                body = [ast.If(test=test, body=loop.body, orelse=[])]
                new = ast.For(target=loop.target, iter=seq, body=body, orelse=[])
            else:
                ev = f"elem__m{next(_counter)}"
                asg = ast.Assign(targets=[loop.target], value=ast.Call(
                    func=fn_, args=[ast.Name(id=ev, ctx=ast.Load())], keywords=[]))
                new = ast.For(target=ast.Name(id=ev, ctx=ast.Store()), iter=seq,
                              body=[asg] + loop.body, orelse=[])
            ast.copy_location(new, loop)
            ast.fix_missing_locations(new)
            out.append(new)
            i += skip
            continue
        if isinstance(st, (ast.Assign, ast.Expr)) and isinstance(st.value, ast.Call) \
                and isinstance(st.value.func, ast.Attribute) \
                and st.value.func.attr == "setdefault" and len(st.value.args) == 2 \
                and not st.value.keywords and _simple_arg(st.value.func.value) \
                and _simple_arg(st.value.args[0]) and _pure_value(st.value.args[1]) \
                and (isinstance(st, ast.Expr) or (len(st.targets) == 1 and isinstance(
                    st.targets[0], ast.Name))):
            D, K, V = st.value.func.value, st.value.args[0], st.value.args[1]
            guard = ast.If(
                test=ast.Compare(left=copy.deepcopy(K), ops=[ast.NotIn()],
                                 comparators=[copy.deepcopy(D)]),
                body=[ast.Assign(targets=[ast.Subscript(value=copy.deepcopy(D),
                                                        slice=copy.deepcopy(K),
                                                        ctx=ast.Store())], value=V)],
                orelse=[])
            ast.copy_location(guard, st)
            ast.fix_missing_locations(guard)
            out.append(guard)
            if isinstance(st, ast.Assign):
                get = ast.Assign(targets=st.targets, value=ast.Subscript(
                    value=copy.deepcopy(D), slice=copy.deepcopy(K), ctx=ast.Load()))
                ast.copy_location(get, st)
                ast.fix_missing_locations(get)
                out.append(get)
            i += 1
            continue
        upd = _update_to_loop(st)
        if upd is not None:
            out.append(upd)
            i += 1
            continue
        out.append(st)
        i += 1
    return out


def _update_to_loop(st):
    """D.update(dict.fromkeys(S, c))            ->  for k in S: D[k] = c
       D.update({K: V for t in S})              ->  for t in S: D[K] = V
       D.update((K, V) for t in S [if c])       ->  for t in S: [if c:] D[K] = V"""
    if not (isinstance(st, ast.Expr) and isinstance(st.value, ast.Call)
            and isinstance(st.value.func, ast.Attribute) and st.value.func.attr == "update"
            and len(st.value.args) == 1 and not st.value.keywords
            and _simple_arg(st.value.func.value)):
        return None
    D, arg = st.value.func.value, st.value.args[0]
    target = seq = key = val = None
    ifs = []
    if isinstance(arg, ast.Call) and _unparse(arg.func) == "dict.fromkeys" \
            and 1 <= len(arg.args) <= 2 and not arg.keywords \
            and (len(arg.args) == 1 or isinstance(arg.args[1], ast.Constant)):
        kname = f"key__u{next(_counter)}"
        target = ast.Name(id=kname, ctx=ast.Store())
        seq = arg.args[0]
        key = ast.Name(id=kname, ctx=ast.Load())
        val = arg.args[1] if len(arg.args) == 2 else ast.Constant(None)
    elif isinstance(arg, ast.DictComp) and len(arg.generators) == 1:
        g = arg.generators[0]
        target, seq, key, val, ifs = g.target, g.iter, arg.key, arg.value, g.ifs
    elif isinstance(arg, ast.GeneratorExp) and len(arg.generators) == 1 \
            and isinstance(arg.elt, ast.Tuple) and len(arg.elt.elts) == 2:
        g = arg.generators[0]
        target, seq, ifs = g.target, g.iter, g.ifs
        key, val = arg.elt.elts
    if target is None:
        return None
    target = copy.deepcopy(target)
    for n in ast.walk(target):
        if isinstance(n, (ast.Name, ast.Tuple, ast.List)):
            n.ctx = ast.Store()
    body = [ast.Assign(targets=[ast.Subscript(value=copy.deepcopy(D), slice=key,
                                              ctx=ast.Store())], value=val)]
    for c in reversed(ifs):
        body = [ast.If(test=c, body=body, orelse=[])]
    loop = ast.For(target=target, iter=seq, body=body, orelse=[])
    ast.copy_location(loop, st)
    ast.fix_missing_locations(loop)
    return loop


def _direct_accumulation(block):
    """kept = []; ...kept += [e]...; X += kept   (kept used nowhere else, X not touched in
    between)  ->  ...X += [e]...      and   X += []  ->  nothing"""
    def is_empty_list(e):
        return isinstance(e, ast.List) and not e.elts

    block = [st for st in block if not (
        isinstance(st, ast.AugAssign) and isinstance(st.op, ast.Add)
        and isinstance(st.target, ast.Name) and is_empty_list(st.value))] or (
        [ast.copy_location(ast.Pass(), block[0])] if block else block)
    i = 0
    while i < len(block):
        st = block[i]
        if isinstance(st, ast.Assign) and len(st.targets) == 1 \
                and isinstance(st.targets[0], ast.Name) and is_empty_list(st.value):
            k = st.targets[0].id
            for j in range(i + 1, len(block)):
                fl = block[j]
                if isinstance(fl, ast.AugAssign) and isinstance(fl.op, ast.Add) \
                        and isinstance(fl.target, ast.Name) and isinstance(fl.value, ast.Name) \
                        and fl.value.id == k:
                    X = fl.target.id
                    mid = block[i + 1:j]
                    rest = block[j + 1:]
                    uses = [n for m in mid for n in ast.walk(m)
                            if isinstance(n, ast.Name) and n.id == k]
                    adds = [n for m in mid for n in ast.walk(m)
                            if isinstance(n, ast.AugAssign) and isinstance(n.op, ast.Add)
                            and isinstance(n.target, ast.Name) and n.target.id == k
                            and isinstance(n.value, ast.List)]
                    if X != k and len(uses) == len(adds) and adds \
                            and not any(isinstance(n, ast.Name) and n.id == X
                                        for m in mid for n in ast.walk(m)) \
                            and not any(isinstance(n, ast.Name) and n.id == k
                                        for m in rest for n in ast.walk(m)):
                        for a in adds:
                            a.target.id = X
                        block = block[:i] + mid + rest
                        i -= 1
                    break
                if any(isinstance(n, ast.Name) and n.id == k
                       and isinstance(n.ctx, ast.Store) for n in ast.walk(fl)) \
                        and not (isinstance(fl, ast.AugAssign) or any(
                            isinstance(n, ast.AugAssign) for n in ast.walk(fl))):
                    break
        i += 1
    return block


def canon_block(block, in_loop=False, is_loop_body=False):
    out = []
    expanded = []
    block = _direct_accumulation(list(block)) if block else block
    for st in _lazy_iter_loops(block):
        parts = _split_tuple_assign(st)
        expanded.extend(parts if parts else [st])
    block = expanded
    for st in block:
        r = _range_len_to_enumerate(st)
        if r is not None:
            st = r
        r = _product_to_nested(st)
        if r is not None:
            st = r
        r = _unpack_loop_var(st)
        if r is not None:
            st = r
        r = _items_to_keys(st)
        if r is not None:
            st = r
        r = _ifexp_split(st)
        if r is not None:
            st = r
        r = _append_to_aug(st)
        if r is not None:
            st = r
            r = _ifexp_split(st)
            if r is not None:
                st = r
        # recurse
        if isinstance(st, (ast.For, ast.While)):
            st.body = canon_block(st.body, True, True)
            st.orelse = canon_block(st.orelse, in_loop)
        elif isinstance(st, ast.If):
            # the branches of the last statement of a loop body end the round as well
            tail = is_loop_body and st is block[-1]
            st.body = canon_block(st.body, in_loop, tail)
            st.orelse = canon_block(st.orelse, in_loop, tail)
            if st.orelse and _is_negative(st.test) and not (
                    len(st.orelse) == 1 and isinstance(st.orelse[0], ast.If)):
                st.test, st.body, st.orelse = negate(st.test), st.orelse, st.body
        elif isinstance(st, ast.With):
            st.body = canon_block(st.body, in_loop)
        elif isinstance(st, ast.Try):
            st.body = canon_block(st.body, in_loop)
            for h in st.handlers:
                h.body = canon_block(h.body, in_loop)
            st.orelse = canon_block(st.orelse, in_loop)
            st.finalbody = canon_block(st.finalbody, in_loop)
        elif isinstance(st, (ast.FunctionDef, ast.AsyncFunctionDef)):
            st.body = canon_block(st.body)
        elif isinstance(st, ast.ClassDef):
            st.body = canon_block(st.body)
        out.append(st)
    # a final `return E` after an if whose branches partly return on their own is carried into
    # the branches that reach it (every path then ends in its own return)
    if len(out) >= 2 and isinstance(out[-1], ast.Return) and isinstance(out[-2], ast.If) \
            and _has_return([out[-2]]) and not _always_jumps([out[-2]]) \
            and not (not out[-2].orelse and _always_jumps(out[-2].body)):
        # (a plain guard `if c: return A` + `return B` is left to G, which also orients it)
        tail_ret = out[-1]

        def sink_ret(block):
            if _always_jumps(block):
                return block
            if block and isinstance(block[-1], ast.If) and _has_return([block[-1]]):
                block[-1].body = sink_ret(block[-1].body)
                block[-1].orelse = sink_ret(block[-1].orelse)
                return block
            return block + [copy.deepcopy(tail_ret)]
        out[-2].body = sink_ret(out[-2].body)
        out[-2].orelse = sink_ret(out[-2].orelse)
        out = out[:-1]
    # G: guard followed by more statements -> if/else
    for i, st in enumerate(out):
        if isinstance(st, ast.If) and not st.orelse and _always_jumps(st.body) \
                and not _raises_only(st.body) and i + 1 < len(out):
            rest = out[i + 1:]
            if any(isinstance(x, (ast.FunctionDef, ast.ClassDef)) for x in rest):
                break
            st.orelse = canon_block(rest, in_loop, is_loop_body)
            if st.orelse and _is_negative(st.test) and not (
                    len(st.orelse) == 1 and isinstance(st.orelse[0], ast.If)):
                st.test, st.body, st.orelse = negate(st.test), st.orelse, st.body
            out = out[:i + 1]
            break
    # `if c: continue|pass else: B` -> `if not c: B`
    # (continue only as the last statement of a loop body: nothing follows it anyway)
    if out and isinstance(out[-1], ast.If):
        st = out[-1]
        triv = len(st.body) == 1 and (isinstance(st.body[0], ast.Pass)
                                      or (isinstance(st.body[0], ast.Continue) and is_loop_body))
        if triv and st.orelse:
            new = ast.If(test=negate(st.test), body=st.orelse, orelse=[])
            out[-1] = ast.copy_location(new, st)
            # the body may now start with a nested if that can be merged no further
    return out


# ---------------------------------------------------------------------------------------------
# K: keywords -> positional
# ---------------------------------------------------------------------------------------------
class _KwToPos(ast.NodeTransformer):
    def __init__(self, sigs):
        self.sigs = sigs          # callee short name -> [param names] (without self)

    def visit_Call(self, node):
        self.generic_visit(node)
        if not node.keywords or any(k.arg is None for k in node.keywords):
            return node
        f = node.func
        params = None
        if isinstance(f, ast.Attribute) and isinstance(f.value, ast.Name) \
                and f.value.id in ("np", "numpy") and f.attr in NUMPY_KW:
            params = NUMPY_KW[f.attr]
        elif isinstance(f, ast.Attribute) and f.attr in self.sigs:
            params = self.sigs[f.attr]
        elif isinstance(f, ast.Name) and f.id in self.sigs:
            params = self.sigs[f.id]
        if params is None:
            return node
        args = list(node.args)
        kws = {k.arg: k.value for k in node.keywords}
        if not set(kws) <= set(params) or len(args) > len(params):
            return node
        for p in params[len(args):]:
            if p not in kws:
                break
            args.append(kws.pop(p))
        node.args = args
        node.keywords = [k for k in node.keywords if k.arg in kws]
        return node


def _signatures(trees):
    """short function name -> parameter list, for names defined exactly once in the package
    with the same parameter list (ambiguous names are left alone)"""
    seen = {}
    for tree in trees:
        for node in ast.walk(tree):
            if isinstance(node, ast.FunctionDef) and not node.args.vararg \
                    and not node.args.kwonlyargs and not node.name.startswith("__"):
                ps = [a.arg for a in node.args.args]
                if ps and ps[0] in ("self", "cls"):
                    ps = ps[1:]
                seen.setdefault(node.name, []).append(ps)
    return {k: v[0] for k, v in seen.items() if all(x == v[0] for x in v)}


def _package_private_methods(trees):
    """private methods (`_name`, first parameter self) whose name is defined exactly once in the
    package: a call `obj._name(...)` on a plain name in *another* module can only mean that one"""
    seen = {}
    for tree in trees:
        for node in tree.body:
            if isinstance(node, ast.ClassDef):
                for sub in node.body:
                    if isinstance(sub, ast.FunctionDef) and sub.name.startswith("_") \
                            and not sub.name.startswith("__") and sub.args.args \
                            and sub.args.args[0].arg == "self":
                        seen.setdefault(sub.name, []).append(sub)
            for sub in ast.walk(node):
                if isinstance(sub, ast.FunctionDef) and sub.name.startswith("_") \
                        and not (isinstance(node, ast.ClassDef) and sub in node.body):
                    seen.setdefault(sub.name, []).append(None)
    return {k: v[0] for k, v in seen.items() if len(v) == 1 and v[0] is not None}


# ---------------------------------------------------------------------------------------------
# H: inlining of private helpers
# ---------------------------------------------------------------------------------------------
class _Subst(ast.NodeTransformer):
    def __init__(self, mapping):
        self.mapping = mapping

    def visit_Name(self, node):
        if node.id in self.mapping:
            new = copy.deepcopy(self.mapping[node.id])
            if isinstance(node.ctx, ast.Store) and isinstance(new, ast.Name):
                new.ctx = ast.Store()
            return new
        return node


def _helper_kind(fn):
    """'expr' : [docstring] + simple assignments + one final `return <expr>`
       'proc' : no `return <value>` anywhere, no bare return except none; arbitrary statements
       None   : not inlinable"""
    body = list(fn.body)
    if body and isinstance(body[0], ast.Expr) and isinstance(body[0].value, ast.Constant):
        body = body[1:]
    if not body:
        return None, body
    if fn.args.vararg or fn.args.kwarg or fn.args.kwonlyargs or fn.decorator_list:
        return None, body
    if any(isinstance(n, ast.YieldFrom) for n in ast.walk(fn)):
        body = _yield_from_to_loop(copy.deepcopy(body))
        fn = copy.copy(fn)
        fn.body = body
    for n in ast.walk(fn):
        if isinstance(n, (ast.YieldFrom, ast.Global, ast.Nonlocal, ast.Lambda)) \
                or (isinstance(n, (ast.FunctionDef, ast.ClassDef)) and n is not fn):
            return None, body
    yields = [n for n in ast.walk(fn) if isinstance(n, ast.Yield)]
    if yields:
        # 'gen': every yield is a statement of its own with a value, no return at all
        stmts = {id(n.value) for n in ast.walk(fn) if isinstance(n, ast.Expr)}
        if all(id(y) in stmts and y.value is not None for y in yields) and not any(
                isinstance(n, ast.Return) for n in ast.walk(fn)):
            return "gen", body
        return None, body
    rets = [n for n in ast.walk(fn) if isinstance(n, ast.Return)]
    if isinstance(body[-1], ast.Return) and body[-1].value is not None and len(rets) == 1 \
            and all(isinstance(s, ast.Assign) and len(s.targets) == 1
                    and isinstance(s.targets[0], ast.Name) for s in body[:-1]):
        return "expr", body
    if not rets:
        return "proc", body
    if isinstance(body[-1], ast.Return) and body[-1].value is not None and len(rets) == 1:
        return "tail", body      # arbitrary statements, then the only return
    if rets and all(r.value is None or (isinstance(r.value, ast.Constant)
                                        and r.value.value is None) for r in rets):
        # a procedure with early exits: the guards take what follows as their else branch and
        # the bare returns, then all last on their path, are dropped
        norm = _strip_tail_returns(_returns_to_tail(copy.deepcopy(body)))
        if not _has_return(norm):
            return "proc", norm
        return None, body
    if rets and all(r.value is not None for r in rets):
        # several returns, each the last thing done on its path: the statement containing
        # the call is carried to every return
        norm = _returns_to_tail(copy.deepcopy(body))
        if _tail_ok(norm):
            return "multi", norm
        # a path that falls off the end returns None
        def sink(block, tail):
            if not block:
                return list(tail)
            if _always_jumps(block):
                return block
            last = block[-1]
            if isinstance(last, ast.If):
                last.body = sink(last.body, tail)
                last.orelse = sink(last.orelse, tail)
                return block
            return block + list(tail)
        none = ast.fix_missing_locations(
            ast.copy_location(ast.Return(value=ast.Constant(value=None)), body[-1]))
        norm = _returns_to_tail(sink(copy.deepcopy(body), [none]))
        if _tail_ok(norm):
            return "multi", norm
    return None, body


def _yield_from_to_loop(block):
    """`yield from X` as a statement  ->  `for t in X: yield t`"""
    out = []
    for st in block:
        if isinstance(st, ast.Expr) and isinstance(st.value, ast.YieldFrom):
            t = f"item__y{next(_counter)}"
            loop = ast.For(target=ast.Name(id=t, ctx=ast.Store()), iter=st.value.value,
                           body=[ast.Expr(value=ast.Yield(value=ast.Name(id=t, ctx=ast.Load())))],
                           orelse=[])
            ast.copy_location(loop, st)
            ast.fix_missing_locations(loop)
            out.append(loop)
            continue
        for field in ("body", "orelse", "finalbody"):
            b = getattr(st, field, None)
            if isinstance(b, list) and b and isinstance(b[0], ast.stmt):
                setattr(st, field, _yield_from_to_loop(b))
        if isinstance(st, ast.Try):
            for h in st.handlers:
                h.body = _yield_from_to_loop(h.body)
        out.append(st)
    return out


def _has_return(block):
    todo = list(block)
    while todo:
        n = todo.pop()
        if isinstance(n, ast.Return):
            return True
        if isinstance(n, (ast.FunctionDef, ast.Lambda, ast.ClassDef)):
            continue
        todo.extend(ast.iter_child_nodes(n))
    return False


def _always_jumps(block):
    """every path through the block ends in return / raise / continue / break"""
    if not block:
        return False
    st = block[-1]
    if isinstance(st, (ast.Return, ast.Raise, ast.Continue, ast.Break)):
        return True
    if isinstance(st, ast.If):
        return _always_jumps(st.body) and _always_jumps(st.orelse)
    if isinstance(st, ast.With):
        return _always_jumps(st.body)
    return False


def _raises_only(block):
    """a guard whose body just raises (an argument check) is left as a guard"""
    return len(block) >= 1 and isinstance(block[-1], ast.Raise)


def _returns_to_tail(block):
    """guards ending in a return, and try statements whose handlers all end in a jump, take
    the statements that follow them as their else branch"""
    out = []
    for i, st in enumerate(block):
        rest = block[i + 1:]
        if isinstance(st, ast.If):
            st.body = _returns_to_tail(st.body)
            st.orelse = _returns_to_tail(st.orelse)
            if rest and _has_return([st]) and not st.orelse and _always_jumps(st.body):
                st.orelse = _returns_to_tail(rest)
                out.append(st)
                return out
        elif isinstance(st, ast.Try):
            for h in st.handlers:
                h.body = _returns_to_tail(h.body)
            st.orelse = _returns_to_tail(st.orelse)
            if rest and _has_return([st]) and not st.orelse and not st.finalbody \
                    and st.handlers and all(_always_jumps(h.body) for h in st.handlers):
                st.orelse = _returns_to_tail(rest)
                out.append(st)
                return out
        out.append(st)
    return out


def _strip_tail_returns(block):
    """drop the bare returns that are the last action of their path"""
    if not block:
        return block
    st = block[-1]
    if isinstance(st, ast.Return) and (st.value is None or (
            isinstance(st.value, ast.Constant) and st.value.value is None)):
        block = block[:-1] or [ast.copy_location(ast.Pass(), st)]
    elif isinstance(st, ast.If):
        st.body = _strip_tail_returns(st.body)
        if st.orelse:
            st.orelse = _strip_tail_returns(st.orelse)
    return block


def _tail_ok(block):
    """every path through the block ends in `return <value>` as its last action, outside any
    try body / with / loop"""
    if not block or _has_return(block[:-1]):
        return False
    st = block[-1]
    if isinstance(st, ast.Return):
        return st.value is not None
    if isinstance(st, ast.If):
        return bool(st.orelse) and _tail_ok(st.body) and _tail_ok(st.orelse)
    if isinstance(st, ast.Try):
        return not st.finalbody and not _has_return(st.body) and bool(st.orelse) \
            and bool(st.handlers) and all(_tail_ok(h.body) for h in st.handlers) \
            and _tail_ok(st.orelse)
    return False


def _replace_returns(block, make):
    out = []
    for st in block:
        if isinstance(st, ast.Return):
            out.append(make(st.value))
            continue
        if isinstance(st, ast.If):
            st.body = _replace_returns(st.body, make)
            st.orelse = _replace_returns(st.orelse, make)
        elif isinstance(st, ast.Try):
            for h in st.handlers:
                h.body = _replace_returns(h.body, make)
            st.orelse = _replace_returns(st.orelse, make)
        out.append(st)
    return out


def _locals_of(body, params):
    names = set()
    for st in body:
        for n in ast.walk(st):
            if isinstance(n, ast.Name) and isinstance(n.ctx, ast.Store):
                names.add(n.id)
    return names - set(params)


def _bind(fn, call, is_method):
    params = [a.arg for a in fn.args.args]
    if is_method:
        params = params[1:]
    defaults = fn.args.defaults
    dmap = dict(zip(params[len(params) - len(defaults):], defaults)) if defaults else {}
    if any(k.arg is None for k in call.keywords) or any(isinstance(a, ast.Starred)
                                                        for a in call.args):
        return None
    if len(call.args) > len(params):
        return None
    m = dict(zip(params, call.args))
    for k in call.keywords:
        if k.arg not in params or k.arg in m:
            return None
        m[k.arg] = k.value
    for p in params:
        if p not in m:
            if p not in dmap:
                return None
            m[p] = dmap[p]
    return m


def _jumps_out(body):
    """break / continue belonging to the loop whose body this is"""
    todo = list(body)
    while todo:
        n = todo.pop()
        if isinstance(n, (ast.Break, ast.Continue)):
            return True
        if isinstance(n, (ast.For, ast.While, ast.FunctionDef, ast.Lambda, ast.ClassDef)):
            continue
        todo.extend(ast.iter_child_nodes(n))
    return False


def _replace_yields(block, target, loop_body):
    out = []
    for st in block:
        if isinstance(st, ast.Expr) and isinstance(st.value, ast.Yield):
            asg = ast.Assign(targets=[copy.deepcopy(target)], value=st.value.value)
            ast.copy_location(asg, st)
            ast.fix_missing_locations(asg)
            out.append(asg)
            out.extend(copy.deepcopy(loop_body))
            continue
        for field in ("body", "orelse", "finalbody"):
            b = getattr(st, field, None)
            if isinstance(b, list) and b and isinstance(b[0], ast.stmt):
                setattr(st, field, _replace_yields(b, target, loop_body))
        if isinstance(st, ast.Try):
            for h in st.handlers:
                h.body = _replace_yields(h.body, target, loop_body)
        out.append(st)
    return out


def _first_call(e):
    """The call evaluated first in an expression, provided nothing but plain loads precedes it."""
    while True:
        if isinstance(e, ast.Call):
            if isinstance(e.func, ast.Name) or (isinstance(e.func, ast.Attribute)
                                                and _simple_arg(e.func.value)):
                return e
            if isinstance(e.func, ast.Attribute):
                e = e.func.value
                continue
            return None
        if isinstance(e, ast.UnaryOp):
            e = e.operand
        elif isinstance(e, ast.BinOp):
            e = e.left
        elif isinstance(e, ast.BoolOp):
            e = e.values[0]
        elif isinstance(e, ast.Compare):
            e = e.left
        elif isinstance(e, (ast.Subscript, ast.Attribute)):
            e = e.value
        else:
            return None


def _replace_node(root, old, new):
    if root is old:
        return new

    class R(ast.NodeTransformer):
        def visit(self, node):
            if node is old:
                return new
            return self.generic_visit(node)
    return R().visit(root)


def _bool_dispatch(e):
    if isinstance(e, ast.Dict) and len(e.keys) == 2 and all(
            isinstance(k, ast.Constant) and isinstance(k.value, bool) for k in e.keys) \
            and {k.value for k in e.keys} == {True, False} \
            and all(isinstance(v, ast.Name) for v in e.values):
        return {k.value: v.id for k, v in zip(e.keys, e.values)}
    return None


def _simple_arg(e):
    return isinstance(e, (ast.Name, ast.Constant)) or (
        isinstance(e, ast.Attribute) and _simple_arg(e.value)) or (
        isinstance(e, ast.Subscript) and _simple_arg(e.value) and _simple_arg(e.slice))


class _Inliner:
    def __init__(self, tree, external=None):
        self.tree = tree
        self.external = {}      # private methods of classes of other modules
        self.class_helpers = {}  # (class, name) -> (fn, kind, body, is classmethod)
        self.helpers = {}       # name -> (fn, kind, body, is_method, owner class or None)
        for node in tree.body:
            if isinstance(node, ast.FunctionDef) and self._private(node.name):
                k, b = _helper_kind(node)
                if k:
                    self.helpers[node.name] = (node, k, b, False)
            elif isinstance(node, ast.ClassDef):
                for sub in node.body:
                    if isinstance(sub, ast.FunctionDef) and self._private(sub.name) \
                            and sub.args.args and sub.args.args[0].arg == "self":
                        k, b = _helper_kind(sub)
                        if k:
                            self.helpers[sub.name] = (sub, k, b, True)
                    # constructors and other class-level functions of a private class:
                    # _Cls.make(...) is inlined with cls standing for the class
                    if isinstance(sub, ast.FunctionDef) and self._private(node.name) \
                            and len(sub.decorator_list) == 1 \
                            and _unparse(sub.decorator_list[0]) in ("classmethod",
                                                                     "staticmethod"):
                        plain = copy.copy(sub)
                        plain.decorator_list = []
                        k, b = _helper_kind(plain)
                        if k:
                            is_cm = _unparse(sub.decorator_list[0]) == "classmethod"
                            self.class_helpers[(node.name, sub.name)] = (plain, k, b, is_cm)
        own = {n.name for n in ast.walk(tree) if isinstance(n, ast.FunctionDef)}
        for name, fn in (external or {}).items():
            if name not in own:
                k, b = _helper_kind(copy.deepcopy(fn))
                if k in ("proc", "tail", "multi", "expr"):
                    self.external[name] = (fn, k, b, True)
        self.changed = False

    @staticmethod
    def _private(name):
        return name.startswith("_") and not name.startswith("__")

    def target(self, call):
        f = call.func
        if isinstance(f, ast.Name) and f.id in self.helpers and not self.helpers[f.id][3]:
            return self.helpers[f.id]
        if isinstance(f, ast.Attribute) and isinstance(f.value, ast.Name) \
                and f.value.id == "self" and f.attr in self.helpers and self.helpers[f.attr][3]:
            return self.helpers[f.attr]
        if isinstance(f, ast.Attribute) and isinstance(f.value, ast.Name) \
                and (f.value.id, f.attr) in self.class_helpers:
            h = self.class_helpers[(f.value.id, f.attr)]
            self._receiver = f.value if h[3] else None
            self._receiver_param = "cls"
            return h
        if isinstance(f, ast.Attribute) and isinstance(f.value, ast.Name) \
                and f.value.id != "self" and f.attr in self.external:
            # obj._name(...): a private method of a class defined in another module
            h = self.external[f.attr]
            self._receiver = f.value
            self._receiver_param = "self"
            return h
        return None

    def run(self):
        for _ in range(4):
            self.changed = False
            self.tree.body = self.block(self.tree.body)
            if not self.changed:
                break
            # a helper that had a helper inlined into it has a new body (hoisted temporaries)
            for name, (fn, _k, _b, ism) in list(self.helpers.items()):
                k, b = _helper_kind(fn)
                if k:
                    self.helpers[name] = (fn, k, b, ism)
                else:
                    self._stale = getattr(self, "_stale", set()) | {name}
                    del self.helpers[name]
        # drop helpers that are no longer referenced
        names = {n.id for n in ast.walk(self.tree) if isinstance(n, ast.Name)} | \
                {n.attr for n in ast.walk(self.tree) if isinstance(n, ast.Attribute)}
        # string references (getattr / __all__) keep a helper alive
        strs = {n.value for n in ast.walk(self.tree) if isinstance(n, ast.Constant)
                and isinstance(n.value, str)}

        def keep(node):
            return not (isinstance(node, ast.FunctionDef)
                        and (node.name in self.helpers
                             or node.name in getattr(self, "_stale", ()))
                        and node.name not in names and node.name not in strs)
        self.tree.body = [n for n in self.tree.body if keep(n)]
        for node in self.tree.body:
            if isinstance(node, ast.ClassDef):
                node.body = [n for n in node.body if keep(n)]

    def block(self, block):
        tables = getattr(self, "_tables", None)
        if tables is None:
            tables = self._tables = self.dispatch_tables()
        i, rewritten = 0, []
        while i < len(block):
            r = self.dispatch_call(block, i, tables)
            if r is not None:
                consumed, node = r
                del rewritten[len(rewritten) - (consumed - 1):]
                rewritten.append(node)
                self.changed = True
            else:
                rewritten.append(block[i])
            i += 1
        block = rewritten
        out = []
        for st in block:
            for field in ("body", "orelse", "finalbody"):
                b = getattr(st, field, None)
                if isinstance(b, list) and b and isinstance(b[0], ast.stmt):
                    setattr(st, field, self.block(b))
            if isinstance(st, ast.FunctionDef) and st.name in self.helpers \
                    and self.helpers[st.name][0] is st:
                # a helper was inlined into this helper: its table entry follows its new body
                k, b = _helper_kind(st)
                if k:
                    self.helpers[st.name] = (st, k, b, self.helpers[st.name][3])
                else:
                    self._stale = getattr(self, "_stale", set()) | {st.name}
                    del self.helpers[st.name]
            if isinstance(st, ast.Try):
                for h in st.handlers:
                    h.body = self.block(h.body)
            pre = []
            # procedure helper at statement level
            if isinstance(st, ast.Expr) and isinstance(st.value, ast.Call):
                h = self.target(st.value)
                if h and h[1] == "proc":
                    m = _bind(h[0], st.value, h[3])
                    if m is not None:
                        out.extend(self.splice(h, m, st))
                        self.changed = True
                        continue
            # comprehension over a private generator as the whole value of a statement:
            # written as the loop it abbreviates (then inlined below)
            loop = self.comprehension_to_loop(st)
            if loop is not None:
                out.extend(self.block(loop))
                self.changed = True
                continue
            # loop over a private generator: the generator's body takes the place of the loop,
            # every `yield E` becoming `target = E; <loop body>`
            if isinstance(st, ast.For) and not st.orelse and isinstance(st.iter, ast.Call):
                h = self.target(st.iter)
                if h and h[1] == "gen" and not _jumps_out(st.body):
                    m = _bind(h[0], st.iter, h[3])
                    if m is not None:
                        body = self.splice(h, m, st)
                        out.extend(self.block(_replace_yields(body, st.target, st.body)))
                        self.changed = True
                        continue
            # helper with an arbitrary body and one trailing return, called first in the test of
            # an if statement
            if isinstance(st, ast.If):
                call = _first_call(st.test)
                h = self.target(call) if call is not None else None
                if h and h[1] == "tail":
                    m = _bind(h[0], call, h[3])
                    if m is not None:
                        body = self.splice((h[0], h[1], h[2][:-1], h[3]), m, st, keep=h[2][-1])
                        ret = body.pop()
                        st.test = _replace_node(st.test, call, ret.value)
                        out.extend(body)
                        out.append(st)
                        self.changed = True
                        continue
            # helper with an arbitrary body and one trailing return, called as the whole
            # right-hand side of an assignment, a return value or an expression statement
            call = None
            if isinstance(st, (ast.Assign, ast.Return, ast.Expr, ast.AugAssign)) \
                    and isinstance(st.value, ast.Call):
                call = st.value
            if call is not None:
                h = self.target(call)
                if h and h[1] == "tail":
                    m = _bind(h[0], call, h[3])
                    # T = helper(.., T, ..) where the helper rebinds that parameter and returns
                    # it: the parameter is T itself
                    rv = h[2][-1].value
                    if m is not None and isinstance(rv, ast.Name) and rv.id in m \
                            and isinstance(m[rv.id], ast.Name) and isinstance(st, ast.Assign) \
                            and len(st.targets) == 1 and isinstance(st.targets[0], ast.Name) \
                            and st.targets[0].id == m[rv.id].id \
                            and sum(isinstance(n, ast.Name) and n.id == m[rv.id].id
                                    for a_ in list(m.values()) for n in ast.walk(a_)) == 1:
                        body = self.splice((h[0], h[1], h[2][:-1], h[3]), m, st,
                                           direct=(rv.id,))
                        out.extend(body)
                        self.changed = True
                        continue
                    if m is not None:
                        body = self.splice((h[0], h[1], h[2][:-1], h[3]), m, st, keep=h[2][-1])
                        ret = body.pop()
                        # `T = helper(...)` where the helper returns one of its own locals:
                        # that local is T itself
                        if isinstance(st, ast.Assign) and len(st.targets) == 1 \
                                and isinstance(st.targets[0], ast.Name) \
                                and isinstance(ret.value, ast.Name) and "__h" in ret.value.id:
                            tname, loc = st.targets[0].id, ret.value.id
                            used = {n.id for s_ in body for n in ast.walk(s_)
                                    if isinstance(n, ast.Name)}
                            if tname not in used:
                                for s_ in body:
                                    for n in ast.walk(s_):
                                        if isinstance(n, ast.Name) and n.id == loc:
                                            n.id = tname
                                out.extend(body)
                                self.changed = True
                                continue
                        st.value = ret.value
                        out.extend(body)
                        out.append(st)
                        self.changed = True
                        continue
            # several-returns helper as the whole test of an if statement: the if statement is
            # carried to every return
            if isinstance(st, ast.If) and isinstance(st.test, ast.Call):
                h = self.target(st.test)
                if h and h[1] == "multi":
                    m = _bind(h[0], st.test, h[3])
                    if m is not None:
                        body = self.splice(h, m, st)

                        def make_if(value, st=st):
                            new = ast.If(test=value, body=copy.deepcopy(st.body),
                                         orelse=copy.deepcopy(st.orelse))
                            return ast.copy_location(new, st)
                        out.extend(self.block(_replace_returns(body, make_if)))
                        self.changed = True
                        continue
            if call is not None:
                h = self.target(call)
                if h and h[1] == "multi":
                    m = _bind(h[0], call, h[3])
                    if m is not None:
                        body = self.splice(h, m, st)

                        def make(value, st=st):
                            new = copy.copy(st)
                            new.value = value
                            if isinstance(st, ast.Assign):
                                new.targets = copy.deepcopy(st.targets)
                            elif isinstance(st, ast.AugAssign):
                                new.target = copy.deepcopy(st.target)
                            return new
                        out.extend(_replace_returns(body, make))
                        self.changed = True
                        continue
            # expression helpers inside the statement's own expressions (not nested blocks)
            st = self.inline_exprs(st, pre)
            out.extend(pre)
            out.append(st)
        return out

    def dispatch_tables(self):
        """name -> {True: f, False: g} for module-level dicts of functions keyed by booleans"""
        out = {}
        for st in self.tree.body:
            if isinstance(st, ast.Assign) and len(st.targets) == 1 \
                    and isinstance(st.targets[0], ast.Name):
                d = _bool_dispatch(st.value)
                if d is not None:
                    out[st.targets[0].id] = d
        return out

    def dispatch_call(self, block, i, tables):
        """block[i] calls TABLE[c](...) as its whole value (possibly through a name bound by
        the statement before): the two statements it stands for, under `if c`"""
        st = block[i]
        if not (isinstance(st, (ast.Assign, ast.Return, ast.Expr, ast.AugAssign))
                and isinstance(st.value, ast.Call)):
            return None
        f = st.value.func
        consumed = 1
        sel = None
        if isinstance(f, ast.Subscript):
            sel = f
        elif isinstance(f, ast.Name) and i > 0:
            prev = block[i - 1]
            if isinstance(prev, ast.Assign) and len(prev.targets) == 1 \
                    and isinstance(prev.targets[0], ast.Name) and prev.targets[0].id == f.id \
                    and isinstance(prev.value, ast.Subscript):
                uses = sum(isinstance(n, ast.Name) and n.id == f.id for b in block
                           for n in ast.walk(b))
                if uses == 2:
                    sel, consumed = prev.value, 2
        if sel is None:
            return None
        table = None
        if isinstance(sel.value, ast.Name) and sel.value.id in tables:
            table = tables[sel.value.id]
        else:
            table = _bool_dispatch(sel.value)
        if table is None and isinstance(sel.value, ast.Name):
            # a local dict bound by the statement just before
            j = i - consumed
            if j >= 0 and isinstance(block[j], ast.Assign) and len(block[j].targets) == 1 \
                    and isinstance(block[j].targets[0], ast.Name) \
                    and block[j].targets[0].id == sel.value.id:
                table = _bool_dispatch(block[j].value)
                uses = sum(isinstance(n, ast.Name) and n.id == sel.value.id for b in block
                           for n in ast.walk(b))
                if table is not None and uses == 2:
                    consumed += 1
                else:
                    table = None
        if table is None:
            return None

        def branch(fname):
            new = copy.deepcopy(st)
            new.value.func = ast.Name(id=fname, ctx=ast.Load())
            return new
        node = ast.If(test=sel.slice, body=[branch(table[True])], orelse=[branch(table[False])])
        ast.copy_location(node, st)
        ast.fix_missing_locations(node)
        return consumed, node

    def comprehension_to_loop(self, st):
        if not isinstance(st, (ast.Assign, ast.Return)) or not isinstance(
                st.value, (ast.ListComp, ast.DictComp)):
            return None
        comp = st.value
        if len(comp.generators) != 1 or comp.generators[0].is_async:
            return None
        g = comp.generators[0]
        h = self.target(g.iter) if isinstance(g.iter, ast.Call) else None
        lazy = bool(h) and h[1] == "gen"
        # ... or an element computed by a helper that needs statements of its own
        parts = [comp.elt] if isinstance(comp, ast.ListComp) else [comp.key, comp.value]
        heavy = False
        for c in [n for p_ in parts for n in ast.walk(p_) if isinstance(n, ast.Call)]:
            t = self.target(c)
            if t and (t[1] in ("tail", "multi") or (t[1] == "expr" and len(t[2]) > 1)):
                heavy = True
        if not lazy and not heavy:
            return None
        if isinstance(st, ast.Assign):
            if len(st.targets) != 1 or not isinstance(st.targets[0], ast.Name):
                return None
            acc = st.targets[0].id
            if any(isinstance(n, ast.Name) and n.id == acc for n in ast.walk(comp)):
                return None
        else:
            acc = f"acc__h{next(_counter)}"
        load = ast.Name(id=acc, ctx=ast.Load())
        if isinstance(comp, ast.ListComp):
            init = ast.List(elts=[], ctx=ast.Load())
            add = ast.AugAssign(target=ast.Name(id=acc, ctx=ast.Store()), op=ast.Add(),
                                value=ast.List(elts=[comp.elt], ctx=ast.Load()))
        else:
            init = ast.Dict(keys=[], values=[])
            add = ast.Assign(targets=[ast.Subscript(value=load, slice=comp.key,
                                                    ctx=ast.Store())], value=comp.value)
        body = [add]
        for c in reversed(g.ifs):
            body = [ast.If(test=c, body=body, orelse=[])]
        tgt = copy.deepcopy(g.target)
        for n in ast.walk(tgt):
            if isinstance(n, (ast.Name, ast.Tuple, ast.List, ast.Starred)):
                n.ctx = ast.Store()
        out = [ast.Assign(targets=[ast.Name(id=acc, ctx=ast.Store())], value=init),
               ast.For(target=tgt, iter=g.iter, body=body, orelse=[])]
        if isinstance(st, ast.Return):
            out.append(ast.Return(value=ast.Name(id=acc, ctx=ast.Load())))
        for n in out:
            ast.copy_location(n, st)
            ast.fix_missing_locations(n)
        return out

    def fresh(self, body, params):
        k = next(_counter)
        return {n: ast.Name(id=f"{n}__h{k}", ctx=ast.Load()) for n in _locals_of(body, params)}

    def splice(self, h, m, at, keep=None, direct=()):
        fn, _kind, body, _ism = h
        if keep is not None:
            body = list(body) + [keep]
        pre = []
        mapping = {}
        reads = {}
        for s_ in body:
            for n in ast.walk(s_):
                if isinstance(n, ast.Name) and isinstance(n.ctx, ast.Load):
                    reads[n.id] = reads.get(n.id, 0) + 1
        for p, a in m.items():
            if _simple_arg(a) or (isinstance(a, (ast.List, ast.Tuple)) and reads.get(p, 0) <= 1
                                  and all(_simple_arg(e) for e in a.elts)):
                mapping[p] = a
            else:
                nm = f"{p}__h{next(_counter)}"
                pre.append(ast.copy_location(ast.Assign(
                    targets=[ast.Name(id=nm, ctx=ast.Store())], value=a), at))
                mapping[p] = ast.Name(id=nm, ctx=ast.Load())
        stores = {n.id for s in body for n in ast.walk(s)
                  if isinstance(n, ast.Name) and isinstance(n.ctx, ast.Store)}
        for p in list(mapping):
            if p in stores and p not in direct:
                # parameter rebound inside the helper: bind it to a temporary
                nm = f"{p}__h{next(_counter)}"
                pre.append(ast.copy_location(ast.Assign(
                    targets=[ast.Name(id=nm, ctx=ast.Store())], value=mapping[p]), at))
                mapping[p] = ast.Name(id=nm, ctx=ast.Load())
        mapping.update(self.fresh(body, list(m)))
        if getattr(self, "_receiver", None) is not None and (
                (fn.name in self.external and self.external[fn.name][0] is fn)
                or any(v[0] is fn for v in self.class_helpers.values())):
            mapping[getattr(self, "_receiver_param", "self")] = copy.deepcopy(self._receiver)
        new = [_Subst(mapping).visit(copy.deepcopy(s)) for s in body]
        for s in pre + new:
            ast.fix_missing_locations(s)
        return pre + new

    def inline_exprs(self, st, pre):
        inl = self

        class T(ast.NodeTransformer):
            def __init__(self):
                self.depth = 0

            def generic_visit(self, node):
                # do not descend into nested statement blocks: they are handled by block()
                for field, old in ast.iter_fields(node):
                    if field in ("body", "orelse", "finalbody", "handlers") \
                            and isinstance(node, ast.stmt) and isinstance(old, list):
                        continue
                    if isinstance(old, list):
                        new = []
                        for v in old:
                            if isinstance(v, ast.AST):
                                v = self.visit(v)
                            new.append(v)
                        old[:] = new
                    elif isinstance(old, ast.AST):
                        setattr(node, field, self.visit(old))
                return node

            def visit_ListComp(self, node):
                self.depth += 1
                r = self.generic_visit(node)
                self.depth -= 1
                return r
            visit_GeneratorExp = visit_SetComp = visit_DictComp = visit_Lambda = visit_ListComp

            def visit_Call(self, node):
                self.generic_visit(node)
                h = inl.target(node)
                if not h or h[1] != "expr":
                    return node
                m = _bind(h[0], node, h[3])
                if m is None:
                    return node
                fn, _k, body, _ism = h
                if len(body) > 1 and self.depth:
                    return node         # temporaries cannot be hoisted out of a comprehension
                mapping = dict(m)
                if getattr(inl, "_receiver", None) is not None and (
                        (fn.name in inl.external and inl.external[fn.name][0] is fn)
                        or any(v[0] is fn for v in inl.class_helpers.values())):
                    mapping[getattr(inl, "_receiver_param", "self")] = copy.deepcopy(
                        inl._receiver)
                stores = {n.id for s in body for n in ast.walk(s)
                          if isinstance(n, ast.Name) and isinstance(n.ctx, ast.Store)}
                if stores & set(m):
                    return node
                # an argument that is an expression and is read more than once is evaluated
                # once, into a temporary (the helper's parameter), not copied to every use
                reads = {}
                for s_ in body:
                    for n in ast.walk(s_):
                        if isinstance(n, ast.Name) and isinstance(n.ctx, ast.Load):
                            reads[n.id] = reads.get(n.id, 0) + 1
                hoist = [p_ for p_, a_ in m.items() if reads.get(p_, 0) > 1
                         and not _simple_arg(a_) and not isinstance(a_, ast.Constant)]
                if hoist and self.depth:
                    return node
                for p_ in hoist:
                    tmp = f"{p_}__h{next(_counter)}"
                    a_st = ast.Assign(targets=[ast.Name(id=tmp, ctx=ast.Store())],
                                      value=mapping[p_])
                    ast.copy_location(a_st, node)
                    ast.fix_missing_locations(a_st)
                    pre.append(a_st)
                    mapping[p_] = ast.Name(id=tmp, ctx=ast.Load())
                mapping.update(inl.fresh(body, list(m)))
                new = [_Subst(mapping).visit(copy.deepcopy(s)) for s in body]
                for s in new[:-1]:
                    pre.append(s)
                inl.changed = True
                return new[-1].value
        return T().visit(st)


# ---------------------------------------------------------------------------------------------
# P: propagation of aliases and single-use temporaries
# ---------------------------------------------------------------------------------------------
def _alias_expr(e):
    """Name / attribute / subscript chain with plain indices: evaluating it again gives the
    same object as long as none of its names is rebound"""
    if isinstance(e, ast.Name):
        return True
    if isinstance(e, ast.Attribute):
        return _alias_expr(e.value)
    if isinstance(e, ast.Subscript):
        idx = e.slice
        parts = idx.elts if isinstance(idx, ast.Tuple) else [idx]
        return _alias_expr(e.value) and all(
            isinstance(p, (ast.Name, ast.Constant)) or
            (isinstance(p, ast.UnaryOp) and isinstance(p.operand, ast.Constant)) for p in parts)
    return False


_SINGLETONS = (ast.expr_context, ast.operator, ast.cmpop, ast.boolop, ast.unaryop)


def _link(fn):
    for node in ast.walk(fn):
        for ch in ast.iter_child_nodes(node):
            if not isinstance(ch, _SINGLETONS):     # shared between all trees
                ch._cparent = node


def _stmt_of(node, fn):
    while node is not None and not isinstance(node, ast.stmt):
        node = getattr(node, "_cparent", None)
    return node


def _block_and_index(st):
    par = getattr(st, "_cparent", None)
    if par is None:
        return None, None
    for field in ("body", "orelse", "finalbody"):
        b = getattr(par, field, None)
        if isinstance(b, list) and st in b:
            return b, b.index(st)
    if isinstance(par, ast.ExceptHandler) and st in par.body:
        return par.body, par.body.index(st)
    return None, None


def _ancestors(node):
    out = []
    node = getattr(node, "_cparent", None)
    while node is not None:
        out.append(node)
        node = getattr(node, "_cparent", None)
    return out


def propagate(fn):
    """one function: returns True if something was rewritten"""
    _link(fn)
    own = [n for n in ast.walk(fn)]
    nested = set()
    for n in own:
        if isinstance(n, (ast.FunctionDef, ast.Lambda, ast.ClassDef)) and n is not fn:
            nested |= set(ast.walk(n)) - {n}
    params = {a.arg for a in fn.args.args + fn.args.kwonlyargs}
    if fn.args.vararg:
        params.add(fn.args.vararg.arg)
    if fn.args.kwarg:
        params.add(fn.args.kwarg.arg)
    stores, loads = {}, {}
    special = set()
    for n in own:
        if isinstance(n, ast.Name):
            (stores if isinstance(n.ctx, (ast.Store, ast.Del)) else loads).setdefault(
                n.id, []).append(n)
            if n in nested:
                special.add(n.id)
        elif isinstance(n, (ast.Global, ast.Nonlocal)):
            special |= set(n.names)
        elif isinstance(n, ast.ExceptHandler) and n.name:
            special.add(n.name)
        elif isinstance(n, (ast.Import, ast.ImportFrom)):
            special |= {(a.asname or a.name).split(".")[0] for a in n.names}
    # stores through subscripts / attributes, by root name
    through = {}
    for n in own:
        tg = []
        if isinstance(n, ast.Assign):
            tg = n.targets
        elif isinstance(n, (ast.AugAssign, ast.AnnAssign)):
            tg = [n.target]
        elif isinstance(n, ast.Delete):
            tg = n.targets
        for t in tg:
            root = t
            while isinstance(root, (ast.Subscript, ast.Attribute)):
                root = root.value
            if isinstance(root, ast.Name) and root is not t:
                through.setdefault(root.id, []).append((n.lineno, _unparse(t)))
    for name, sts in stores.items():
        if len(sts) != 1 or name in params or name in special:
            continue
        st = _stmt_of(sts[0], fn)
        if not (isinstance(st, ast.Assign) and len(st.targets) == 1 and st.targets[0] is sts[0]):
            continue
        uses = loads.get(name, [])
        if not uses:
            continue
        rhs = st.value
        if any(isinstance(x, (ast.Yield, ast.YieldFrom, ast.Await, ast.NamedExpr, ast.Lambda,
                              ast.Starred)) for x in ast.walk(rhs)):
            continue
        alias = _alias_expr(rhs)
        if not alias and len(uses) != 1:
            continue
        blk, i = _block_and_index(st)
        if blk is None:
            continue
        holder = getattr(st, "_cparent", None)
        last = max(u.lineno for u in uses)
        if any(u.lineno <= st.lineno for u in uses):
            continue
        if not all(holder in _ancestors(u) for u in uses):
            continue
        # the definition and its uses are evaluated equally often: no loop (or comprehension,
        # for temporaries with calls) around a use that is not also around the definition
        def_loops = [a for a in _ancestors(st) if isinstance(a, (ast.For, ast.While))]
        okloops = True
        for u in uses:
            for a in _ancestors(u):
                if a is holder:
                    break
                if isinstance(a, (ast.For, ast.While)) and a not in def_loops and not alias:
                    # (the iterable of a for statement is evaluated once, like the definition)
                    if not (isinstance(a, ast.For) and any(u is x for x in ast.walk(a.iter))):
                        okloops = False
                if isinstance(a, (ast.ListComp, ast.GeneratorExp, ast.SetComp, ast.DictComp)) \
                        and not alias:
                    okloops = False
        if not okloops:
            continue
        rnames = {x.id for x in ast.walk(rhs) if isinstance(x, ast.Name)}
        clash = False
        for rn in rnames:
            for w in stores.get(rn, []):
                wl = _stmt_of(w, fn).lineno if _stmt_of(w, fn) is not None else w.lineno
                if st.lineno < wl <= last:
                    clash = True
            if alias:
                atxt = _unparse(rhs)
                for ln, ttxt in through.get(rn, []):
                    # only a rebinding of (a prefix of) the aliased path changes what it names
                    if st.lineno < ln <= last and (atxt == ttxt or atxt.startswith(ttxt + ".")
                                                   or atxt.startswith(ttxt + "[")):
                        clash = True
            # a loop around the uses that rebinds a name of the right-hand side
            for u in uses:
                for a in _ancestors(u):
                    if a is holder:
                        break
                    if isinstance(a, ast.For) and rn in {x.id for x in ast.walk(a.target)
                                                          if isinstance(x, ast.Name)}:
                        clash = True
        if clash:
            continue
        # temporaries with calls: nothing with an effect may sit between definition and use
        if not alias:
            u = uses[0]
            ust = _stmt_of(u, fn)
            ublk, ui = _block_and_index(ust)
            if ublk is not blk or ui != i + 1:
                continue
        for x in ast.walk(rhs):
            x.__dict__.pop("_cparent", None)     # deepcopy must not drag the parents along
        for u in uses:
            par = getattr(u, "_cparent", None)
            new = copy.deepcopy(rhs)
            for field, old in ast.iter_fields(par):
                if old is u:
                    setattr(par, field, new)
                elif isinstance(old, list):
                    for k, v in enumerate(old):
                        if v is u:
                            old[k] = new
        if len(blk) == 1:
            blk[0] = ast.copy_location(ast.Pass(), st)
        else:
            del blk[i]
        return True
    return False


def _unappend_aliases(fn):
    """x = D[k] ... x += [e]: the name only ever holds the aliased object, so the append is
    written on it (x.append(e)) and the alias can be propagated"""
    defs, augs, other = {}, {}, set()
    for n in ast.walk(fn):
        if isinstance(n, ast.Assign) and len(n.targets) == 1 \
                and isinstance(n.targets[0], ast.Name):
            defs.setdefault(n.targets[0].id, []).append(n)
        elif isinstance(n, ast.AugAssign) and isinstance(n.target, ast.Name):
            if isinstance(n.op, ast.Add) and isinstance(n.value, ast.List) \
                    and len(n.value.elts) == 1 \
                    and not isinstance(n.value.elts[0], ast.Starred):
                augs.setdefault(n.target.id, []).append(n)
            else:
                other.add(n.target.id)
    for n in ast.walk(fn):
        if isinstance(n, ast.Name) and isinstance(n.ctx, (ast.Store, ast.Del)):
            par_ok = any(n is d.targets[0] for d in defs.get(n.id, [])) or any(
                n is a.target for a in augs.get(n.id, []))
            if not par_ok:
                other.add(n.id)
    changed = False
    for name, al in augs.items():
        if name in other or not defs.get(name):
            continue
        # every binding of the name is an alias of a stored object
        if not all(isinstance(d.value, ast.Subscript) and _alias_expr(d.value)
                   for d in defs[name]):
            continue
        for a in al:
            call = ast.Expr(value=ast.Call(
                func=ast.Attribute(value=ast.Name(id=name, ctx=ast.Load()), attr="append",
                                   ctx=ast.Load()),
                args=[a.value.elts[0]], keywords=[]))
            ast.copy_location(call, a)
            ast.fix_missing_locations(call)
            # replace in the parent block
            def swap(block):
                for k, st in enumerate(block):
                    if st is a:
                        block[k] = call
                        return True
                    for field in ("body", "orelse", "finalbody"):
                        b = getattr(st, field, None)
                        if isinstance(b, list) and b and isinstance(b[0], ast.stmt) and swap(b):
                            return True
                    for h in getattr(st, "handlers", []) or []:
                        if swap(h.body):
                            return True
                return False
            if swap(fn.body):
                changed = True
    return changed


def _prefer_user_names(fn):
    """T = G where G is a local generated by the inliner (bound once) and T is bound only here:
    G *is* T -- the generated name is renamed and the copy dropped"""
    stores = {}
    for n in ast.walk(fn):
        if isinstance(n, ast.Name) and isinstance(n.ctx, (ast.Store, ast.Del)):
            stores[n.id] = stores.get(n.id, 0) + 1
    params = {a.arg for a in fn.args.args + fn.args.kwonlyargs}
    changed = False
    for st in [n for n in ast.walk(fn) if isinstance(n, ast.Assign)]:
        if len(st.targets) == 1 and isinstance(st.targets[0], ast.Name) \
                and isinstance(st.value, ast.Name):
            T, G = st.targets[0].id, st.value.id
            if _generated(G) and not _generated(T) and stores.get(G) == 1 \
                    and stores.get(T) == 1 \
                    and T not in params and G not in params:
                for n in ast.walk(fn):
                    if isinstance(n, ast.Name) and n.id == G:
                        n.id = T
                stores[T] = 2           # (now bound twice: by the definition and the copy)
                changed = True
    if changed:
        def drop(block):
            out = []
            for st in block:
                if isinstance(st, ast.Assign) and len(st.targets) == 1 \
                        and isinstance(st.targets[0], ast.Name) \
                        and isinstance(st.value, ast.Name) \
                        and st.value.id == st.targets[0].id:
                    continue
                for field in ("body", "orelse", "finalbody"):
                    b = getattr(st, field, None)
                    if isinstance(b, list) and b and isinstance(b[0], ast.stmt):
                        nb = drop(b)
                        setattr(st, field, nb or [ast.copy_location(ast.Pass(), st)])
                for h in getattr(st, "handlers", []) or []:
                    h.body = drop(h.body) or [ast.copy_location(ast.Pass(), h)]
                out.append(st)
            return out
        fn.body = drop(fn.body)
    return changed


def propagate_all(tree):
    for fn in [n for n in ast.walk(tree) if isinstance(n, ast.FunctionDef)]:
        if _prefer_user_names(fn):
            renumber(tree)
        if _unappend_aliases(fn):
            renumber(tree)
        for _ in range(60):
            if not propagate(fn):
                break


# ---------------------------------------------------------------------------------------------
# driver
# ---------------------------------------------------------------------------------------------
# ---------------------------------------------------------------------------------------------
# S: simplifications that inlining makes possible -- constant tests, loops over a one-element
# display, tests already decided by an enclosing branch (type tests of a name only)
# ---------------------------------------------------------------------------------------------
def _type_fact(test):
    """isinstance(<name>, T) / <name> is None  ->  (text of the positive fact, polarity, name)"""
    pol = True
    while isinstance(test, ast.UnaryOp) and isinstance(test.op, ast.Not):
        test, pol = test.operand, not pol
    if isinstance(test, ast.Call) and isinstance(test.func, ast.Name) \
            and test.func.id == "isinstance" and len(test.args) == 2 \
            and isinstance(test.args[0], ast.Name) and not test.keywords:
        return _unparse(test), pol, test.args[0].id
    if isinstance(test, ast.Compare) and len(test.ops) == 1 and isinstance(test.left, ast.Name) \
            and isinstance(test.comparators[0], ast.Constant) \
            and test.comparators[0].value is None \
            and isinstance(test.ops[0], (ast.Is, ast.IsNot)):
        pos = ast.Compare(left=test.left, ops=[ast.Is()], comparators=test.comparators)
        return _unparse(pos), pol == isinstance(test.ops[0], ast.Is), test.left.id
    return None


def _stored_names(st):
    out = set()
    for n in ast.walk(st):
        if isinstance(n, ast.Name) and isinstance(n.ctx, (ast.Store, ast.Del)):
            out.add(n.id)
        elif isinstance(n, (ast.FunctionDef, ast.ClassDef)):
            out.add(n.name)
        elif isinstance(n, (ast.Global, ast.Nonlocal)):
            out.update(n.names)
    return out


def _simple_table_elt(e):
    if isinstance(e, (ast.Constant, ast.Name)):
        return True
    if isinstance(e, ast.Attribute):
        return _simple_table_elt(e.value)
    return isinstance(e, (ast.Tuple, ast.List)) and all(_simple_table_elt(x) for x in e.elts)


def _unrollable(st):
    """a loop over a display of 2..16 rows of constants / names, whose variables are not rebound
    in the body, and whose body either has no break / continue or is one `if c: ...; break`"""
    it = st.iter
    if not getattr(st, "_unroll_ok", False):
        return False
    if not isinstance(it, (ast.Tuple, ast.List)) or not 2 <= len(it.elts) <= 16:
        return False
    if not all(_simple_table_elt(e) for e in it.elts):
        return False
    tnames = [n.id for n in ast.walk(st.target) if isinstance(n, ast.Name)]
    if not all(isinstance(n, (ast.Name, ast.Tuple, ast.List)) for n in ast.walk(st.target)
               if not isinstance(n, ast.expr_context)):
        return False
    if isinstance(st.target, (ast.Tuple, ast.List)):
        if not all(isinstance(e, (ast.Tuple, ast.List)) and len(e.elts) == len(st.target.elts)
                   for e in it.elts):
            return False
        if not all(isinstance(t, ast.Name) for t in st.target.elts):
            return False
    stored = set()
    for b in st.body:
        stored |= _stored_names(b)
    if stored & set(tnames):
        return False
    # the loop variables must not be used after the loop (they are substituted away)
    if not _jumps_out(st.body):
        return True
    if len(st.body) == 1 and isinstance(st.body[0], ast.If) and not st.body[0].orelse \
            and isinstance(st.body[0].body[-1], ast.Break) \
            and not _jumps_out(st.body[0].body[:-1]):
        return True
    return False


def _mark_unrollable(tree):
    """loops whose variables are not read outside the loop (they are substituted away)"""
    for fn in [n for n in ast.walk(tree) if isinstance(n, ast.FunctionDef)]:
        loads = {}
        for n in ast.walk(fn):
            if isinstance(n, ast.Name) and isinstance(n.ctx, ast.Load):
                loads[n.id] = loads.get(n.id, 0) + 1
        for lp in [n for n in ast.walk(fn) if isinstance(n, ast.For)]:
            tn = {n.id for n in ast.walk(lp.target) if isinstance(n, ast.Name)}
            inside = {}
            for n in ast.walk(lp):
                if isinstance(n, ast.Name) and isinstance(n.ctx, ast.Load) and n.id in tn:
                    inside[n.id] = inside.get(n.id, 0) + 1
            lp._unroll_ok = all(inside.get(t, 0) == loads.get(t, 0) for t in tn)


def _unroll(st):
    rows = []
    for e in st.iter.elts:
        if isinstance(st.target, ast.Name):
            mapping = {st.target.id: e}
        else:
            mapping = {t.id: v for t, v in zip(st.target.elts, e.elts)}
        rows.append([_Subst(mapping).visit(copy.deepcopy(b)) for b in st.body])
    if not _jumps_out(st.body):
        return [b for r in rows for b in r]
    chain = None
    for r in reversed(rows):
        node = r[0]
        node.body = node.body[:-1] or [ast.copy_location(ast.Pass(), node)]
        node.orelse = [chain] if chain is not None else []
        chain = node
    return [chain]


def simplify_block(block, facts=None):
    facts = dict(facts or {})
    out = []
    for st in block:
        if isinstance(st, (ast.FunctionDef, ast.AsyncFunctionDef, ast.ClassDef)):
            st.body = simplify_block(st.body, {})
            out.append(st)
            facts = {k: v for k, v in facts.items() if v[1] not in _stored_names(st)}
            continue
        if isinstance(st, ast.If):
            known = None
            if isinstance(st.test, ast.Constant) and isinstance(st.test.value, bool):
                known = st.test.value
            if isinstance(st.test, ast.Compare) and len(st.test.ops) == 1 \
                    and isinstance(st.test.ops[0], (ast.Is, ast.IsNot)) \
                    and isinstance(st.test.left, ast.Name) \
                    and isinstance(st.test.comparators[0], ast.Name) \
                    and st.test.left.id == st.test.comparators[0].id:
                known = isinstance(st.test.ops[0], ast.Is)      # X is X
            tf = _type_fact(st.test)
            if known is None and tf is not None and tf[0] in facts:
                known = facts[tf[0]][0] == tf[1]
            if known is not None:
                chosen = simplify_block(st.body if known else st.orelse, facts)
                out.extend(chosen)
                for c in chosen:
                    facts = {k: v for k, v in facts.items() if v[1] not in _stored_names(c)}
                continue
            fb, fe = dict(facts), dict(facts)
            if tf is not None:
                fb[tf[0]] = (tf[1], tf[2])
                fe[tf[0]] = (not tf[1], tf[2])
            st.body = simplify_block(st.body, fb)
            st.orelse = simplify_block(st.orelse, fe)
            if not st.body and not st.orelse:
                # both sides vanished: the test itself has no effect (type tests, constants)
                if tf is not None or isinstance(st.test, ast.Constant):
                    continue
                st.body = [ast.copy_location(ast.Pass(), st)]
            elif not st.body:
                st.test, st.body, st.orelse = negate(st.test), st.orelse, []
        elif isinstance(st, ast.For) and not st.orelse and _unrollable(st):
            new = simplify_block(_unroll(st), facts)
            out.extend(new)
            for c in new:
                facts = {k: v for k, v in facts.items() if v[1] not in _stored_names(c)}
            continue
        elif isinstance(st, ast.For) and not st.orelse and isinstance(st.iter, (ast.List,
                                                                               ast.Tuple)) \
                and len(st.iter.elts) == 1 and not isinstance(st.iter.elts[0], ast.Starred) \
                and not _jumps_out(st.body):
            asg = ast.Assign(targets=[st.target], value=st.iter.elts[0])
            ast.copy_location(asg, st)
            ast.fix_missing_locations(asg)
            new = simplify_block([asg] + st.body, facts)
            out.extend(new)
            for c in new:
                facts = {k: v for k, v in facts.items() if v[1] not in _stored_names(c)}
            continue
        elif isinstance(st, (ast.For, ast.While)):
            killed = _stored_names(st)
            inner = {k: v for k, v in facts.items() if v[1] not in killed}
            st.body = simplify_block(st.body, inner)
            st.orelse = simplify_block(st.orelse, inner)
        elif isinstance(st, ast.With):
            st.body = simplify_block(st.body, facts)
        elif isinstance(st, ast.Try):
            killed = _stored_names(st)
            inner = {k: v for k, v in facts.items() if v[1] not in killed}
            st.body = simplify_block(st.body, inner)
            for h in st.handlers:
                h.body = simplify_block(h.body, inner)
            st.orelse = simplify_block(st.orelse, inner)
            st.finalbody = simplify_block(st.finalbody, inner)
        out.append(st)
        stored = _stored_names(st)
        if stored:
            facts = {k: v for k, v in facts.items() if v[1] not in stored}
    return out


# ---------------------------------------------------------------------------------------------
# B: constants and plain aliases are propagated forward inside each block (the definitions
# stay, so nothing depends on liveness); values merge after branches when they agree
# ---------------------------------------------------------------------------------------------
def _generated(name):
    """names introduced by the rewriter (inlined locals x__h3, record fields rec__field, ...)"""
    return "__" in name.strip("_")


def _prop_value(e):
    if isinstance(e, ast.Constant) and (e.value is None or isinstance(
            e.value, (str, int, float, bool))) and not isinstance(e.value, bytes):
        return True
    return isinstance(e, ast.Name)


class _EnvSubst(ast.NodeTransformer):
    def __init__(self, env):
        self.env = env
        self.shadow = []

    def visit_Name(self, n):
        if isinstance(n.ctx, ast.Load) and n.id in self.env \
                and not any(n.id in s_ for s_ in self.shadow):
            return ast.copy_location(copy.deepcopy(self.env[n.id]), n)
        return n

    def visit_Lambda(self, n):
        return n

    def _comp(self, n):
        names = {x.id for g in n.generators for x in ast.walk(g.target)
                 if isinstance(x, ast.Name)}
        # the first iterable is evaluated outside the comprehension's scope
        n.generators[0].iter = self.visit(n.generators[0].iter)
        self.shadow.append(names)
        for i, g in enumerate(n.generators):
            if i:
                g.iter = self.visit(g.iter)
            g.ifs = [self.visit(c) for c in g.ifs]
        if isinstance(n, ast.DictComp):
            n.key, n.value = self.visit(n.key), self.visit(n.value)
        else:
            n.elt = self.visit(n.elt)
        self.shadow.pop()
        return n
    visit_ListComp = visit_SetComp = visit_GeneratorExp = visit_DictComp = _comp

    def visit_FormattedValue(self, n):
        return self.generic_visit(n)


def _subst_own(st, env):
    """substitute in the expressions of the statement itself (not in its nested blocks)"""
    if not env:
        return
    sub = _EnvSubst(env)
    for field, old in ast.iter_fields(st):
        if field in ("body", "orelse", "finalbody", "handlers", "cases"):
            continue
        if isinstance(old, list):
            old[:] = [sub.visit(v) if isinstance(v, ast.AST) else v for v in old]
        elif isinstance(old, ast.AST):
            setattr(st, field, sub.visit(old))


def _kill(env, names):
    if not names:
        return env
    return {k: v for k, v in env.items()
            if k not in names and not (isinstance(v, ast.Name) and v.id in names)}


def _same_value(a, b):
    return ast.dump(a) == ast.dump(b)


def block_propagate(block, env=None):
    """returns the environment after the block, or None when every path leaves it by a jump"""
    env = dict(env or {})
    for st in block:
        if isinstance(st, (ast.FunctionDef, ast.AsyncFunctionDef, ast.ClassDef)):
            block_propagate(st.body, {})
            env = _kill(env, _stored_names(st))
            continue
        if isinstance(st, ast.If):
            _subst_own(st, env)
            e1 = block_propagate(st.body, env)
            e2 = block_propagate(st.orelse, env)
            if e1 is None and e2 is None:
                return None
            if e1 is None:
                env = e2
            elif e2 is None:
                env = e1
            else:
                env = {k: v for k, v in e1.items() if k in e2 and _same_value(v, e2[k])}
            continue
        if isinstance(st, (ast.For, ast.While, ast.Try, ast.With, ast.AsyncFor, ast.AsyncWith,
                           ast.Match)):
            env = _kill(env, _stored_names(st))
            _subst_own(st, env)
            for field in ("body", "orelse", "finalbody"):
                b = getattr(st, field, None)
                if isinstance(b, list) and b and isinstance(b[0], ast.stmt):
                    block_propagate(b, env)
            for h in getattr(st, "handlers", []) or []:
                block_propagate(h.body, env)
            for c in getattr(st, "cases", []) or []:
                block_propagate(c.body, _kill(env, _stored_names(c)))
            continue
        _subst_own(st, env)
        if isinstance(st, (ast.Return, ast.Raise, ast.Continue, ast.Break)):
            return None
        stored = _stored_names(st)
        env = _kill(env, stored)
        if isinstance(st, ast.Assign) and len(st.targets) == 1 \
                and isinstance(st.targets[0], ast.Name) and _prop_value(st.value) \
                and not (isinstance(st.value, ast.Name) and st.value.id == st.targets[0].id) \
                and not (isinstance(st.value, ast.Name) and _generated(st.value.id)
                         and not _generated(st.targets[0].id)):
            # (a name written by the author is not replaced by one the inliner generated)
            env[st.targets[0].id] = st.value
        if isinstance(st, (ast.Global, ast.Nonlocal)):
            env = _kill(env, set(st.names))
    return env


def renumber(tree):
    """Line numbers of the canonical tree follow its own statement order (inlined statements
    would otherwise carry the lines of their helper): statement k of the depth-first order is on
    line k, its expressions with it.  The line in the file is kept as `_src_line` for reports."""
    counter = [0]

    def expr_nodes(node, line, src):
        for ch in ast.iter_child_nodes(node):
            if isinstance(ch, (ast.stmt, ast.excepthandler, ast.match_case)):
                continue
            if hasattr(ch, "lineno") or isinstance(ch, (ast.expr, ast.arg, ast.keyword,
                                                        ast.alias, ast.withitem)):
                if "_src_line" not in ch.__dict__:
                    ch.__dict__["_src_line"] = src
                if "lineno" in ch._attributes:
                    ch.lineno = ch.end_lineno = line
                    ch.col_offset = ch.end_col_offset = 0
            expr_nodes(ch, line, ch.__dict__.get("_src_line", src))

    def block(stmts, src):
        for st in stmts:
            counter[0] += 1
            line = counter[0]
            if "_src_line" not in st.__dict__:
                st.__dict__["_src_line"] = src
            mine = st.__dict__["_src_line"]
            st.lineno = line
            st.col_offset = st.end_col_offset = 0
            expr_nodes(st, line, mine)
            for field in ("body", "orelse", "finalbody"):
                b = getattr(st, field, None)
                if isinstance(b, list) and b and isinstance(b[0], ast.stmt):
                    block(b, mine)
            for h in getattr(st, "handlers", []) or []:
                counter[0] += 1
                if "_src_line" not in h.__dict__:
                    h.__dict__["_src_line"] = mine
                h.lineno = counter[0]
                h.col_offset = h.end_col_offset = 0
                expr_nodes(h, counter[0], h.__dict__["_src_line"])
                block(h.body, h.__dict__["_src_line"])
                h.end_lineno = counter[0]
            for c in getattr(st, "cases", []) or []:
                block(c.body, mine)
            st.end_lineno = counter[0]
    block(tree.body, 0)


# ---------------------------------------------------------------------------------------------
# M: module-level constants (a name bound once, at module level, to a string / number, or to a
# concatenation / product of such) are written out where they are used
# ---------------------------------------------------------------------------------------------
def _const_fold(e, env):
    if isinstance(e, ast.Constant) and isinstance(e.value, (str, int, float)) \
            and not isinstance(e.value, bool):
        return e.value
    if isinstance(e, ast.Name) and e.id in env:
        return env[e.id]
    if isinstance(e, ast.BinOp) and isinstance(e.op, ast.Add):
        a, b = _const_fold(e.left, env), _const_fold(e.right, env)
        if isinstance(a, str) and isinstance(b, str):
            return a + b
    if isinstance(e, ast.JoinedStr) and all(isinstance(v, ast.Constant) for v in e.values):
        return "".join(v.value for v in e.values)
    return None


_PURE_NAMES = {"tuple", "list", "range", "sorted", "reversed", "zip", "enumerate", "len"}
_PURE_ITERTOOLS = {"combinations", "combinations_with_replacement", "permutations", "product"}


def _pure_table(e):
    """the display a call tree of tuple/list/range/sorted/zip/enumerate/itertools.* over integer
    and string constants evaluates to (nested tuples/lists of constants, at most 64 rows);
    None when the expression is anything else"""
    import itertools
    for n in ast.walk(e):
        if isinstance(n, ast.Name):
            if n.id not in _PURE_NAMES and n.id != "itertools":
                return None
        elif isinstance(n, ast.Attribute):
            if not (isinstance(n.value, ast.Name) and n.value.id == "itertools"
                    and n.attr in _PURE_ITERTOOLS):
                return None
        elif isinstance(n, ast.Constant):
            if not isinstance(n.value, (int, str)) or isinstance(n.value, bool):
                return None
        elif isinstance(n, ast.keyword):
            if n.arg != "repeat":
                return None
        elif not isinstance(n, (ast.Call, ast.Tuple, ast.List, ast.Load, ast.UnaryOp,
                                ast.USub)):
            return None
    try:
        v = eval(compile(ast.Expression(body=copy.deepcopy(e)), "<table>", "eval"),
                 {"__builtins__": {k: getattr(__import__("builtins"), k) for k in _PURE_NAMES},
                  "itertools": itertools})
    except Exception:
        return None

    def ok(x, d=0):
        if isinstance(x, (tuple, list)):
            return d < 3 and len(x) <= 64 and all(ok(y, d + 1) for y in x)
        return isinstance(x, (int, str)) and not isinstance(x, bool)
    if not isinstance(v, (tuple, list)) or not v or not ok(v):
        return None
    return ast.parse(repr(v), mode="eval").body


def module_constants(tree):
    stores = {}
    for n in ast.walk(tree):
        if isinstance(n, ast.Name) and isinstance(n.ctx, (ast.Store, ast.Del)):
            stores[n.id] = stores.get(n.id, 0) + 1
        elif isinstance(n, (ast.Global, ast.Nonlocal)):
            for g in n.names:
                stores[g] = stores.get(g, 0) + 2
        elif isinstance(n, (ast.FunctionDef, ast.ClassDef, ast.AsyncFunctionDef)):
            stores[n.name] = stores.get(n.name, 0) + 2
        elif isinstance(n, ast.arg):
            stores[n.arg] = stores.get(n.arg, 0) + 2
        elif isinstance(n, ast.alias):
            nm = (n.asname or n.name).split(".")[0]
            stores[nm] = stores.get(nm, 0) + 2
    env = {}
    # index tables computed once at import from constants (tuple(itertools.combinations(...)),
    # tuple(range(3)), ...) are written out as the display they evaluate to
    for st in tree.body:
        if isinstance(st, ast.Assign) and len(st.targets) == 1 \
                and isinstance(st.targets[0], ast.Name) and stores.get(st.targets[0].id) == 1 \
                and (st.targets[0].id.startswith("_") or st.targets[0].id.isupper()) \
                and isinstance(st.value, ast.Call):
            lit = _pure_table(st.value)
            if lit is not None:
                st.value = ast.copy_location(lit, st.value)
                ast.fix_missing_locations(st)
    for st in tree.body:
        if isinstance(st, ast.Assign) and len(st.targets) == 1 \
                and isinstance(st.targets[0], ast.Name) and stores.get(st.targets[0].id) == 1:
            nm = st.targets[0].id
            if not (nm.startswith("_") or nm.isupper()):
                continue
            v = _const_fold(st.value, env)
            if isinstance(v, str):
                env[nm] = v
    # tables: a tuple / list display of constants, names of module-level functions and nested
    # such displays -- written out where a loop runs over them
    funcs = {n.name for n in tree.body if isinstance(n, ast.FunctionDef)}

    def table_ok(e, depth=0):
        if isinstance(e, (ast.Tuple, ast.List)):
            return depth < 3 and len(e.elts) <= 16 and all(table_ok(x, depth + 1)
                                                           for x in e.elts)
        if isinstance(e, ast.Constant):
            return True
        if isinstance(e, ast.Name):
            return e.id in funcs or e.id in env or (
                e.id in ("str", "dict", "int", "float", "list", "tuple", "bool", "set", "bytes",
                         "complex", "type", "object") and e.id not in stores)
        if isinstance(e, ast.Attribute):
            root = e
            while isinstance(root, ast.Attribute):
                root = root.value
            return isinstance(root, ast.Name) and root.id in imported
        return False
    imported = set()
    for st in tree.body:
        if isinstance(st, (ast.Import, ast.ImportFrom)):
            for al in st.names:
                imported.add((al.asname or al.name).split(".")[0])
    tables = {}
    for st in tree.body:
        if isinstance(st, ast.Assign) and len(st.targets) == 1 \
                and isinstance(st.targets[0], ast.Name) and stores.get(st.targets[0].id) == 1 \
                and isinstance(st.value, (ast.Tuple, ast.List)) and st.value.elts \
                and table_ok(st.value):
            nm = st.targets[0].id
            if nm.startswith("_") or nm.isupper():
                tables[nm] = st.value
    # a dict display with constant keys: its items / keys / values where a loop runs over them
    dict_tables = {}
    for st in tree.body:
        if isinstance(st, ast.Assign) and len(st.targets) == 1 \
                and isinstance(st.targets[0], ast.Name) and stores.get(st.targets[0].id) == 1 \
                and isinstance(st.value, ast.Dict) and 1 <= len(st.value.keys) <= 16 \
                and all(isinstance(k, ast.Constant) for k in st.value.keys) \
                and all(table_ok(v, 1) for v in st.value.values):
            nm = st.targets[0].id
            mutated = any(isinstance(n, ast.Subscript) and isinstance(n.value, ast.Name)
                          and n.value.id == nm and isinstance(n.ctx, (ast.Store, ast.Del))
                          for n in ast.walk(tree)) or any(
                isinstance(n, ast.Attribute) and isinstance(n.value, ast.Name)
                and n.value.id == nm and n.attr in ("update", "pop", "setdefault", "clear",
                                                    "popitem", "__setitem__")
                for n in ast.walk(tree))
            if (nm.startswith("_") or nm.isupper()) and not mutated:
                dict_tables[nm] = st.value

    def dict_rows(it):
        """<dict table>.items() / .keys() / .values() / the table itself as a display"""
        d, how = None, None
        if isinstance(it, ast.Name) and it.id in dict_tables:
            d, how = dict_tables[it.id], "keys"
        elif isinstance(it, ast.Call) and not it.args and not it.keywords \
                and isinstance(it.func, ast.Attribute) and isinstance(it.func.value, ast.Name) \
                and it.func.value.id in dict_tables \
                and it.func.attr in ("items", "keys", "values"):
            d, how = dict_tables[it.func.value.id], it.func.attr
        if d is None:
            return None
        if how == "keys":
            elts = [copy.deepcopy(k) for k in d.keys]
        elif how == "values":
            elts = [copy.deepcopy(v) for v in d.values]
        else:
            elts = [ast.Tuple(elts=[copy.deepcopy(k), copy.deepcopy(v)], ctx=ast.Load())
                    for k, v in zip(d.keys, d.values)]
        return ast.Tuple(elts=elts, ctx=ast.Load())

    class R(ast.NodeTransformer):
        def visit_Name(self, n):
            if isinstance(n.ctx, ast.Load) and n.id in env:
                return ast.copy_location(ast.Constant(value=env[n.id]), n)
            return n

        def visit_For(self, n):
            if isinstance(n.iter, ast.Name) and n.iter.id in tables:
                n.iter = copy.deepcopy(tables[n.iter.id])
            elif dict_rows(n.iter) is not None:
                n.iter = ast.copy_location(dict_rows(n.iter), n.iter)
            return self.generic_visit(n)

        def visit_comprehension(self, n):
            if isinstance(n.iter, ast.Name) and n.iter.id in tables:
                n.iter = copy.deepcopy(tables[n.iter.id])
            elif dict_rows(n.iter) is not None:
                n.iter = ast.copy_location(dict_rows(n.iter), n.iter)
            return self.generic_visit(n)
    tree = R().visit(tree)

    class U(ast.NodeTransformer):
        """a list / dict comprehension over a display of rows of constants and names is the
        display of its elements"""
        def _rows(self, node):
            if len(node.generators) != 1:
                return None
            g = node.generators[0]
            it = g.iter
            if isinstance(it, ast.Call) and isinstance(it.func, ast.Name) \
                    and it.func.id == "range" and len(it.args) == 1 and not it.keywords \
                    and isinstance(it.args[0], ast.Constant) \
                    and isinstance(it.args[0].value, int) and 1 <= it.args[0].value <= 16:
                it = ast.Tuple(elts=[ast.Constant(k) for k in range(it.args[0].value)],
                               ctx=ast.Load())
            if g.ifs or g.is_async or not isinstance(it, (ast.Tuple, ast.List)) \
                    or not 1 <= len(it.elts) <= 16 \
                    or not all(_simple_table_elt(e) for e in it.elts):
                return None
            maps = []
            for e in it.elts:
                if isinstance(g.target, ast.Name):
                    maps.append({g.target.id: e})
                elif isinstance(g.target, (ast.Tuple, ast.List)) and isinstance(
                        e, (ast.Tuple, ast.List)) and len(e.elts) == len(g.target.elts) \
                        and all(isinstance(t, ast.Name) for t in g.target.elts):
                    maps.append({t.id: v for t, v in zip(g.target.elts, e.elts)})
                else:
                    return None
            return maps

        def visit_ListComp(self, node):
            self.generic_visit(node)
            maps = self._rows(node)
            if maps is None:
                return node
            return ast.copy_location(ast.List(
                elts=[_Subst(m).visit(copy.deepcopy(node.elt)) for m in maps],
                ctx=ast.Load()), node)

        def visit_FunctionDef(self, node):
            # a local bound once to a display of constants and only read: written out where a
            # comprehension runs over it
            counts, vals = {}, {}
            for n in ast.walk(node):
                if isinstance(n, ast.Name) and isinstance(n.ctx, (ast.Store, ast.Del)):
                    counts[n.id] = counts.get(n.id, 0) + 1
                if isinstance(n, ast.Assign) and len(n.targets) == 1 \
                        and isinstance(n.targets[0], ast.Name) \
                        and isinstance(n.value, (ast.Tuple, ast.List)) and n.value.elts \
                        and all(isinstance(e, ast.Constant) for e in n.value.elts):
                    vals[n.targets[0].id] = n.value
            params = {a.arg for a in node.args.args + node.args.kwonlyargs}
            local = {k: v for k, v in vals.items() if counts.get(k) == 1 and k not in params
                     and not any(isinstance(a, ast.Attribute) and isinstance(a.value, ast.Name)
                                 and a.value.id == k for a in ast.walk(node))}
            if local:
                for c in [n for n in ast.walk(node) if isinstance(n, ast.comprehension)]:
                    if isinstance(c.iter, ast.Name) and c.iter.id in local:
                        c.iter = copy.deepcopy(local[c.iter.id])
            return self.generic_visit(node)

        def visit_Call(self, node):
            # all(E(x) for x in <display>) is the conjunction of the E(x), any(...) their
            # disjunction (python evaluates them in order and stops at the same point)
            self.generic_visit(node)
            if isinstance(node.func, ast.Name) and node.func.id in ("all", "any") \
                    and len(node.args) == 1 and not node.keywords \
                    and isinstance(node.args[0], (ast.GeneratorExp, ast.ListComp, ast.List)):
                a = node.args[0]
                if isinstance(a, ast.List):
                    elts = list(a.elts) if isinstance(node.args[0], ast.List) and False else None
                else:
                    maps = self._rows(a)
                    elts = None if maps is None else [
                        _Subst(m).visit(copy.deepcopy(a.elt)) for m in maps]
                def boolean(e):
                    return isinstance(e, ast.Compare) or (
                        isinstance(e, ast.UnaryOp) and isinstance(e.op, ast.Not)) or (
                        isinstance(e, ast.BoolOp) and all(boolean(v) for v in e.values)) or (
                        isinstance(e, ast.Call) and isinstance(e.func, ast.Name)
                        and e.func.id in ("isinstance", "bool", "callable", "hasattr"))
                if elts and not all(boolean(e) for e in elts):
                    elts = None         # the value of `a and b` is an operand, not a bool
                if elts and len(elts) >= 2:
                    op = ast.And() if node.func.id == "all" else ast.Or()
                    return ast.copy_location(ast.BoolOp(op=op, values=elts), node)
                if elts and len(elts) == 1:
                    return ast.copy_location(ast.Call(func=ast.Name(id="bool", ctx=ast.Load()),
                                                      args=elts, keywords=[]), node)
            return node

        def visit_Assign(self, node):
            # a, b, c = (E(k) for k in <table>): the generator is consumed at once
            if len(node.targets) == 1 and isinstance(node.targets[0], (ast.Tuple, ast.List)) \
                    and isinstance(node.value, ast.GeneratorExp):
                maps = self._rows(node.value)
                if maps is not None and len(maps) == len(node.targets[0].elts):
                    node.value = ast.copy_location(ast.Tuple(
                        elts=[_Subst(m).visit(copy.deepcopy(node.value.elt)) for m in maps],
                        ctx=ast.Load()), node.value)
            return self.generic_visit(node)

        def visit_DictComp(self, node):
            self.generic_visit(node)
            maps = self._rows(node)
            if maps is None:
                return node
            return ast.copy_location(ast.Dict(
                keys=[_Subst(m).visit(copy.deepcopy(node.key)) for m in maps],
                values=[_Subst(m).visit(copy.deepcopy(node.value)) for m in maps]), node)
    tree = U().visit(tree)
    ast.fix_missing_locations(tree)
    return tree


# ---------------------------------------------------------------------------------------------
# R: records -- a local that only ever holds a namedtuple built on the spot and is only read
# field by field is replaced by one local per field
# ---------------------------------------------------------------------------------------------
def _namedtuple_classes(tree):
    out = {}
    for st in tree.body:
        if isinstance(st, ast.Assign) and len(st.targets) == 1 \
                and isinstance(st.targets[0], ast.Name) and isinstance(st.value, ast.Call) \
                and _unparse(st.value.func) in ("collections.namedtuple", "namedtuple") \
                and len(st.value.args) >= 2 and not st.value.keywords:
            f = st.value.args[1]
            fields = None
            if isinstance(f, (ast.List, ast.Tuple)) and all(
                    isinstance(e, ast.Constant) and isinstance(e.value, str) for e in f.elts):
                fields = [e.value for e in f.elts]
            elif isinstance(f, ast.Constant) and isinstance(f.value, str):
                fields = f.value.replace(",", " ").split()
            if fields:
                out[st.targets[0].id] = fields
        elif isinstance(st, ast.ClassDef):
            deco = [_unparse(d.func if isinstance(d, ast.Call) else d) for d in st.decorator_list]
            bases = [_unparse(b) for b in st.bases]
            is_dc = any(d in ("dataclass", "dataclasses.dataclass") for d in deco) and not bases
            is_nt = any(b in ("NamedTuple", "typing.NamedTuple") for b in bases)
            if not (is_dc or is_nt):
                continue
            if any(isinstance(m, ast.FunctionDef) and m.name in (
                    "__init__", "__post_init__", "__new__", "__getattr__", "__setattr__")
                    for m in st.body):
                continue
            fields = [m.target.id for m in st.body if isinstance(m, ast.AnnAssign)
                      and isinstance(m.target, ast.Name)]
            # no field may be shadowed by a method / property of the same class
            names = {m.name for m in st.body if isinstance(m, ast.FunctionDef)}
            if fields and not (set(fields) & names):
                out[st.name] = fields
    return out


def _record_values(call, fields):
    if any(isinstance(a, ast.Starred) for a in call.args) or any(
            k.arg is None for k in call.keywords) or len(call.args) > len(fields):
        return None
    vals = [(fields[i], a) for i, a in enumerate(call.args)]
    seen = {f for f, _ in vals}
    for k in call.keywords:
        if k.arg not in fields or k.arg in seen:
            return None
        seen.add(k.arg)
        vals.append((k.arg, k.value))
    return vals if seen == set(fields) else None


def _is_replace(e, name):
    return isinstance(e, ast.Call) and isinstance(e.func, ast.Attribute) \
        and e.func.attr == "_replace" and isinstance(e.func.value, ast.Name) \
        and e.func.value.id == name and not e.args \
        and all(k.arg is not None for k in e.keywords)


def split_records(fn, classes):
    if not classes:
        return
    defs, other = {}, set()
    replaces = {}
    parents = {}
    for n in ast.walk(fn):
        for ch in ast.iter_child_nodes(n):
            parents[id(ch)] = n
    for n in ast.walk(fn):
        if isinstance(n, (ast.FunctionDef, ast.Lambda)) and n is not fn:
            for x in ast.walk(n):
                if isinstance(x, ast.Name):
                    other.add(x.id)          # names seen by nested functions are left alone
    for n in ast.walk(fn):
        if not isinstance(n, ast.Name):
            continue
        par = parents.get(id(n))
        if isinstance(n.ctx, ast.Store):
            if isinstance(par, ast.Assign) and len(par.targets) == 1 and par.targets[0] is n \
                    and isinstance(par.value, ast.Call) and isinstance(par.value.func, ast.Name) \
                    and par.value.func.id in classes \
                    and _record_values(par.value, classes[par.value.func.id]) is not None:
                defs.setdefault(n.id, []).append(par)
            elif isinstance(par, ast.Assign) and len(par.targets) == 1 \
                    and par.targets[0] is n and _is_replace(par.value, n.id):
                replaces.setdefault(n.id, []).append(par)
            else:
                other.add(n.id)
        elif isinstance(n.ctx, ast.Load):
            if not (isinstance(par, ast.Attribute) and par.value is n
                    and isinstance(par.ctx, ast.Load)):
                other.add(n.id)
            elif par.attr == "_replace":
                # only as  X = X._replace(field=value, ...)
                call = parents.get(id(par))
                asg = parents.get(id(call))
                if not (isinstance(asg, ast.Assign) and len(asg.targets) == 1
                        and isinstance(asg.targets[0], ast.Name)
                        and asg.targets[0].id == n.id and _is_replace(asg.value, n.id)):
                    other.add(n.id)
        elif isinstance(n.ctx, ast.Del) and isinstance(par, ast.Delete):
            pass                        # `del record`: deletes the fields
        else:
            other.add(n.id)
    params = {a.arg for a in fn.args.args + fn.args.kwonlyargs}
    for name, dl in defs.items():
        if name in other or name in params:
            continue
        cls = {d.value.func.id for d in dl}
        if len(cls) != 1:
            continue
        fields = classes[cls.pop()]
        bad = False
        for n in ast.walk(fn):
            if isinstance(n, ast.Attribute) and isinstance(n.value, ast.Name) \
                    and n.value.id == name and n.attr not in fields \
                    and n.attr != "_replace":
                bad = True
        for r in replaces.get(name, []):
            if any(k.arg not in fields for k in r.value.keywords):
                bad = True
        if bad:
            continue
        repl = {id(d): [ast.copy_location(ast.Assign(
            targets=[ast.Name(id=f"{name}__{f}", ctx=ast.Store())], value=v), d)
            for f, v in _record_values(d.value, fields)] for d in dl}
        for r in replaces.get(name, []):
            # X = X._replace(f=v): the new values are computed, then the fields take them
            tmps = [(k.arg, f"{name}__{k.arg}__new{next(_counter)}", k.value)
                    for k in r.value.keywords]
            if len(tmps) == 1:
                repl[id(r)] = [ast.copy_location(ast.Assign(
                    targets=[ast.Name(id=f"{name}__{tmps[0][0]}", ctx=ast.Store())],
                    value=tmps[0][2]), r)]
            else:
                repl[id(r)] = [ast.copy_location(ast.Assign(
                    targets=[ast.Name(id=t, ctx=ast.Store())], value=v), r)
                    for _f, t, v in tmps] + [ast.copy_location(ast.Assign(
                        targets=[ast.Name(id=f"{name}__{f_}", ctx=ast.Store())],
                        value=ast.Name(id=t, ctx=ast.Load())), r) for f_, t, _v in tmps]

        def rewrite(block):
            out = []
            for st in block:
                if id(st) in repl:
                    out.extend(repl[id(st)])
                    continue
                for field in ("body", "orelse", "finalbody"):
                    b = getattr(st, field, None)
                    if isinstance(b, list) and b and isinstance(b[0], ast.stmt):
                        setattr(st, field, rewrite(b))
                for h in getattr(st, "handlers", []) or []:
                    h.body = rewrite(h.body)
                out.append(st)
            return out
        fn.body = rewrite(fn.body)

        class A(ast.NodeTransformer):
            def visit_Attribute(self, n):
                if isinstance(n.value, ast.Name) and n.value.id == name:
                    return ast.copy_location(ast.Name(id=f"{name}__{n.attr}", ctx=n.ctx), n)
                return self.generic_visit(n)

            def visit_Delete(self, n):
                new = []
                for t in n.targets:
                    if isinstance(t, ast.Name) and t.id == name:
                        new.extend(ast.Name(id=f"{name}__{f}", ctx=ast.Del()) for f in fields)
                    else:
                        new.append(t)
                n.targets = new
                return n
        A().visit(fn)
        ast.fix_missing_locations(fn)


# ---------------------------------------------------------------------------------------------
# O: standard-library spellings -- import aliases of operator / functools / itertools /
# collections are written with the module's own name, operator.<op>(a, b) becomes the operator,
# operator.itemgetter(k) a lambda, and a call of a name bound once to functools.partial(F, A..)
# becomes F(A.., ...)
# ---------------------------------------------------------------------------------------------
_STD = ("operator", "functools", "itertools", "collections")
_OPS_PASS = None
_BINOPS = {"add": ast.Add, "sub": ast.Sub, "mul": ast.Mult, "truediv": ast.Div,
           "floordiv": ast.FloorDiv, "mod": ast.Mod, "pow": ast.Pow, "matmul": ast.MatMult}
_CMPOPS = {"eq": ast.Eq, "ne": ast.NotEq, "lt": ast.Lt, "le": ast.LtE, "gt": ast.Gt,
           "ge": ast.GtE, "is_": ast.Is, "is_not": ast.IsNot}


# names bound exactly once to functools.partial(...) and only ever called
def _partial_defs(scope_body, walker):
    out = {}
    for a in walker:
        if isinstance(a, ast.Assign) and len(a.targets) == 1 \
                and isinstance(a.targets[0], ast.Name) and isinstance(a.value, ast.Call) \
                and _unparse(a.value.func) == "functools.partial" and a.value.args \
                and not any(isinstance(x, ast.Starred) for x in a.value.args) \
                and not any(k.arg is None for k in a.value.keywords):
            out[a.targets[0].id] = a.value
    return out

def _apply_partials(scope, defs):
    if not defs:
        return
    counts, calls = {}, {}
    for n in ast.walk(scope):
        if isinstance(n, ast.Name) and n.id in defs:
            if isinstance(n.ctx, ast.Store):
                counts[n.id] = counts.get(n.id, 0) + 1
            else:
                calls.setdefault(n.id, []).append(n)
    called = {}
    for n in ast.walk(scope):
        if isinstance(n, ast.Call) and isinstance(n.func, ast.Name) and n.func.id in defs:
            called.setdefault(n.func.id, []).append(n)
    for name, d in defs.items():
        if counts.get(name) != 1:
            continue
        if len(calls.get(name, [])) != len(called.get(name, [])):
            continue            # also used as a value: left alone
        # the bound arguments must be plain (evaluated again at every call)
        if not all(_simple_arg(x) or isinstance(x, ast.Constant) for x in d.args[1:]) \
                or not all(_simple_arg(k.value) or isinstance(k.value, ast.Constant)
                           for k in d.keywords):
            continue
        for c in called.get(name, []):
            c.func = copy.deepcopy(d.args[0])
            c.args = [copy.deepcopy(x) for x in d.args[1:]] + c.args
            c.keywords = [copy.deepcopy(k) for k in d.keywords] + c.keywords


def std_spellings(tree):
    stores = {}
    for n in ast.walk(tree):
        if isinstance(n, ast.Name) and isinstance(n.ctx, (ast.Store, ast.Del)):
            stores[n.id] = stores.get(n.id, 0) + 1
        elif isinstance(n, ast.arg):
            stores[n.arg] = stores.get(n.arg, 0) + 1
        elif isinstance(n, (ast.FunctionDef, ast.ClassDef)):
            stores[n.name] = stores.get(n.name, 0) + 1
    alias = {}          # local name -> dotted standard name
    for st in tree.body:
        if isinstance(st, ast.Import):
            for a in st.names:
                if a.name in _STD and a.asname and not stores.get(a.asname):
                    alias[a.asname] = a.name
        elif isinstance(st, ast.ImportFrom) and st.module in _STD and not st.level:
            for a in st.names:
                local = a.asname or a.name
                if not stores.get(local) and a.name != "*":
                    alias[local] = st.module + "." + a.name

    def dotted(name, ref):
        parts = name.split(".")
        node = ast.Name(id=parts[0], ctx=ast.Load())
        for p_ in parts[1:]:
            node = ast.Attribute(value=node, attr=p_, ctx=ast.Load())
        return ast.copy_location(node, ref)

    class A(ast.NodeTransformer):
        def visit_Name(self, n):
            if isinstance(n.ctx, ast.Load) and n.id in alias:
                return dotted(alias[n.id], n)
            return n
    if alias:
        tree = A().visit(tree)
        ast.fix_missing_locations(tree)

    class Ops(ast.NodeTransformer):
        def visit_Call(self, n):
            self.generic_visit(n)
            f = _unparse(n.func)
            if f.startswith("operator.") and not n.keywords and not any(
                    isinstance(a, ast.Starred) for a in n.args):
                op = f[9:]
                if op in _BINOPS and len(n.args) == 2:
                    return ast.copy_location(ast.BinOp(left=n.args[0], op=_BINOPS[op](),
                                                       right=n.args[1]), n)
                if op in _CMPOPS and len(n.args) == 2:
                    return ast.copy_location(ast.Compare(left=n.args[0], ops=[_CMPOPS[op]()],
                                                         comparators=[n.args[1]]), n)
                if op == "neg" and len(n.args) == 1:
                    return ast.copy_location(ast.UnaryOp(op=ast.USub(), operand=n.args[0]), n)
                if op == "getitem" and len(n.args) == 2:
                    return ast.copy_location(ast.Subscript(value=n.args[0], slice=n.args[1],
                                                           ctx=ast.Load()), n)
                if op == "itemgetter" and len(n.args) == 1:
                    arg = ast.arg(arg="item__g")
                    lam = ast.Lambda(
                        args=ast.arguments(posonlyargs=[], args=[arg], kwonlyargs=[],
                                           kw_defaults=[], defaults=[]),
                        body=ast.Subscript(value=ast.Name(id="item__g", ctx=ast.Load()),
                                           slice=n.args[0], ctx=ast.Load()))
                    return ast.copy_location(lam, n)
            # operator.attrgetter('a', 'b')(X)  ->  (X.a, X.b)
            if isinstance(n.func, ast.Call) and _unparse(n.func.func) == "operator.attrgetter" \
                    and len(n.args) == 1 and not n.keywords and n.func.args \
                    and _simple_arg(n.args[0]) and all(
                        isinstance(a, ast.Constant) and isinstance(a.value, str)
                        and a.value.isidentifier() for a in n.func.args):
                attrs = [ast.Attribute(value=copy.deepcopy(n.args[0]), attr=a.value,
                                       ctx=ast.Load()) for a in n.func.args]
                new = attrs[0] if len(attrs) == 1 else ast.Tuple(elts=attrs, ctx=ast.Load())
                return ast.copy_location(new, n)
            # functools.partial(F, A..)(B..)  ->  F(A.., B..)
            if isinstance(n.func, ast.Call) and _unparse(n.func.func) == "functools.partial" \
                    and n.func.args:
                inner = n.func
                return ast.copy_location(ast.Call(func=inner.args[0],
                                                  args=inner.args[1:] + n.args,
                                                  keywords=inner.keywords + n.keywords), n)
            return n
    tree = Ops().visit(tree)
    ast.fix_missing_locations(tree)
    global _OPS_PASS
    _OPS_PASS = Ops

    _apply_partials(tree, {k: v for k, v in _partial_defs(tree.body, tree.body).items()
                          if stores.get(k) == 1})
    for fn in [n for n in ast.walk(tree) if isinstance(n, ast.FunctionDef)]:
        _apply_partials(fn, _partial_defs(fn.body, ast.walk(fn)))
    ast.fix_missing_locations(tree)
    return tree


def next_to_loop(tree):
    """`x = next(G, None)` followed by `if x is not None: B` (x not used afterwards) is the
    loop `for x in G: B; break` -- the body runs once, for the first element, or not at all.
    B ending in return/raise needs no break.  Exposes a search written with a lazy generator
    to the passes (and rules) that read loops."""
    def names_loaded(stmts, name):
        return any(isinstance(n, ast.Name) and n.id == name for st in stmts
                   for n in ast.walk(st))

    def rewrite(block):
        out, i = [], 0
        while i < len(block):
            st = block[i]
            nxt = block[i + 1] if i + 1 < len(block) else None
            if isinstance(st, ast.Assign) and len(st.targets) == 1 \
                    and isinstance(st.targets[0], ast.Name) \
                    and isinstance(st.value, ast.Call) and isinstance(st.value.func, ast.Name) \
                    and st.value.func.id == "next" and len(st.value.args) == 2 \
                    and not st.value.keywords \
                    and isinstance(st.value.args[1], ast.Constant) \
                    and st.value.args[1].value is None \
                    and isinstance(st.value.args[0], (ast.Call, ast.GeneratorExp)) \
                    and isinstance(nxt, ast.If) and isinstance(nxt.test, ast.Compare) \
                    and len(nxt.test.ops) == 1 and isinstance(nxt.test.left, ast.Name) \
                    and nxt.test.left.id == st.targets[0].id \
                    and isinstance(nxt.test.comparators[0], ast.Constant) \
                    and nxt.test.comparators[0].value is None \
                    and isinstance(nxt.test.ops[0], (ast.IsNot, ast.Is)):
                x = st.targets[0].id
                found, missing = (nxt.body, nxt.orelse) if isinstance(
                    nxt.test.ops[0], ast.IsNot) else (nxt.orelse, nxt.body)
                if found and not any(isinstance(j, (ast.Break, ast.Continue))
                                     for f_ in found for j in ast.walk(f_)) \
                        and not names_loaded(block[i + 2:], x) \
                        and not names_loaded(missing, x) \
                        and (not missing or _always_jumps(found)):
                    body = list(found)
                    if not _always_jumps(body):
                        body.append(ast.Break())
                    gen = st.value.args[0]
                    if isinstance(gen, ast.GeneratorExp) and len(gen.generators) == 1 \
                            and not gen.generators[0].is_async:
                        g = gen.generators[0]
                        inner = [ast.Assign(targets=[ast.Name(id=x, ctx=ast.Store())],
                                            value=gen.elt)] + body
                        for c in reversed(g.ifs):
                            inner = [ast.If(test=c, body=inner, orelse=[])]
                        loop = ast.For(target=g.target, iter=g.iter, body=inner, orelse=[])
                    else:
                        loop = ast.For(target=ast.Name(id=x, ctx=ast.Store()), iter=gen,
                                       body=body, orelse=[])
                    loop.orelse = list(missing)
                    ast.copy_location(loop, st)
                    out.append(loop)
                    i += 2
                    continue
            out.append(st)
            i += 1
        return out
    for n in ast.walk(tree):
        for field in ("body", "orelse", "finalbody"):
            blk = getattr(n, field, None)
            if isinstance(blk, list) and blk and isinstance(blk[0], ast.stmt):
                setattr(n, field, rewrite(blk))
    ast.fix_missing_locations(tree)
    return tree


def private_objects(tree):
    """X = _Cls(args) ... X.meth(a) ... X.field   (the instance of a private class of the module
    used only through its attributes and methods, never handed on as a whole)
      ->  _obj_Cls___init__(X__obj, args) ... _obj_Cls_meth(X__obj, a) ... X__obj.field
    with the methods copied to module-level private helpers taking `self` first, so that the
    helper inliner opens them; objects_to_locals() then turns `X__obj.field` into a local.
    Nothing is changed unless every method used is of an inlinable kind."""
    classes, class_consts = {}, {}
    for node in tree.body:
        is_dc = isinstance(node, ast.ClassDef) and len(node.decorator_list) == 1 and _unparse(
            node.decorator_list[0]) in ("dataclass", "dataclasses.dataclass", "_dataclass")
        if isinstance(node, ast.ClassDef) and node.name.startswith("_") \
                and not node.name.startswith("__") and not node.bases and not node.keywords \
                and (not node.decorator_list or is_dc):
            meths, ok, consts = {}, True, {}
            dc_fields = []
            for sub in node.body:
                if isinstance(sub, ast.Expr) and isinstance(sub.value, ast.Constant):
                    continue
                if is_dc and isinstance(sub, ast.AnnAssign) and isinstance(sub.target, ast.Name) \
                        and sub.simple:
                    if sub.value is not None and not isinstance(sub.value, ast.Constant):
                        ok = False
                    dc_fields.append((sub.target.id, sub.value))
                    continue
                if isinstance(sub, ast.Assign) and len(sub.targets) == 1 \
                        and isinstance(sub.targets[0], ast.Name):
                    # class-level constants (and __slots__, which only restricts the fields)
                    try:
                        ast.literal_eval(sub.value)
                    except (ValueError, TypeError, SyntaxError):
                        ok = False
                    if sub.targets[0].id != "__slots__":
                        consts[sub.targets[0].id] = sub.value
                    continue
                if isinstance(sub, ast.FunctionDef) and not sub.decorator_list \
                        and sub.args.args and sub.args.args[0].arg == "self" \
                        and (not sub.name.startswith("__")
                             or sub.name in ("__init__", "__call__")):
                    meths[sub.name] = sub
                else:
                    ok = False
            if is_dc and ok and "__init__" not in meths and "__post_init__" not in meths \
                    and dc_fields:
                # the constructor a dataclass generates: one parameter per field, in order
                seen_default = False
                for _f, dv in dc_fields:
                    if dv is None and seen_default:
                        ok = False
                    seen_default = seen_default or dv is not None
                init = ast.FunctionDef(
                    name="__init__",
                    args=ast.arguments(
                        posonlyargs=[], args=[ast.arg(arg="self")] + [ast.arg(arg=f_)
                                                                        for f_, _d in dc_fields],
                        vararg=None, kwonlyargs=[], kw_defaults=[], kwarg=None,
                        defaults=[copy.deepcopy(dv) for _f, dv in dc_fields if dv is not None]),
                    body=[ast.Assign(targets=[ast.Attribute(
                        value=ast.Name(id="self", ctx=ast.Load()), attr=f_, ctx=ast.Store())],
                        value=ast.Name(id=f_, ctx=ast.Load())) for f_, _d in dc_fields],
                    decorator_list=[], returns=None, type_comment=None, type_params=[])
                ast.copy_location(init, node)
                ast.fix_missing_locations(init)
                meths["__init__"] = init
            if ok and "__init__" in meths:
                classes[node.name] = meths
                class_consts[node.name] = consts
    for cname in list(classes):
        uses = [n for n in ast.walk(tree) if isinstance(n, ast.Name) and n.id == cname]
        calls = [n for n in ast.walk(tree) if isinstance(n, ast.Call)
                 and isinstance(n.func, ast.Name) and n.func.id == cname]
        if len(uses) != len(calls):
            del classes[cname]
    if not classes:
        return tree
    own_methods = {id(m) for ms in classes.values() for m in ms.values()}
    # module-level instances built from literals, of classes whose methods never write to self
    # after construction: each function that uses one gets its own copy at its top (the object
    # is immutable, so a fresh one per call is the same thing)
    for st in list(tree.body):
        if not (isinstance(st, ast.Assign) and len(st.targets) == 1
                and isinstance(st.targets[0], ast.Name) and isinstance(st.value, ast.Call)
                and isinstance(st.value.func, ast.Name) and st.value.func.id in classes):
            continue
        X, cname = st.targets[0].id, st.value.func.id
        try:
            for a in st.value.args:
                ast.literal_eval(a)
            for k in st.value.keywords:
                ast.literal_eval(k.value)
        except (ValueError, TypeError, SyntaxError):
            continue
        if sum(isinstance(n, ast.Name) and n.id == X and isinstance(n.ctx, ast.Store)
               for n in ast.walk(tree)) != 1:
            continue
        frozen = not any(
            isinstance(t, ast.Attribute) and isinstance(t.value, ast.Name)
            and t.value.id == "self" and isinstance(t.ctx, (ast.Store, ast.Del))
            for mname, m in classes[cname].items() if mname != "__init__"
            for t in ast.walk(m))
        users = [F for F in ast.walk(tree) if isinstance(F, ast.FunctionDef)
                 and id(F) not in own_methods
                 and any(isinstance(n, ast.Name) and n.id == X for n in ast.walk(F))]
        loads = [n for n in ast.walk(tree) if isinstance(n, ast.Name) and n.id == X
                 and isinstance(n.ctx, ast.Load)]
        inside = [n for F in users for n in ast.walk(F) if isinstance(n, ast.Name)
                  and n.id == X]
        if not frozen or not users or len(loads) != len(inside) or any(
                X in [a.arg for a in F.args.args + F.args.kwonlyargs] for F in users):
            continue
        for F in users:
            k = 1 if (F.body and isinstance(F.body[0], ast.Expr)
                      and isinstance(F.body[0].value, ast.Constant)) else 0
            F.body.insert(k, copy.deepcopy(st))
        tree.body = [n for n in tree.body if n is not st]
    helpers_needed = {}

    def hname(cname, meth):
        return f"_obj{cname}_{meth.strip('_')}"
    changed = False
    for F in [n for n in ast.walk(tree) if isinstance(n, ast.FunctionDef)
              and id(n) not in own_methods]:
        for a in [n for n in ast.walk(F) if isinstance(n, ast.Assign)]:
            if not (len(a.targets) == 1 and isinstance(a.targets[0], ast.Name)
                    and isinstance(a.value, ast.Call) and isinstance(a.value.func, ast.Name)
                    and a.value.func.id in classes):
                continue
            X, cname = a.targets[0].id, a.value.func.id
            meths = classes[cname]
            occ = [n for n in ast.walk(F) if isinstance(n, ast.Name) and n.id == X]
            if sum(isinstance(n.ctx, ast.Store) for n in occ) != 1 \
                    or X in [p.arg for p in F.args.args + F.args.kwonlyargs]:
                continue
            attrs = [n for n in ast.walk(F) if isinstance(n, ast.Attribute)
                     and isinstance(n.value, ast.Name) and n.value.id == X]
            dcalls = [n for n in ast.walk(F) if isinstance(n, ast.Call)
                      and isinstance(n.func, ast.Name) and n.func.id == X]
            if len(attrs) + len(dcalls) != len(occ) - 1:
                continue            # the object is used as a whole somewhere
            mcalls = [n for n in ast.walk(F) if isinstance(n, ast.Call)
                      and isinstance(n.func, ast.Attribute) and n.func in attrs]
            called = {c.func.attr for c in mcalls} | ({"__call__"} if dcalls else set())
            fields = {t.attr for m in meths.values() for st in ast.walk(m)
                      if isinstance(st, (ast.Assign, ast.AugAssign, ast.AnnAssign))
                      for t in (st.targets if isinstance(st, ast.Assign) else [st.target])
                      if isinstance(t, ast.Attribute) and isinstance(t.value, ast.Name)
                      and t.value.id == "self"}
            consts = class_consts[cname]
            other = {n.attr for n in attrs if not any(n is c.func for c in mcalls)}
            if not called <= set(meths) or not other <= (fields | set(consts)) \
                    or (called & fields) or (fields & set(consts)):
                continue
            # methods reached from the methods used (self.m(...)) must be openable as well
            need, todo = set(), ["__init__"] + sorted(called)
            good = True
            while todo and good:
                m = todo.pop()
                if m in need:
                    continue
                need.add(m)
                for c in ast.walk(meths[m]):
                    if isinstance(c, ast.Attribute) and isinstance(c.value, ast.Name) \
                            and c.value.id == "self" and c.attr in meths:
                        par_is_call = any(isinstance(k, ast.Call) and k.func is c
                                          for k in ast.walk(meths[m]))
                        if not par_is_call:
                            good = False
                        todo.append(c.attr)
                if any(isinstance(n, ast.Name) and n.id == "self"
                       and not isinstance(getattr(n, "_p", None), ast.Attribute)
                       for n in _mark_parents(meths[m])):
                    good = False        # self handed on as a whole
            if not good:
                continue
            copies = {}
            for m in need:
                h = copy.deepcopy(meths[m])
                h.name = hname(cname, m)
                for c in ast.walk(h):
                    if isinstance(c, ast.Call) and isinstance(c.func, ast.Attribute) \
                            and isinstance(c.func.value, ast.Name) \
                            and c.func.value.id == "self" and c.func.attr in meths:
                        c.args = [ast.Name(id="self", ctx=ast.Load())] + c.args
                        c.func = ast.Name(id=hname(cname, c.func.attr), ctx=ast.Load())
                if consts:
                    h = _ConstAttr("self", consts).visit(h)
                copies[m] = h
            if any(_helper_kind(h)[0] not in ("proc", "expr", "tail", "multi")
                   for h in copies.values()) or _helper_kind(copies["__init__"])[0] != "proc":
                continue
            for m, h in copies.items():
                helpers_needed.setdefault(h.name, h)
            obj = X + "__obj"
            if consts:
                _ConstAttr(X, consts).visit(F)
            for n in occ:
                n.id = obj
            for c in mcalls:
                c.args = [ast.Name(id=obj, ctx=ast.Load())] + c.args
                c.func = ast.Name(id=hname(cname, c.func.attr), ctx=ast.Load())
            for c in dcalls:
                c.args = [ast.Name(id=obj, ctx=ast.Load())] + c.args
                c.func = ast.Name(id=hname(cname, "__call__"), ctx=ast.Load())
            init = ast.Expr(value=ast.Call(
                func=ast.Name(id=hname(cname, "__init__"), ctx=ast.Load()),
                args=[ast.Name(id=obj, ctx=ast.Load())] + a.value.args,
                keywords=a.value.keywords))
            ast.copy_location(init, a)
            _replace_stmt(F, a, init)
            changed = True
    if not changed:
        return tree
    first = min(i for i, n in enumerate(tree.body) if isinstance(n, ast.ClassDef)
                and n.name in classes)
    tree.body[first:first] = list(helpers_needed.values())
    still = {n.id for n in ast.walk(tree) if isinstance(n, ast.Name)}
    tree.body = [n for n in tree.body if not (isinstance(n, ast.ClassDef) and n.name in classes
                                              and n.name not in still)]
    ast.fix_missing_locations(tree)
    return tree


class _ConstAttr(ast.NodeTransformer):
    """<obj>.<class constant>  ->  the constant"""
    def __init__(self, obj, consts):
        self.obj, self.consts = obj, consts

    def visit_Attribute(self, node):
        if isinstance(node.value, ast.Name) and node.value.id == self.obj \
                and node.attr in self.consts and isinstance(node.ctx, ast.Load):
            return ast.copy_location(copy.deepcopy(self.consts[node.attr]), node)
        return self.generic_visit(node)


def _mark_parents(root):
    out = []
    for n in ast.walk(root):
        for c in ast.iter_child_nodes(n):
            c.__dict__["_p"] = n
        out.append(n)
    return out


def _replace_stmt(root, old, new):
    for n in ast.walk(root):
        for field in ("body", "orelse", "finalbody"):
            blk = getattr(n, field, None)
            if isinstance(blk, list):
                for i, x in enumerate(blk):
                    if x is old:
                        blk[i] = new
                        return
        if isinstance(n, ast.Try):
            for h in n.handlers:
                for i, x in enumerate(h.body):
                    if x is old:
                        h.body[i] = new
                        return


def objects_to_locals(tree):
    """`X__obj.field` -> a local: `X` when the object has one field, `X__field` otherwise
    (only when nothing else is left of the object)"""
    for F in [n for n in ast.walk(tree) if isinstance(n, ast.FunctionDef)]:
        objs = {n.id for n in ast.walk(F) if isinstance(n, ast.Name) and n.id.endswith("__obj")}
        for obj in sorted(objs):
            occ = [n for n in ast.walk(F) if isinstance(n, ast.Name) and n.id == obj]
            attrs = [n for n in ast.walk(F) if isinstance(n, ast.Attribute)
                     and isinstance(n.value, ast.Name) and n.value.id == obj]
            if len(attrs) != len(occ):
                continue
            fields = {a.attr for a in attrs}
            base = obj[:-len("__obj")]
            taken = {n.id for n in ast.walk(F) if isinstance(n, ast.Name)} | \
                    {p.arg for p in F.args.args}
            names = {f: (base if len(fields) == 1 and base not in taken else f"{base}__{f}")
                     for f in fields}

            class T(ast.NodeTransformer):
                def visit_Attribute(self, node):
                    if isinstance(node.value, ast.Name) and node.value.id == obj:
                        return ast.copy_location(ast.Name(id=names[node.attr], ctx=node.ctx),
                                                 node)
                    return self.generic_visit(node)
            T().visit(F)
    ast.fix_missing_locations(tree)
    return tree


def lift_closures(tree):
    """A local function that is only ever called (never handed on as a value) becomes a private
    module-level helper taking the variables it reads from the enclosing function as leading
    parameters; each call passes their current values (python binds them when the call runs,
    so nothing changes).  The helper inliner then opens it like any other helper."""
    import builtins
    new_defs = []

    def lambdas_to_defs(F):
        """name = lambda p: e  (the only binding of name, only ever called)  ->  def name(p)"""
        for a in [n for n in ast.walk(F) if isinstance(n, ast.Assign)]:
            if len(a.targets) == 1 and isinstance(a.targets[0], ast.Name) \
                    and isinstance(a.value, ast.Lambda):
                nm = a.targets[0].id
                lam = a.value
                if lam.args.vararg or lam.args.kwarg or lam.args.kwonlyargs or lam.args.defaults:
                    continue
                uses = [n for n in ast.walk(F) if isinstance(n, ast.Name) and n.id == nm]
                calls = [n for n in ast.walk(F) if isinstance(n, ast.Call)
                         and isinstance(n.func, ast.Name) and n.func.id == nm]
                if len(uses) != len(calls) + 1 or any(
                        isinstance(n, (ast.Lambda, ast.Yield, ast.NamedExpr))
                        for n in ast.walk(lam.body)):
                    continue
                d = ast.FunctionDef(name=nm, args=lam.args,
                                    body=[ast.Return(value=lam.body)], decorator_list=[],
                                    returns=None, type_comment=None, type_params=[])
                ast.copy_location(d, a)
                ast.fix_missing_locations(d)
                _replace_stmt(F, a, d)

    def own_nodes(fn):
        """nodes of fn's body that are not inside a nested def / lambda / class"""
        todo = list(fn.body)
        while todo:
            n = todo.pop()
            yield n
            if isinstance(n, (ast.FunctionDef, ast.AsyncFunctionDef, ast.Lambda, ast.ClassDef)):
                continue
            todo.extend(ast.iter_child_nodes(n))

    def process(F, top):
        lambdas_to_defs(F)
        for g in [n for n in own_nodes(F) if isinstance(n, ast.FunctionDef)]:
            if g.decorator_list or g.args.vararg or g.args.kwarg or g.args.kwonlyargs \
                    or any(isinstance(n, (ast.Nonlocal, ast.Global, ast.Yield, ast.YieldFrom,
                                          ast.FunctionDef, ast.Lambda, ast.ClassDef))
                           for n in ast.walk(g) if n is not g):
                continue
            uses = [n for n in ast.walk(F) if isinstance(n, ast.Name) and n.id == g.name]
            calls = [n for n in ast.walk(F) if isinstance(n, ast.Call)
                     and isinstance(n.func, ast.Name) and n.func.id == g.name]
            if not calls or len(uses) != len(calls) \
                    or any(isinstance(u.ctx, ast.Store) for u in uses):
                continue
            if any(n is not g and isinstance(n, ast.FunctionDef) and n.name == g.name
                   for n in ast.walk(F)):
                continue
            gparams = [a.arg for a in g.args.args]
            glocals = set(gparams) | {n.id for n in ast.walk(g) if isinstance(n, ast.Name)
                                      and isinstance(n.ctx, (ast.Store, ast.Del))}
            flocals = {a.arg for a in F.args.args + F.args.kwonlyargs} | {
                n.id for n in own_nodes(F) if isinstance(n, ast.Name)
                and isinstance(n.ctx, ast.Store)} | {
                n.name for n in own_nodes(F) if isinstance(n, ast.FunctionDef)}
            if F.args.vararg:
                flocals.add(F.args.vararg.arg)
            if F.args.kwarg:
                flocals.add(F.args.kwarg.arg)
            free = []
            for n in ast.walk(g):
                if isinstance(n, ast.Name) and isinstance(n.ctx, ast.Load) \
                        and n.id not in glocals and n.id in flocals and n.id not in free:
                    free.append(n.id)
            if any(f_ == g.name for f_ in free):
                continue            # recursive
            # the free variables that are other local functions must have been lifted first
            if any(isinstance(n, ast.FunctionDef) and n.name in free for n in own_nodes(F)):
                continue
            name = f"_lift_{F.name.strip('_')}_{g.name.strip('_')}"
            if any(isinstance(n, ast.FunctionDef) and n.name == name for n in ast.walk(tree)) \
                    or any(d.name == name for _t, d in new_defs):
                continue
            h = copy.deepcopy(g)
            h.name = name
            h.args.args = [ast.arg(arg=f_) for f_ in free] + h.args.args
            for c in calls:
                c.func = ast.Name(id=name, ctx=ast.Load())
                c.args = [ast.Name(id=f_, ctx=ast.Load()) for f_ in free] + c.args
            _replace_stmt(F, g, ast.copy_location(ast.Pass(), g))
            new_defs.append((top, h))
    for top in list(tree.body):
        if isinstance(top, ast.FunctionDef):
            process(top, top)
        elif isinstance(top, ast.ClassDef):
            for sub in top.body:
                if isinstance(sub, ast.FunctionDef):
                    process(sub, top)
    for top, h in new_defs:
        i = [k for k, n in enumerate(tree.body) if n is top][0]
        tree.body.insert(i, h)
    if new_defs:
        ast.fix_missing_locations(tree)
    return tree


def counting_while_to_for(tree):
    """n = 0; while n < E: BODY; n += 1   ->   for n in range(E): BODY
    when BODY neither rebinds n nor the names E reads, has no `continue` of its own, and n is
    not read after the loop (its final value differs)."""
    def rewrite(block, after_fn):
        out, i = [], 0
        while i < len(block):
            st = block[i]
            nxt = block[i + 1] if i + 1 < len(block) else None
            if isinstance(st, ast.Assign) and len(st.targets) == 1 \
                    and isinstance(st.targets[0], ast.Name) \
                    and isinstance(st.value, ast.Constant) and st.value.value == 0 \
                    and type(st.value.value) is int \
                    and isinstance(nxt, ast.While) and not nxt.orelse \
                    and isinstance(nxt.test, ast.Compare) and len(nxt.test.ops) == 1 \
                    and isinstance(nxt.test.ops[0], ast.Lt) \
                    and isinstance(nxt.test.left, ast.Name) \
                    and nxt.test.left.id == st.targets[0].id and len(nxt.body) >= 2:
                n = st.targets[0].id
                bound = nxt.test.comparators[0]
                last = nxt.body[-1]
                body = nxt.body[:-1]
                incr = isinstance(last, ast.AugAssign) and isinstance(last.op, ast.Add) \
                    and isinstance(last.target, ast.Name) and last.target.id == n \
                    and isinstance(last.value, ast.Constant) and last.value.value == 1
                reads = {x.id for x in ast.walk(bound) if isinstance(x, ast.Name)}
                stored = {x.id for b in body for x in ast.walk(b) if isinstance(x, ast.Name)
                          and isinstance(x.ctx, (ast.Store, ast.Del))}
                pure_bound = all(isinstance(x, (ast.Name, ast.Constant, ast.Load, ast.Attribute,
                                                ast.BinOp, ast.operator))
                                 or (isinstance(x, ast.Call) and isinstance(x.func, ast.Name)
                                     and x.func.id == "len") for x in ast.walk(bound))
                used_after = any(isinstance(x, ast.Name) and x.id == n
                                 for r in block[i + 2:] + after_fn for x in ast.walk(r))
                if incr and pure_bound and n not in stored and not (reads & stored) \
                        and not _jumps_out_continue(body) and not used_after:
                    loop = ast.For(target=ast.Name(id=n, ctx=ast.Store()),
                                   iter=ast.Call(func=ast.Name(id="range", ctx=ast.Load()),
                                                 args=[bound], keywords=[]),
                                   body=body, orelse=[])
                    out.append(ast.copy_location(loop, nxt))
                    i += 2
                    continue
            out.append(st)
            i += 1
        return out
    for F in [n for n in ast.walk(tree) if isinstance(n, ast.FunctionDef)]:
        for n in ast.walk(F):
            for field in ("body", "orelse", "finalbody"):
                blk = getattr(n, field, None)
                if isinstance(blk, list) and blk and isinstance(blk[0], ast.stmt) \
                        and any(isinstance(x, ast.While) for x in blk):
                    # statements that may run after this block: only the function's own
                    # top-level block is handled precisely, nested blocks conservatively
                    after = [] if n is F else list(F.body)
                    setattr(n, field, rewrite(blk, after))
    ast.fix_missing_locations(tree)
    return tree


def _jumps_out_continue(body):
    todo = list(body)
    while todo:
        n = todo.pop()
        if isinstance(n, ast.Continue):
            return True
        if isinstance(n, (ast.For, ast.While, ast.FunctionDef, ast.Lambda, ast.ClassDef)):
            continue
        todo.extend(ast.iter_child_nodes(n))
    return False


def canonicalise(tree, sigs=None, pkg_methods=None):
    for n in ast.walk(tree):
        if hasattr(n, "lineno"):
            n.__dict__["_src_line"] = n.lineno
    tree = std_spellings(tree)
    tree = next_to_loop(tree)
    tree = counting_while_to_for(tree)
    tree = lift_closures(tree)
    tree = private_objects(tree)
    tree = module_constants(tree)
    if sigs:
        tree = _KwToPos(sigs).visit(tree)
    classes = _namedtuple_classes(tree)
    for _round in range(3):
        before = ast.dump(tree) if _round else None
        _Inliner(tree, pkg_methods).run()
        n_defs = len(tree.body)
        tree = lift_closures(tree)          # lambdas handed to a helper that is now open
        if len(tree.body) != n_defs:
            _Inliner(tree, pkg_methods).run()
        if classes:
            for f in [n for n in ast.walk(tree) if isinstance(n, ast.FunctionDef)]:
                split_records(f, classes)
        _mark_unrollable(tree)
        tree.body = simplify_block(tree.body)
        if _round and ast.dump(tree) == before:
            break
        if not any(isinstance(n, ast.Call) and _Inliner._private(
                _unparse(n.func).split(".")[-1]) for n in ast.walk(tree)):
            break
    tree = objects_to_locals(tree)
    tree = module_constants(tree)       # tables that reached a loop header through a parameter
    tree = _KeysNorm().visit(tree)
    tree.body = canon_block(tree.body)
    if _OPS_PASS is not None:
        tree = _OPS_PASS().visit(tree)       # partial(F, a)(x) exposed by the loop rewrites
        for fn in [n for n in ast.walk(tree) if isinstance(n, ast.FunctionDef)]:
            _apply_partials(fn, _partial_defs(fn.body, ast.walk(fn)))
        ast.fix_missing_locations(tree)
        helpers_again = _Inliner(tree, pkg_methods)
        if any(isinstance(n, ast.Call) and helpers_again.target(n) for n in ast.walk(tree)):
            helpers_again.run()
            tree.body = simplify_block(tree.body)
            tree.body = canon_block(tree.body)
    for f in [n for n in ast.walk(tree) if isinstance(n, ast.FunctionDef)]:
        if not any(isinstance(n, (ast.Global, ast.Nonlocal)) for n in ast.walk(f)):
            block_propagate(f.body, {})
    ast.fix_missing_locations(tree)
    renumber(tree)
    propagate_all(tree)
    for x in ast.walk(tree):
        x.__dict__.pop("_cparent", None)
    # propagation may have exposed further simplifications (aliases of tested names)
    before = ast.dump(tree)
    _mark_unrollable(tree)
    tree.body = simplify_block(tree.body)
    if ast.dump(tree) != before:
        tree.body = canon_block(tree.body)
        ast.fix_missing_locations(tree)
        renumber(tree)
        propagate_all(tree)
        for x in ast.walk(tree):
            x.__dict__.pop("_cparent", None)
    ast.fix_missing_locations(tree)
    renumber(tree)
    return tree
