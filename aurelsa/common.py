"""Common infrastructure of the aurel static analysers: source loading, rule bookkeeping,
reports, evidence files, known findings, exit codes.

Nothing in this package imports or executes aurel.  Every run parses the current working tree
under $AUREL_REPO (default /repo).
"""
from __future__ import annotations

import ast
import hashlib
import json
import os
import sys
import time
import traceback

VERIF = os.path.dirname(os.path.dirname(os.path.abspath(__file__)))
REPO = os.environ.get("AUREL_REPO", "/repo")
SRC = os.path.join(REPO, "src", "aurel")


class AnalysisError(Exception):
    """The analyser could not do its job (vanished anchor, unrecognised construct, instance
    count below the floor).  Reported as ANALYSIS-ERROR, exit 2 -- never a silent pass and
    never disguised as a violation."""


# --------------------------------------------------------------------------------------------
# source loading
# --------------------------------------------------------------------------------------------
class Sources:
    def __init__(self, root=None):
        self.root = root or SRC
        self._mods = {}
        self._sigs = None
        self.digests = {}

    def path(self, rel):
        return os.path.join(self.root, rel)

    def text(self, rel):
        p = self.path(rel)
        if not os.path.exists(p):
            raise AnalysisError(f"anchor file vanished: {p}")
        with open(p, "rb") as f:
            b = f.read()
        self.digests[rel] = hashlib.sha256(b).hexdigest()[:16]
        return b.decode("utf-8")

    def module(self, rel) -> ast.Module:
        if rel not in self._mods:
            txt = self.text(rel)
            try:
                tree = ast.parse(txt, filename=rel)
            except SyntaxError as e:
                raise AnalysisError(f"{rel} does not parse: {e}") from e
            if os.environ.get("AUREL_NO_CANON") != "1":
                from . import canon
                sigs = self._signatures()
                tree = canon.canonicalise(tree, sigs, getattr(self, "_pkg_methods", None))
                try:        # the canonical form must still be a program
                    compile(tree, rel, "exec")
                except (SyntaxError, ValueError, TypeError) as e:
                    raise AnalysisError(f"{rel}: canonical form does not compile: {e}") from e
            singles = (ast.expr_context, ast.operator, ast.cmpop, ast.boolop, ast.unaryop)
            for node in ast.walk(tree):
                for ch in ast.iter_child_nodes(node):
                    if not isinstance(ch, singles):   # these instances are shared by all trees
                        ch._parent = node
            tree._rel = rel
            self._mods[rel] = tree
        return self._mods[rel]

    def _signatures(self):
        """parameter lists of the package's functions (for keyword -> positional rewriting)"""
        if self._sigs is None:
            from . import canon
            trees = []
            for rel in self.all_py():
                try:
                    with open(self.path(rel), "rb") as f:
                        trees.append(ast.parse(f.read().decode("utf-8")))
                except (SyntaxError, OSError):
                    continue
            self._sigs = canon._signatures(trees)
            self._pkg_methods = canon._package_private_methods(trees)
        return self._sigs

    def yaml(self, rel):
        import yaml
        return yaml.safe_load(self.text(rel))

    def functions(self, rel):
        """dict qualified name -> FunctionDef for top-level functions and class methods."""
        out = {}
        tree = self.module(rel)
        for node in tree.body:
            if isinstance(node, (ast.FunctionDef, ast.AsyncFunctionDef)):
                out[node.name] = node
            elif isinstance(node, ast.ClassDef):
                for sub in node.body:
                    if isinstance(sub, (ast.FunctionDef, ast.AsyncFunctionDef)):
                        out[f"{node.name}.{sub.name}"] = sub
        return out

    def function(self, rel, qual):
        fns = self.functions(rel)
        if qual not in fns:
            raise AnalysisError(f"anchor vanished: {rel}::{qual}")
        return fns[qual]

    def all_py(self):
        out = []
        for dp, _dn, fn in os.walk(self.root):
            for f in sorted(fn):
                if f.endswith(".py"):
                    out.append(os.path.relpath(os.path.join(dp, f), self.root))
        return sorted(out)


def unparse(node):
    try:
        return ast.unparse(node)
    except Exception:  # pragma: no cover
        return f"<{type(node).__name__}>"


def norm_src(node):
    """Normalised statement/expression text used in construct keys (no line numbers)."""
    return " ".join(unparse(node).split())


def lineno(node):
    """line in the file (the canonical tree numbers its statements in its own order)"""
    src = getattr(node, "_src_line", None)
    return src if src else getattr(node, "lineno", 0)


def all_paths_return(block):
    """does every path through this statement list end in a `return` (never fall off the end,
    never raise at the end)?"""
    if not block:
        return False
    last = block[-1]
    if isinstance(last, ast.Return):
        return True
    if isinstance(last, ast.If):
        return bool(last.orelse) and all_paths_return(last.body) \
            and all_paths_return(last.orelse)
    if isinstance(last, (ast.With,)):
        return all_paths_return(last.body)
    if isinstance(last, ast.Try):
        return all_paths_return(last.body) and all(all_paths_return(h.body)
                                                   for h in last.handlers)
    return False


def call_arg(call, pos, name=None):
    """argument of a call by position or keyword"""
    if len(call.args) > pos and not any(isinstance(a, ast.Starred) for a in call.args[:pos + 1]):
        return call.args[pos]
    if name is not None:
        for k in call.keywords:
            if k.arg == name:
                return k.value
    return None


# --------------------------------------------------------------------------------------------
# findings and report
# --------------------------------------------------------------------------------------------
class Finding:
    def __init__(self, rule, construct, message, file="", line=0, extra=None):
        self.rule = rule
        self.construct = construct
        self.message = message
        self.file = file
        self.line = line
        self.extra = extra or {}

    def as_dict(self):
        d = dict(rule=self.rule, construct=self.construct, message=self.message, file=self.file,
                 line=self.line)
        d.update(self.extra)
        return d


class Report:
    """Collects rule instances for one property check."""

    def __init__(self, prop, tier="quick", level="other"):
        self.prop = prop
        self.tier = tier
        self.level = level
        self.t0 = time.time()
        self.rules = {}       # rule -> dict(instances, held, violated, unverified, samples)
        self.findings = []    # violations (Finding)
        self.notes = []       # free text lines for evidence
        self.assumptions = []
        self.floors = {}
        self.ceilings = {}      # rule -> minimum number of instances
        self.sources = Sources()
        self.extra_cov = {}
        self.distinct = set()
        self.explanation = ""
        self.trusted_base = []
        self.only = None      # replay filter: (rule, construct)

    # -- rule bookkeeping ---------------------------------------------------------------
    def _r(self, rule):
        return self.rules.setdefault(rule, dict(instances=0, held=0, violated=0, unverified=0,
                                                samples=[]))

    def floor(self, rule, n):
        self.floors[rule] = n
        self._r(rule)

    def ok(self, rule, construct, detail=None):
        r = self._r(rule)
        r["instances"] += 1
        r["held"] += 1
        self.distinct.add((rule, construct))
        if detail is not None and len(r["samples"]) < 3:
            r["samples"].append({"construct": construct, "detail": detail})

    def unverified(self, rule, construct, why):
        r = self._r(rule)
        r["instances"] += 1
        r["unverified"] += 1
        self.notes.append(f"UNVERIFIED {rule} {construct}: {why}")

    def violation(self, rule, construct, message, node=None, file="", extra=None):
        r = self._r(rule)
        r["instances"] += 1
        r["violated"] += 1
        self.distinct.add((rule, construct))
        line = lineno(node) if node is not None else 0
        if node is not None and not file:
            n = node
            while n is not None and not hasattr(n, "_rel"):
                n = getattr(n, "_parent", None)
            file = getattr(n, "_rel", "") if n is not None else ""
        self.findings.append(Finding(rule, construct, message, file, line, extra))

    def check(self, cond, rule, construct, message, node=None, detail=None, file=""):
        if cond:
            self.ok(rule, construct, detail)
        else:
            self.violation(rule, construct, message, node=node, file=file)
        return cond

    def note(self, s):
        self.notes.append(s)

    def assume(self, s):
        if s not in self.assumptions:
            self.assumptions.append(s)

    def require(self, cond, msg):
        if not cond:
            raise AnalysisError(msg)

    def ceiling(self, rule, n):
        """at most n unverified instances of this rule (what the analyser does not understand
        today); more means the code moved away from what is understood: not a silent pass"""
        self.ceilings[rule] = n

    # -- finishing -----------------------------------------------------------------------
    def finish(self):
        for rule, n in self.ceilings.items():
            got = self.rules.get(rule, {}).get("unverified", 0)
            if got > n and not self.findings:
                why = "; ".join(x for x in self.notes if x.startswith("UNVERIFIED " + rule))[:400]
                raise AnalysisError(f"rule {rule}: {got} instance(s) could not be interpreted "
                                    f"(at most {n} expected): {why}")
        for rule, n in self.floors.items():
            got = self.rules[rule]["instances"]
            if got < n:
                msg = (f"rule {rule}: matched {got} instance(s), floor is {n} -- the rule would "
                       "pass vacuously; the code moved away from what the analyser understands")
                if self.findings:
                    # a violation was already located: report it rather than the shortfall
                    # (a malformed construct usually causes both)
                    self.notes.append("FLOOR " + msg)
                    print("NOTE " + msg)
                else:
                    raise AnalysisError(msg)
        known = load_known()
        new, listed = [], []
        for f in self.findings:
            if self.only and (f.rule, f.construct) != self.only:
                continue
            k = match_known(known, self.prop, f)
            (listed if k else new).append((f, k))
        for f, k in listed:
            print(f"KNOWN-FINDING: property={self.prop} {f.rule} {f.construct}: "
                  f"{k.get('what_fails', f.message)}")
        rdir = os.path.join(VERIF, "evidence", "replay")
        for i, (f, _k) in enumerate(new):
            os.makedirs(rdir, exist_ok=True)
            rp = os.path.join(rdir, f"{self.prop}-{i}.json")
            with open(rp, "w") as fh:
                json.dump(dict(property=self.prop, **f.as_dict()), fh, indent=1)
            loc = f"{f.file}:{f.line}" if f.file else ""
            print(f"FINDING {self.prop} [{f.rule}] {loc} {f.construct}: {f.message}")
            print(f"VIOLATION property={self.prop} replay={rp}")
        self._write_evidence(len(new), len(listed))
        tot = sum(r["instances"] for r in self.rules.values())
        print(f"{self.prop} {self.tier}: {len(self.rules)} rules, {tot} instances, "
              f"{len(new)} violation(s), {len(listed)} known finding(s), "
              f"{time.time()-self.t0:.2f}s")
        return 1 if new else 0

    def _write_evidence(self, nviol, nknown):
        tot = sum(r["instances"] for r in self.rules.values())
        samples = []
        for rule, r in self.rules.items():
            for s in r["samples"][:2]:
                samples.append({"rule": rule, **s})
        samples = samples[:24] or [{"note": "no instance recorded"}]
        cov = {
            "explanation": self.explanation,
            "evaluations": tot,
            "distinct_nontrivial": len(self.distinct),
            "rule": ("one evaluation = one rule instance (a call site, branch, table entry, "
                     "obligation or path) decided on the parsed source of this run; distinct = "
                     "distinct (rule, construct-key) pairs with a non-empty obligation"),
            "samples": samples,
            "rules": {k: {kk: vv for kk, vv in v.items() if kk != "samples"}
                      for k, v in self.rules.items()},
            "files_analysed": self.sources.digests,
            "known_findings": nknown,
            "notes": self.notes[:60],
        }
        if self.level == "proof":
            held = sum(r["held"] for r in self.rules.values())
            cov.update(obligations=tot, discharged=held,
                       checker_cmd=f"./check {self.prop} --tier {self.tier}",
                       trusted_base=self.trusted_base or
                       ["CPython ast/fractions", "aurelsa normalisers"])
        cov.update(self.extra_cov)
        ev = dict(property_id=self.prop, tier=self.tier,
                  seed=int(os.environ.get("VERIF_SEED", "0") or 0), level=self.level,
                  coverage=cov, assumptions=self.assumptions,
                  wall_s=round(time.time() - self.t0, 3), violations=nviol)
        edir = os.path.join(VERIF, "evidence")
        os.makedirs(edir, exist_ok=True)
        if os.environ.get("AUREL_NO_EVIDENCE"):
            return
        with open(os.path.join(edir, f"{self.prop}.json"), "w") as fh:
            json.dump(ev, fh, indent=1, default=str)


# --------------------------------------------------------------------------------------------
# known findings
# --------------------------------------------------------------------------------------------
def load_known():
    p = os.path.join(VERIF, "known_findings.json")
    if not os.path.exists(p):
        return []
    with open(p) as f:
        return json.load(f).get("known", [])


def match_known(known, prop, finding):
    for k in known:
        if k.get("property") == prop and k.get("rule") == finding.rule \
                and k.get("construct") == finding.construct:
            return k
    return None


# --------------------------------------------------------------------------------------------
# driver
# --------------------------------------------------------------------------------------------
def run_check(prop, fn, tier, level="other", replay=None):
    """fn(report) performs the analysis.  Returns the process exit code."""
    rep = Report(prop, tier, level)
    if replay:
        with open(replay) as f:
            r = json.load(f)
        rep.only = (r["rule"], r["construct"])
    try:
        fn(rep)
        return rep.finish()
    except AnalysisError as e:
        if rep.findings:
            # violations were already located before the analyser met something it does not
            # understand (usually the same malformed construct): report them, keep the
            # shortfall as a note -- an analysis error never masks a located violation
            print(f"NOTE analysis incomplete: {e}")
            rep.notes.append(f"analysis incomplete: {e}")
            rep.floors = {}
            try:
                rc = rep.finish()
            except AnalysisError as e2:
                print(f"ANALYSIS-ERROR property={prop}: {e2}")
                return 2
            if rc == 1:
                return 1
        print(f"ANALYSIS-ERROR property={prop}: {e}")
        return 2
    except Exception:  # noqa: BLE001
        traceback.print_exc()
        if rep.findings:
            print("NOTE analysis incomplete: internal error in the analyser (traceback above)")
            rep.notes.append("analysis incomplete: internal error")
            rep.floors = {}
            try:
                if rep.finish() == 1:
                    return 1
            except Exception:  # noqa: BLE001
                pass
        print(f"ANALYSIS-ERROR property={prop}: internal error in the analyser (traceback "
              "above)")
        return 2


def eprint(*a):
    print(*a, file=sys.stderr)
