"""Definite-assignment / stale-value analysis (must-assigned dataflow over statements).

For every function: the set of local names that are *certainly* bound at each program point,
with loops allowed to run zero times, `try` bodies allowed to stop anywhere, and -- the point
for the stale-value rule -- the body of a loop analysed from the state *before* the loop, so
that a name bound only by a previous iteration does not count as bound in this one.  A use of
a local name outside the must-set is reported: at run time it is either an UnboundLocalError
or the value left over from an earlier iteration / restart / file.
"""
from __future__ import annotations

import ast
import builtins

from .common import norm_src


class Use:
    def __init__(self, fn, name, node):
        self.fn, self.name, self.node = fn, name, node


def local_names(fn):
    names = set()
    for n in ast.walk(fn):
        if isinstance(n, ast.Name) and isinstance(n.ctx, (ast.Store, ast.Del)):
            names.add(n.id)
        elif isinstance(n, (ast.FunctionDef, ast.ClassDef)) and n is not fn:
            names.add(n.name)
        elif isinstance(n, ast.ExceptHandler) and n.name:
            names.add(n.name)
        elif isinstance(n, (ast.Import, ast.ImportFrom)):
            for a in n.names:
                names.add((a.asname or a.name).split(".")[0])
    for n in ast.walk(fn):
        if isinstance(n, (ast.Global, ast.Nonlocal)):
            names -= set(n.names)
    return names


def analyse_function(qual, fn):
    params = {a.arg for a in fn.args.args + fn.args.kwonlyargs + fn.args.posonlyargs}
    if fn.args.vararg:
        params.add(fn.args.vararg.arg)
    if fn.args.kwarg:
        params.add(fn.args.kwarg.arg)
    locs = local_names(fn) - params
    uses = []

    def expr(node, must):
        """record uses of unbound locals inside an expression (comprehension scopes handled)"""
        if node is None:
            return
        if isinstance(node, (ast.ListComp, ast.SetComp, ast.GeneratorExp, ast.DictComp)):
            inner = set(must)
            for g in node.generators:
                expr(g.iter, inner)
                for t in ast.walk(g.target):
                    if isinstance(t, ast.Name):
                        inner.add(t.id)
                for c in g.ifs:
                    expr(c, inner)
            if isinstance(node, ast.DictComp):
                expr(node.key, inner)
                expr(node.value, inner)
            else:
                expr(node.elt, inner)
            return
        if isinstance(node, ast.Lambda):
            inner = set(must) | {a.arg for a in node.args.args}
            expr(node.body, inner)
            return
        if isinstance(node, ast.Name):
            if isinstance(node.ctx, ast.Load) and node.id in locs and node.id not in must:
                uses.append(Use(qual, node.id, node))
            return
        if isinstance(node, ast.NamedExpr):
            expr(node.value, must)
            must.add(node.target.id)
            return
        if isinstance(node, ast.BoolOp):
            # short circuit: only the first operand is certainly evaluated
            expr(node.values[0], must)
            for v in node.values[1:]:
                expr(v, set(must))
            return
        if isinstance(node, ast.IfExp):
            expr(node.test, must)
            expr(node.body, set(must))
            expr(node.orelse, set(must))
            return
        for ch in ast.iter_child_nodes(node):
            if isinstance(ch, ast.expr):
                expr(ch, must)
            elif isinstance(ch, (ast.comprehension, ast.keyword, ast.Slice)):
                for x in ast.iter_child_nodes(ch):
                    if isinstance(x, ast.expr):
                        expr(x, must)

    def bind(target, must):
        for t in ast.walk(target):
            if isinstance(t, ast.Name) and isinstance(t.ctx, ast.Store):
                must.add(t.id)
            elif isinstance(t, (ast.Subscript, ast.Attribute)) and isinstance(t.ctx, ast.Store):
                expr(t.value, must)
                if isinstance(t, ast.Subscript):
                    expr(t.slice, must)

    class Jump(Exception):
        pass

    break_states = []

    def block(stmts, must):
        """returns (must-set at fall-through, falls_through: bool)"""
        for st in stmts:
            ft = stmt(st, must)
            if not ft:
                return must, False
        return must, True

    def stmt(st, must):
        if isinstance(st, ast.Assign):
            expr(st.value, must)
            for t in st.targets:
                bind(t, must)
        elif isinstance(st, ast.AnnAssign):
            expr(st.value, must)
            if st.value is not None:
                bind(st.target, must)
        elif isinstance(st, ast.AugAssign):
            expr(st.value, must)
            if isinstance(st.target, ast.Name):
                if st.target.id in locs and st.target.id not in must:
                    uses.append(Use(qual, st.target.id, st.target))
                must.add(st.target.id)
            else:
                expr(st.target.value, must)
        elif isinstance(st, ast.Expr):
            expr(st.value, must)
        elif isinstance(st, ast.Return):
            expr(st.value, must)
            return False
        elif isinstance(st, ast.Raise):
            expr(st.exc, must)
            return False
        elif isinstance(st, ast.Break):
            if break_states:
                break_states[-1].append(set(must))
            return False
        elif isinstance(st, ast.Continue):
            return False
        elif isinstance(st, ast.Delete):
            for t in st.targets:
                if isinstance(t, ast.Name):
                    must.discard(t.id)
                else:
                    expr(t, must)
        elif isinstance(st, ast.If):
            expr(st.test, must)
            m1, f1 = block(st.body, set(must))
            m2, f2 = block(st.orelse, set(must))
            if f1 and f2:
                new = m1 & m2
            elif f1:
                new = m1
            elif f2:
                new = m2
            else:
                return False
            must.clear()
            must.update(new)
        elif isinstance(st, (ast.For, ast.AsyncFor)):
            expr(st.iter, must)
            inner = set(must)
            bind(st.target, inner)
            break_states.append([])
            block(st.body, inner)          # from the state before the loop: stale-value rule
            exits = break_states.pop()
            # the loop is left by a break, or by exhaustion through the else clause (zero
            # iterations possible: from what was bound before the loop)
            m2, f2 = block(st.orelse, set(must))
            if f2:
                exits.append(m2)
            if not exits:
                return False
            new = set.intersection(*exits)
            must.clear()
            must.update(new)
        elif isinstance(st, ast.While):
            expr(st.test, must)
            break_states.append([])
            block(st.body, set(must))
            break_states.pop()
            block(st.orelse, set(must))
            if isinstance(st.test, ast.Constant) and st.test.value is True:
                pass
        elif isinstance(st, (ast.With, ast.AsyncWith)):
            for it in st.items:
                expr(it.context_expr, must)
                if it.optional_vars is not None:
                    bind(it.optional_vars, must)
            m, f = block(st.body, must)
            return f
        elif isinstance(st, ast.Try):
            before = set(must)
            m1, f1 = block(st.body, set(must))
            outs = []
            if f1:
                m_else, f_else = block(st.orelse, set(m1))
                if f_else:
                    outs.append(m_else)
            for h in st.handlers:
                hm = set(before)      # the body may have stopped anywhere
                if h.name:
                    hm.add(h.name)
                mh, fh = block(h.body, hm)
                if fh:
                    outs.append(mh)
            if not outs:
                new = None
            else:
                new = set.intersection(*outs)
            if st.finalbody:
                base = set(before) if new is None else set(new)
                mf, ff = block(st.finalbody, base)
                if not ff:
                    return False
                if new is not None:
                    new = mf
            if new is None:
                return False
            must.clear()
            must.update(new)
        elif isinstance(st, (ast.FunctionDef, ast.ClassDef)):
            must.add(st.name)
        elif isinstance(st, (ast.Import, ast.ImportFrom)):
            for a in st.names:
                must.add((a.asname or a.name).split(".")[0])
        elif isinstance(st, (ast.Pass, ast.Global, ast.Nonlocal)):
            pass
        elif isinstance(st, ast.Assert):
            expr(st.test, must)
        else:
            for ch in ast.iter_child_nodes(st):
                if isinstance(ch, ast.expr):
                    expr(ch, must)
        return True

    block(fn.body, set())
    # deduplicate by (name, statement text)
    out, seen = [], set()
    for u in uses:
        st = u.node
        while st is not None and not isinstance(st, ast.stmt):
            st = getattr(st, "_parent", None)
        k = (u.name, norm_src(st)[:80] if st is not None else "")
        if k not in seen:
            seen.add(k)
            u.stmt = st
            out.append(u)
    return out


_BUILTINS = set(dir(builtins))


def analyse_module(sources, rel):
    out = []
    for qual, fn in sources.functions(rel).items():
        out.extend(analyse_function(f"{rel}::{qual}", fn))
    return out
