"""Exact abstract domains: rational constants, affine forms in named symbols, linear forms
over stencil offsets, and polynomials over opaque atoms.  All arithmetic is in Fractions."""
from __future__ import annotations

import ast
from fractions import Fraction

from .common import AnalysisError, unparse


# --------------------------------------------------------------------------------------------
# constant folding
# --------------------------------------------------------------------------------------------
def const_value(node, env=None):
    """Fold a numeric constant expression to a Fraction, or return None."""
    env = env or {}
    if isinstance(node, ast.Constant):
        if isinstance(node.value, bool):
            return None
        if isinstance(node.value, int):
            return Fraction(node.value)
        if isinstance(node.value, float):
            f = Fraction(node.value).limit_denominator(10**6)
            if float(f) == node.value:
                return f
            return Fraction(node.value)
        return None
    if isinstance(node, ast.Name) and node.id in env:
        return env[node.id]
    if isinstance(node, ast.UnaryOp):
        v = const_value(node.operand, env)
        if v is None:
            return None
        if isinstance(node.op, ast.USub):
            return -v
        if isinstance(node.op, ast.UAdd):
            return v
        return None
    if isinstance(node, ast.BinOp):
        a, b = const_value(node.left, env), const_value(node.right, env)
        if a is None or b is None:
            return None
        if isinstance(node.op, ast.Add):
            return a + b
        if isinstance(node.op, ast.Sub):
            return a - b
        if isinstance(node.op, ast.Mult):
            return a * b
        if isinstance(node.op, ast.Div):
            if b == 0:
                return None
            return a / b
        if isinstance(node.op, ast.FloorDiv):
            if b == 0:
                return None
            return Fraction((a / b).__floor__())
        if isinstance(node.op, ast.Pow):
            if b.denominator == 1 and abs(b) < 64:
                if b >= 0:
                    return a ** int(b)
                if a != 0:
                    return a ** int(b)
            return None
    if isinstance(node, ast.Call) and isinstance(node.func, ast.Name) \
            and node.func.id in ("int", "float") and len(node.args) == 1:
        v = const_value(node.args[0], env)
        if v is None:
            return None
        if node.func.id == "int":
            return Fraction(int(v))  # truncation toward zero, like int()
        return v
    return None


# --------------------------------------------------------------------------------------------
# affine forms  c0 + sum c_s * s
# --------------------------------------------------------------------------------------------
class Aff:
    __slots__ = ("c", "t")

    def __init__(self, c=0, t=None):
        self.c = Fraction(c)
        self.t = {k: Fraction(v) for k, v in (t or {}).items() if v != 0}

    @staticmethod
    def sym(name):
        return Aff(0, {name: 1})

    def __add__(self, o):
        o = aff(o)
        t = dict(self.t)
        for k, v in o.t.items():
            t[k] = t.get(k, 0) + v
        return Aff(self.c + o.c, t)

    __radd__ = __add__

    def __neg__(self):
        return Aff(-self.c, {k: -v for k, v in self.t.items()})

    def __sub__(self, o):
        return self + (-aff(o))

    def __rsub__(self, o):
        return aff(o) - self

    def scale(self, f):
        f = Fraction(f)
        return Aff(self.c * f, {k: v * f for k, v in self.t.items()})

    def is_const(self):
        return not self.t

    def __eq__(self, o):
        if not isinstance(o, Aff):
            if isinstance(o, bool) or not isinstance(o, (int, Fraction)):
                return False
            o = Aff(o)
        return self.c == o.c and self.t == o.t

    def __hash__(self):
        return hash((self.c, tuple(sorted(self.t.items()))))

    def subs(self, **kw):
        r = Aff(self.c)
        for k, v in self.t.items():
            if k in kw:
                r = r + aff(kw[k]).scale(v)
            else:
                r = r + Aff(0, {k: v})
        return r

    def __repr__(self):
        parts = []
        for k in sorted(self.t):
            v = self.t[k]
            parts.append(f"{'' if v == 1 else ('-' if v == -1 else str(v) + '*')}{k}")
        if self.c != 0 or not parts:
            parts.append(str(self.c))
        return " + ".join(parts).replace("+ -", "- ")


def aff(x):
    if isinstance(x, Aff):
        return x
    return Aff(x)


def aff_eval(node, env):
    """Evaluate an integer-valued expression to an affine form.  env maps source text of
    sub-expressions or names to Aff.  Returns None when not affine."""
    key = unparse(node)
    if key in env:
        return env[key]
    v = const_value(node)
    if v is not None:
        return Aff(v)
    if isinstance(node, ast.Name):
        return env.get(node.id)
    if isinstance(node, ast.UnaryOp) and isinstance(node.op, ast.USub):
        a = aff_eval(node.operand, env)
        return None if a is None else -a
    if isinstance(node, ast.BinOp):
        a, b = aff_eval(node.left, env), aff_eval(node.right, env)
        if a is None or b is None:
            return None
        if isinstance(node.op, ast.Add):
            return a + b
        if isinstance(node.op, ast.Sub):
            return a - b
        if isinstance(node.op, ast.Mult):
            if a.is_const():
                return b.scale(a.c)
            if b.is_const():
                return a.scale(b.c)
            return None
        if isinstance(node.op, (ast.Div, ast.FloorDiv)) and b.is_const() and b.c != 0:
            r = a.scale(1 / b.c)
            return r
    if isinstance(node, ast.Call) and isinstance(node.func, ast.Name) \
            and node.func.id == "int" and len(node.args) == 1:
        return aff_eval(node.args[0], env)
    return None


# --------------------------------------------------------------------------------------------
# polynomials over opaque atoms (monomial = sorted tuple of atom names with multiplicity)
# --------------------------------------------------------------------------------------------
class Poly:
    __slots__ = ("m",)

    def __init__(self, m=None):
        self.m = {k: Fraction(v) for k, v in (m or {}).items() if v != 0}

    @staticmethod
    def const(c):
        return Poly({(): c})

    @staticmethod
    def atom(name):
        return Poly({(name,): 1})

    def __add__(self, o):
        o = poly(o)
        m = dict(self.m)
        for k, v in o.m.items():
            m[k] = m.get(k, 0) + v
        return Poly(m)

    __radd__ = __add__

    def __neg__(self):
        return Poly({k: -v for k, v in self.m.items()})

    def __sub__(self, o):
        return self + (-poly(o))

    def __rsub__(self, o):
        return poly(o) - self

    def __mul__(self, o):
        o = poly(o)
        m = {}
        for k1, v1 in self.m.items():
            for k2, v2 in o.m.items():
                k = tuple(sorted(k1 + k2))
                m[k] = m.get(k, 0) + v1 * v2
        return Poly(m)

    __rmul__ = __mul__

    def __pow__(self, n):
        r = Poly.const(1)
        for _ in range(int(n)):
            r = r * self
        return r

    def __eq__(self, o):
        return self.m == poly(o).m

    def __hash__(self):
        return hash(tuple(sorted(self.m.items())))

    def is_zero(self):
        return not self.m

    def is_const(self):
        return all(k == () for k in self.m)

    def const_value(self):
        return self.m.get((), Fraction(0))

    def atoms(self):
        return {a for k in self.m for a in k}

    def subs(self, mapping):
        """mapping atom -> Poly"""
        r = Poly()
        for k, v in self.m.items():
            t = Poly.const(v)
            for a in k:
                t = t * (mapping[a] if a in mapping else Poly.atom(a))
            r = r + t
        return r

    def __repr__(self):
        if not self.m:
            return "0"
        parts = []
        for k in sorted(self.m):
            v = self.m[k]
            mon = "*".join(k) if k else ""
            if mon:
                parts.append(f"{'' if v == 1 else ('-' if v == -1 else str(v) + '*')}{mon}")
            else:
                parts.append(str(v))
        return " + ".join(parts).replace("+ -", "- ")


def poly(x):
    if isinstance(x, Poly):
        return x
    return Poly.const(x)


def poly_eval(node, env, atomiser=None):
    """Expand an arithmetic expression into a Poly.  `env` maps names to Poly.  `atomiser`
    (node -> atom name or None) turns an otherwise opaque sub-expression into an atom.
    Raises AnalysisError on constructs that are not polynomial."""
    v = const_value(node)
    if v is not None:
        return Poly.const(v)
    if isinstance(node, ast.Name):
        if node.id in env:
            return env[node.id]
        if atomiser:
            a = atomiser(node)
            if a is not None:
                return Poly.atom(a)
        raise AnalysisError(f"poly: unbound name {node.id}")
    if isinstance(node, ast.UnaryOp):
        p = poly_eval(node.operand, env, atomiser)
        if isinstance(node.op, ast.USub):
            return -p
        if isinstance(node.op, ast.UAdd):
            return p
    if isinstance(node, ast.BinOp):
        if isinstance(node.op, ast.Pow):
            e = const_value(node.right)
            if e is not None and e.denominator == 1 and 0 <= e < 16:
                return poly_eval(node.left, env, atomiser) ** int(e)
        else:
            a = poly_eval(node.left, env, atomiser)
            b = poly_eval(node.right, env, atomiser)
            if isinstance(node.op, ast.Add):
                return a + b
            if isinstance(node.op, ast.Sub):
                return a - b
            if isinstance(node.op, ast.Mult):
                return a * b
            if isinstance(node.op, ast.Div) and b.is_const() and b.const_value() != 0:
                return a * Poly.const(1 / b.const_value())
    if atomiser:
        a = atomiser(node)
        if a is not None:
            return Poly.atom(a)
    raise AnalysisError(f"poly: cannot expand {unparse(node)}")
