"""Symbolic interpreter for the array plumbing of finitedifference.py (C07, C16).

Functions are interpreted on symbolic arguments; values are small terms:

  Aff                          integer/affine scalar (grid size N symbolic, mask_len concrete)
  ('param', name)              an argument of the function being interpreted
  ('attr', text)               an attribute / parameter-table entry that is not modelled
  ('const', v)                 a python constant (str, None, tuple of ints)
  ('role', r)                  self.forward / self.centered / self.backward
  ('slice', base, lo, hi, st)  base[lo:hi:st] along axis 0 (lo/hi Aff or None)
  ('cat', (v, ...))            np.concatenate along axis 0
  ('pad', base, a, b, mode)    np.pad along axis 0
  ('T', base, perm)            np.transpose
  ('call', f, (args...))       call of a parameter / module function kept symbolic
  ('mcall', name, (args...))   self.<name>(...) kept symbolic
  ('list', var, iter, elt)     [elt for var in iter]  (also from  acc = []; for ...: acc += [elt])
  ('range', lo, hi)            range / np.arange with affine bounds
  ('idx', base, (i, ...))      base[i, ...] with symbolic indices
  ('sym', name)                loop variable
  ('shape', base, k)           np.shape(base)[k]
  ('tuple', (v, ...)), ('arr', v)  tuple display, np.array(v) / np.stack(v)
  ('cond', test, a, b)         value selected by a test (from if/else, both returning)

Names are looked up in an environment, so temporaries, aliases and renamings are invisible;
the canonical form (aurelsa.canon) has already removed private helpers, keyword spellings
and early-return guards."""
from __future__ import annotations

import ast

from .common import AnalysisError, unparse
from .exact import Aff, const_value


class NotUnderstood(AnalysisError):
    pass


class FDInterp:
    def __init__(self, mask_len=None, what="finitedifference.py"):
        self.m = mask_len
        self.what = what

    def fail(self, node, why="not understood"):
        raise NotUnderstood(f"{self.what}: {why}: {unparse(node)[:80]}")

    # -- expressions -----------------------------------------------------------------------
    def aff(self, node, env):
        v = self.ev(node, env)
        return v if isinstance(v, Aff) else None

    def ev(self, node, env):
        c = const_value(node)
        if c is not None:
            return Aff(c)
        if isinstance(node, ast.Constant):
            return ("const", node.value)
        if isinstance(node, ast.Name):
            if node.id in env:
                return env[node.id]
            return ("global", node.id)
        if isinstance(node, ast.Attribute):
            t = unparse(node)
            if t == "self.mask_len" and self.m is not None:
                return Aff(self.m)
            if t in ("self.forward", "self.centered", "self.backward"):
                return ("role", node.attr)
            return ("attr", t)
        if isinstance(node, (ast.Tuple, ast.List)):
            return ("tuple", tuple(self.ev(e, env) for e in node.elts))
        if isinstance(node, ast.UnaryOp) and isinstance(node.op, ast.USub):
            a = self.ev(node.operand, env)
            if isinstance(a, Aff):
                return -a
            return ("neg", a)
        if isinstance(node, ast.BinOp):
            a, b = self.ev(node.left, env), self.ev(node.right, env)
            if isinstance(a, Aff) and isinstance(b, Aff):
                if isinstance(node.op, ast.Add):
                    return a + b
                if isinstance(node.op, ast.Sub):
                    return a - b
                if isinstance(node.op, ast.Mult) and (a.is_const() or b.is_const()):
                    return b.scale(a.c) if a.is_const() else a.scale(b.c)
                if isinstance(node.op, (ast.Div, ast.FloorDiv)) and b.is_const() and b.c != 0:
                    return a.scale(1 / b.c)
            return ("binop", type(node.op).__name__, a, b)
        if isinstance(node, ast.Compare) and len(node.ops) == 1:
            return ("cmp", type(node.ops[0]).__name__, self.ev(node.left, env),
                    self.ev(node.comparators[0], env))
        if isinstance(node, ast.Subscript):
            base = self.ev(node.value, env)
            sl = node.slice
            if isinstance(sl, ast.Slice):
                lo = self.ev(sl.lower, env) if sl.lower is not None else None
                hi = self.ev(sl.upper, env) if sl.upper is not None else None
                st = const_value(sl.step) if sl.step is not None else 1
                if st is None:
                    self.fail(node, "slice step")
                return ("slice", base, lo, hi, int(st))
            if base[0] == "attr" and isinstance(sl, ast.Constant):
                return ("attr", unparse(node))
            idx = sl.elts if isinstance(sl, ast.Tuple) else [sl]
            ivals = tuple(self.ev(i, env) for i in idx)
            if base[0] == "shape0" and len(ivals) == 1 and isinstance(ivals[0], Aff):
                return ("shape", base[1], int(ivals[0].c))
            return ("idx", base, ivals)
        if isinstance(node, ast.ListComp):
            if len(node.generators) != 1 or node.generators[0].ifs:
                self.fail(node, "comprehension shape")
            g = node.generators[0]
            if not isinstance(g.target, ast.Name):
                self.fail(node, "comprehension target")
            it = self.ev(g.iter, env)
            env2 = dict(env)
            env2[g.target.id] = ("sym", g.target.id)
            return ("list", g.target.id, it, self.ev(node.elt, env2))
        if isinstance(node, ast.Call):
            return self.call(node, env)
        self.fail(node)

    def call(self, node, env):
        f = unparse(node.func)
        args = [self.ev(a, env) for a in node.args]
        kws = {k.arg: self.ev(k.value, env) for k in node.keywords if k.arg}
        if f in ("int",) and len(args) == 1:
            return args[0]
        if f in ("range", "np.arange", "numpy.arange"):
            if len(args) == 1:
                return ("range", Aff(0), args[0])
            if len(args) == 2:
                return ("range", args[0], args[1])
            self.fail(node, "range with a step")
        if f in ("np.shape", "numpy.shape") and len(args) == 1:
            return ("shape0", args[0])
        if f in ("len",) and len(args) == 1:
            return ("shape", args[0], 0)
        if f in ("np.array", "numpy.array", "np.stack", "numpy.stack", "np.asarray"):
            ax = kws.get("axis", args[1] if len(args) > 1 else Aff(0))
            if f.endswith("stack") and ax != Aff(0):
                self.fail(node, "stack along another axis")
            return ("arr", args[0])
        if f in ("np.concatenate", "numpy.concatenate"):
            ax = kws.get("axis", args[1] if len(args) > 1 else Aff(0))
            if not args or args[0][0] != "tuple":
                self.fail(node, "concatenate operands")
            return ("cat", args[0][1], ax)
        if f in ("np.pad", "numpy.pad"):
            mode = kws.get("mode", args[2] if len(args) > 2 else ("const", "constant"))
            return ("pad", args[0], args[1] if len(args) > 1 else None, mode)
        if f in ("np.transpose", "numpy.transpose"):
            perm = kws.get("axes", args[1] if len(args) > 1 else None)
            return ("T", args[0], perm)
        if f in ("np.swapaxes", "numpy.swapaxes") and len(args) == 3 \
                and all(isinstance(a, Aff) and a.is_const() for a in args[1:]):
            i, j = int(args[1].c) % 3, int(args[2].c) % 3
            perm = [0, 1, 2]
            perm[i], perm[j] = perm[j], perm[i]
            return ("T", args[0], ("tuple", tuple(Aff(k) for k in perm)))
        if f in ("np.moveaxis", "numpy.moveaxis") and len(args) == 3 \
                and all(isinstance(a, Aff) and a.is_const() for a in args[1:]):
            src, dst = int(args[1].c) % 3, int(args[2].c) % 3
            order = [k for k in range(3) if k != src]
            order.insert(dst, src)
            return ("T", args[0], ("tuple", tuple(Aff(k) for k in order)))
        if f == "fd_map":
            return ("fd_map", tuple(args))
        if isinstance(node.func, ast.Attribute) and unparse(node.func.value) == "self":
            return ("mcall", node.func.attr, tuple(args))
        if isinstance(node.func, ast.Name) and node.func.id in env:
            return ("call", env[node.func.id], tuple(args))
        return ("call", ("global", f), tuple(args))

    # -- statements ------------------------------------------------------------------------
    def run(self, fn, argvals=None, skip_self=True):
        params = [a.arg for a in fn.args.args]
        if skip_self and params and params[0] == "self":
            params = params[1:]
        env = {p: ("param", p) for p in params}
        if argvals is not None:
            if len(argvals) != len(params):
                self.fail(fn, "argument count")
            env.update(dict(zip(params, argvals)))
        r = self.block(fn.body, env)
        if r is None:
            self.fail(fn, "function does not return on every path")
        return r

    def block(self, stmts, env):
        for st in stmts:
            if isinstance(st, ast.Expr) and isinstance(st.value, ast.Constant):
                continue
            if isinstance(st, ast.Expr) and isinstance(st.value, ast.Call) \
                    and unparse(st.value.func) == "print":
                continue
            if isinstance(st, ast.Assign) and len(st.targets) == 1 \
                    and isinstance(st.targets[0], ast.Name):
                env[st.targets[0].id] = self.ev(st.value, env)
                continue
            if isinstance(st, ast.Return):
                if st.value is None:
                    return ("const", None)
                return self.ev(st.value, env)
            if isinstance(st, ast.For):
                self.loop(st, env)
                continue
            if isinstance(st, ast.If):
                test = self.ev(st.test, env)
                e1, e2 = dict(env), dict(env)
                a = self.block(st.body, e1)
                b = self.block(st.orelse, e2) if st.orelse else None
                if a is not None and b is not None:
                    return ("cond", test, a, b)
                if a is None and b is None:
                    # merge: names bound to the same value on both sides survive
                    for k in set(e1) | set(e2):
                        if e1.get(k) == e2.get(k) and k in e1:
                            env[k] = e1[k]
                        elif k in e1 or k in e2:
                            env[k] = ("cond", test, e1.get(k), e2.get(k))
                    continue
                self.fail(st, "branch returns on one side only")
            self.fail(st, "statement kind")
        return None

    def loop(self, st, env):
        """accumulation loop:  acc = [] ... for v in ITER: <temps>; acc += [E]"""
        if not isinstance(st.target, ast.Name) or st.orelse:
            self.fail(st, "loop shape")
        it = self.ev(st.iter, env)
        env2 = dict(env)
        env2[st.target.id] = ("sym", st.target.id)
        acc = None
        fill = None
        for s in st.body:
            if isinstance(s, ast.Assign) and len(s.targets) == 1 \
                    and isinstance(s.targets[0], ast.Name):
                env2[s.targets[0].id] = self.ev(s.value, env2)
            elif isinstance(s, ast.AugAssign) and isinstance(s.op, ast.Add) \
                    and isinstance(s.target, ast.Name) and isinstance(s.value, ast.List) \
                    and len(s.value.elts) == 1 and acc is None \
                    and env.get(s.target.id) == ("tuple", ()):
                acc = (s.target.id, self.ev(s.value.elts[0], env2))
            elif isinstance(s, ast.Assign) and len(s.targets) == 1 \
                    and isinstance(s.targets[0], ast.Subscript) \
                    and isinstance(s.targets[0].value, ast.Name) and acc is None \
                    and s.targets[0].value.id in env:
                # results stored into a preallocated container (its dtype/shape, not the
                # results', then decide what comes out): kept as a distinct term
                t = s.targets[0]
                idx = t.slice.elts if isinstance(t.slice, ast.Tuple) else [t.slice]
                acc = (t.value.id, None)
                fill = ("fill", env[t.value.id], tuple(self.ev(i, env2) for i in idx),
                        self.ev(s.value, env2))
            elif isinstance(s, ast.For):
                self.loop(s, env2)
            else:
                self.fail(s, "statement in an accumulation loop")
        if acc is None:
            self.fail(st, "loop does not accumulate into an empty list")
        if acc[1] is None:
            env[acc[0]] = ("filled", st.target.id, it) + fill[1:]
        else:
            env[acc[0]] = ("list", st.target.id, it, acc[1])


def rename_syms(v, mapping):
    """rename loop variables for comparison"""
    if isinstance(v, tuple):
        if v and v[0] == "sym" and v[1] in mapping:
            return ("sym", mapping[v[1]])
        if v and v[0] == "list":
            return ("list", mapping.get(v[1], v[1]), rename_syms(v[2], mapping),
                    rename_syms(v[3], mapping))
        return tuple(rename_syms(x, mapping) for x in v)
    return v


def _positions_to_elements(v):
    """[body(R[n]) for n in range(len(R))]  ==  [body(i) for i in R]   for a range term R, when
    n occurs in body only as the position R[n]"""
    _l, var, rng, body = v
    if not (isinstance(rng, tuple) and len(rng) == 3 and rng[0] == "range" and rng[1] in (0, Aff(0))
            and isinstance(rng[2], tuple) and len(rng[2]) == 3 and rng[2][0] == "shape"
            and rng[2][2] in (0, Aff(0)) and isinstance(rng[2][1], tuple)
            and rng[2][1][:1] == ("range",)):
        return v
    R = rng[2][1]
    pos = ("idx", R, (("sym", var),))
    marker = ("sym", var + "@elem")

    def sub(t):
        if t == pos:
            return marker
        if isinstance(t, tuple):
            return tuple(sub(x) for x in t)
        return t

    def mentions(t):
        if t == ("sym", var):
            return True
        return isinstance(t, tuple) and any(mentions(x) for x in t)
    new = sub(body)
    if mentions(new):
        return v
    return ("list", var, R, rename_syms(new, {var + "@elem": var}))


def canon_lists(v, depth=0):
    """rename the variables of nested list terms to i0, i1, ... from the outside in"""
    if isinstance(v, tuple) and v and v[0] == "list":
        v = _positions_to_elements(v)
        new = f"i{depth}"
        inner = rename_syms(v[3], {v[1]: new})
        return ("list", new, canon_lists(v[2], depth), canon_lists(inner, depth + 1))
    if isinstance(v, tuple):
        return tuple(canon_lists(x, depth) for x in v)
    return v


def segments(v, N, fparam):
    """axis-0 content of an array term as [(start, length, step)] over the input `fparam`,
    or None when not understood"""
    if v == ("param", fparam):
        return [(Aff(0), N, 1)]
    if isinstance(v, tuple) and v and v[0] == "slice":
        inner = segments(v[1], N, fparam)
        if inner is None or len(inner) != 1:
            return None
        start0, length0, step0 = inner[0]
        lo, hi, st = v[2], v[3], v[4]
        if (lo is not None and not isinstance(lo, Aff)) or \
                (hi is not None and not isinstance(hi, Aff)):
            return None
        if st == -1 and lo is None and hi is None:
            return [(start0 + (length0 - 1).scale(step0), length0, -step0)]
        if st != 1:
            return None

        def wrap(x, default):
            if x is None:
                return default
            if x.is_const() and x.c < 0:
                return length0 + x
            return x
        lo = wrap(lo, Aff(0))
        hi = wrap(hi, length0)
        return [(start0 + lo.scale(step0), hi - lo, step0)]
    if isinstance(v, tuple) and v and v[0] == "cat":
        if v[2] != Aff(0):
            return None
        out = []
        for e in v[1]:
            s = segments(e, N, fparam)
            if s is None:
                return None
            out += s
        return out
    if isinstance(v, tuple) and v and v[0] == "pad":
        if v[1] != ("param", fparam) or v[2] is None:
            return None
        w = v[2]
        a = b = None
        # [(a, b)] + [(0, 0)] * (ndim - 1): the first axis is padded, the others are not
        if w[0] == "binop" and w[1] == "Add" and w[2][0] == "tuple" and len(w[2][1]) == 1:
            r = w[3]
            zero = ("tuple", (("tuple", (Aff(0), Aff(0))),))
            if r == zero or (r[0] == "binop" and r[1] == "Mult" and zero in (r[2], r[3])):
                w = w[2]
            else:
                return None
        if w[0] == "tuple" and w[1] and w[1][0][0] == "tuple" and len(w[1][0][1]) == 2:
            a, b = w[1][0][1]
            rest_zero = all(e[0] == "tuple" and all(x == Aff(0) for x in e[1])
                            for e in w[1][1:])
            if not rest_zero:
                return None
        if not isinstance(a, Aff) or not isinstance(b, Aff):
            return None
        mode = v[3][1] if v[3][0] == "const" else None
        mid = (Aff(0), N, 1)
        if mode == "wrap":
            return [(N - a, a, 1), mid, (Aff(0), b, 1)]
        if mode == "reflect":
            return [(a, a, -1), mid, (N - 2, b, -1)]
        if mode == "symmetric":
            return [(a - 1, a, -1), mid, (N - 1, b, -1)]
        return [(Aff(-1), a, 0), mid, (Aff(-1), b, 0)]
    return None
