"""Partial evaluator for finitedifference.py (C07, C16).

The python of the module is *executed* on a mixed domain: everything that is concrete (orders,
table look-ups, namedtuples, closures, generator functions, getattr with a literal name, loops
over tables) is computed; everything that depends on the input field, on the grid size N or on
the parameter table stays a term of the small language of aurelsa.fdinterp:

  Aff                          affine scalar over the symbols N, i
  Lin                          sum_k w_k f[i+k] * inverse_dx**q   (stencil evaluation)
  ('param', name) ('attr', text) ('const', v) ('role', r) ('global', name)
  ('slice', base, lo, hi, st)  ('cat', parts, axis)  ('pad', ...)  ('T', base, perm)
  ('fd_map', args)  ('call', f, args)  ('mcall', name, args)
  ('list', var, iter, elt)  ('range', lo, hi)  ('idx', base, idx)  ('sym', name)
  ('shape', base, k)  ('tuple', items)  ('arr', v)  ('binop', op, a, b)  ('cmp', op, a, b)

so a rule sees *what is computed*, whatever the way the code is organised in helpers, tables,
generators or dispatch loops.  A test on a symbolic value cannot be decided: it raises
SymbolicBranch (the operators of the module are required to be branch-free on their data).

Calls of public functions/methods of the module stay symbolic ('call'/'mcall'): each public
operator is judged on its own; private (underscore) helpers are executed."""
from __future__ import annotations

import ast
from fractions import Fraction

from .common import AnalysisError, unparse
from .exact import Aff
from .tensor import (Interp, Unsupported, _BoundMethod, _Builtin, _Closure, _Module, _NT,
                     _NTClass)

FD = "finitedifference.py"


# the public operators that the rules judge one by one: a call of one of them from another stays
# symbolic; any *other* function or method of the module (private or newly added) is executed
JUDGED = {"fd_map", "map1", "map2", "map3", "d3", "d3x", "d3y", "d3z", "d3_onesided",
          "d3_periodic", "d3_symmetric", "d3_scalar", "cartesian_to_spherical",
          "spherical_to_cartesian", "cutoffmask", "cutoffmask2", "excision"} | {
    f"fd{p}_{r}" for p in (2, 4, 6, 8) for r in ("backward", "centered", "forward")} | {
    f"d3{ax}_rank{n}tensor" for ax in ("", "x", "y", "z") for n in (1, 2, 3)}


class SymbolicBranch(Unsupported):
    """A branch whose test depends on a symbolic value."""


class Sym:
    """A value known only as a term."""
    __slots__ = ("t",)

    def __init__(self, t):
        self.t = t

    def __eq__(self, o):
        return isinstance(o, Sym) and self.t == o.t

    def __hash__(self):
        return hash(self.t)

    def __repr__(self):
        return f"Sym{self.t!r}"


class Lin:
    """sum_k w_k f[i+k] * inverse_dx**dxpow  (or a pure constant when w is empty)"""

    def __init__(self, w=None, c=0, dxpow=0):
        self.w = {k: Fraction(v) for k, v in (w or {}).items() if v != 0}
        self.c = Fraction(c)
        self.dxpow = dxpow

    def is_const(self):
        return not self.w and self.dxpow == 0

    def __repr__(self):
        return f"Lin({self.w}, c={self.c}, dx^{self.dxpow})"


class _Slice:
    """a python slice object with possibly symbolic bounds"""
    def __init__(self, lo=None, hi=None, step=None):
        self.lo, self.hi, self.step = lo, hi, step


def _num(v):
    """Affine forms without symbols are python numbers."""
    if isinstance(v, Aff) and v.is_const():
        return int(v.c) if v.c.denominator == 1 else v.c
    return v


def to_term(v):
    if isinstance(v, Sym):
        return v.t
    if isinstance(v, Aff):
        return v
    if isinstance(v, bool) or v is None or isinstance(v, str):
        return ("const", v)
    if isinstance(v, (int, Fraction)):
        return Aff(v)
    if isinstance(v, (tuple, list)):
        return ("tuple", tuple(to_term(x) for x in v))
    if isinstance(v, range):
        return ("range", Aff(v.start), Aff(v.stop))
    if isinstance(v, _Module):
        return ("attr", v.name)
    if isinstance(v, _Closure):
        return ("global", v.name)
    if isinstance(v, _Builtin):
        return ("global", v.name)
    if isinstance(v, dict):
        return ("dict", tuple((to_term(k), to_term(x)) for k, x in v.items()))
    if isinstance(v, _NT):
        return ("tuple", tuple(to_term(x) for x in v.values))
    if isinstance(v, Lin):
        return ("lin", tuple(sorted(v.w.items())), v.c, v.dxpow)
    if isinstance(v, _BoundMethod):
        return ("method", to_term(v.obj), v.attr)
    if isinstance(v, _Slice):
        return ("sliceobj", None if v.lo is None else to_term(v.lo),
                None if v.hi is None else to_term(v.hi),
                None if v.step is None else to_term(v.step))
    raise Unsupported("value without a term: " + type(v).__name__)


def _symbolic(v):
    return isinstance(v, (Sym, Aff, Lin))


class FDPE(Interp):
    """Partial evaluator; `attrs` are the instance attributes known at entry."""
    QUESTIONS = ("boundary", "fd_order")

    def __init__(self, sources, config=None, attrs=None, stencil_field=None, rel=FD,
                 cls="FiniteDifference", inline=()):
        super().__init__(sources, config, rel=rel, cls=cls, keytypes={}, opaque=())
        self.attrs = dict(attrs or {})
        self.stencil_field = stencil_field
        self.inline = set(inline)
        self.symloops = []
        self.asked = []
        self.ranks = {}              # term -> number of array dimensions, where known
        self.call_overrides = {}     # dotted callee name -> function(args, kwargs)
        self.functions = sources.functions(rel)

    # -- entry -----------------------------------------------------------------------------
    def run(self, qual, args):
        fn = self.functions.get(qual)
        if fn is None:
            raise AnalysisError(f"anchor vanished: {self.rel}::{qual}")
        return self.call_function(fn, list(args), {}, qual, "." in qual, rel=self.rel)

    def fresh_sym(self, name):
        self._nsym = getattr(self, "_nsym", 0) + 1
        return f"{name}#{self._nsym}"

    def ask(self, q):
        if q not in self.asked:
            self.asked.append(q)
        return super().ask(q)

    # -- values ------------------------------------------------------------------------------
    def truth(self, v, node):
        if _symbolic(v):
            raise SymbolicBranch("branch on a symbolic value: " + unparse(node)[:70])
        return super().truth(v, node)

    def to_arr(self, v):
        raise Unsupported("tensor arithmetic in the finite-difference module")

    def ev_Name(self, node, env):
        if node.id in env:
            return env[node.id]
        if node.id in ("getattr", "slice"):
            return _Builtin(node.id)
        return super().ev_Name(node, env)

    def ev_Attribute(self, node, env):
        if isinstance(node.value, ast.Name) and node.value.id == "self" \
                and "self" not in env:
            return self.self_attr(node.attr)
        base = self.ev(node.value, env)
        if isinstance(base, _Module):
            if base.name == "self":
                return self.self_attr(node.attr)
            if base.name == "np" and node.attr in ("pi", "e", "inf", "nan"):
                return Sym(("attr", "np." + node.attr))
            return _Module(base.name + "." + node.attr)
        if isinstance(base, Sym):
            if node.attr == "shape":
                return Sym(("shape0", base.t))
            if node.attr == "ndim" and base.t in self.ranks:
                return self.ranks[base.t]
            return Sym(("getattr", base.t, node.attr))
        if isinstance(base, _NT):
            if node.attr in base.cls.fields:
                return base.values[base.cls.fields.index(node.attr)]
            raise Unsupported("attribute " + unparse(node))
        if isinstance(base, (str, list, dict, tuple)):
            return _BoundMethod(base, node.attr)
        raise Unsupported("attribute " + unparse(node))

    def self_attr(self, name):
        if name in self.attrs:
            return self.attrs[name]
        if name in self.QUESTIONS:
            return self.ask(name)
        if self.cls + "." + name in self.functions:
            return _Module("self." + name)
        return Sym(("attr", "self." + name))

    def get_attribute(self, obj, name, default, node):
        if isinstance(obj, _Module) and obj.name == "self":
            return self.self_attr(name)
        if isinstance(obj, Sym):
            return Sym(("getattr", obj.t, name))
        return super().get_attribute(obj, name, default, node)

    def ev_Constant(self, node, env):
        if isinstance(node.value, complex):
            return Sym(("const", node.value))
        return super().ev_Constant(node, env)

    def ev_Subscript(self, node, env):
        base = self.ev(node.value, env)
        sl = node.slice
        if isinstance(base, _Module) and base.name == "self":
            return Sym(("key", to_term(self.ev(sl, env))))
        if isinstance(base, Sym):
            if isinstance(sl, ast.Slice):
                lo = to_term(self.ev(sl.lower, env)) if sl.lower is not None else None
                hi = to_term(self.ev(sl.upper, env)) if sl.upper is not None else None
                st = self.ev(sl.step, env) if sl.step is not None else 1
                if not isinstance(st, int):
                    raise Unsupported("slice step")
                return Sym(("slice", base.t, lo, hi, st))
            items = sl.elts if isinstance(sl, ast.Tuple) else [sl]
            if any(isinstance(i, ast.Slice) for i in items):
                ivals = []
                for i in items:
                    if isinstance(i, ast.Slice):
                        ivals.append(("sliceobj",
                                      to_term(self.ev(i.lower, env)) if i.lower else None,
                                      to_term(self.ev(i.upper, env)) if i.upper else None,
                                      to_term(self.ev(i.step, env)) if i.step else None))
                    else:
                        ivals.append(to_term(self.ev(i, env)))
                return Sym(("idx", base.t, tuple(ivals)))
            vals = [self.ev(i, env) for i in items]
            if len(vals) == 1 and isinstance(vals[0], (tuple, list)):
                vals = list(vals[0])
            if len(vals) == 1 and isinstance(vals[0], _Slice) and not isinstance(
                    sl, ast.Tuple):
                k = vals[0]
                if k.step is not None and not isinstance(k.step, int):
                    raise Unsupported("slice step")
                return Sym(("slice", base.t, None if k.lo is None else to_term(k.lo),
                            None if k.hi is None else to_term(k.hi),
                            1 if k.step is None else k.step))
            if any(isinstance(v, _Slice) for v in vals):
                return Sym(("idx", base.t, tuple(to_term(v) for v in vals)))
            if base.t[0] == "attr" and len(vals) == 1 and isinstance(vals[0], (str, int)) \
                    and not isinstance(vals[0], bool):
                return Sym(("attr", f"{base.t[1]}[{vals[0]!r}]"))
            if base.t[0] == "shape0" and len(vals) == 1 and isinstance(vals[0], int):
                return Sym(("shape", base.t[1], vals[0]))
            if self.stencil_field is not None and base.t == ("param", self.stencil_field) \
                    and len(vals) == 1:
                off = vals[0]
                off = Aff(off) if isinstance(off, (int, Fraction)) else off
                if not isinstance(off, Aff) or off.t.get("i", 0) != 1 or set(off.t) - {"i"} \
                        or off.c.denominator != 1:
                    raise AnalysisError("stencil subscript not of the form i+k: "
                                        + unparse(node))
                return Lin(w={int(off.c): 1})
            return Sym(("idx", base.t, tuple(to_term(v) for v in vals)))
        if isinstance(base, (list, tuple, str, range)):
            if isinstance(sl, ast.Slice):
                lo = self.ev(sl.lower, env) if sl.lower is not None else None
                hi = self.ev(sl.upper, env) if sl.upper is not None else None
                st = self.ev(sl.step, env) if sl.step is not None else None
                if any(_symbolic(x) for x in (lo, hi, st)):
                    raise Unsupported("symbolic slice of a python sequence")
                return base[lo:hi:st]
            i = self.ev(sl, env)
            if _symbolic(i):
                return Sym(("idx", to_term(base), (to_term(i),)))
            return base[int(i)]
        if isinstance(base, dict):
            k = self.ev(sl, env)
            if _symbolic(k):
                raise Unsupported("symbolic dictionary key")
            k = tuple(k) if isinstance(k, list) else k
            if k not in base:
                raise Unsupported(f"KeyError {k!r}")
            return base[k]
        if isinstance(base, _NT):
            return base.values[int(self.ev(sl, env))]
        if isinstance(base, Lin):
            raise Unsupported("subscript of a stencil value")
        raise Unsupported("subscript of " + type(base).__name__)

    def ev_UnaryOp(self, node, env):
        v = self.ev(node.operand, env)
        if isinstance(node.op, ast.Not):
            return not self.truth(v, node.operand)
        if isinstance(node.op, ast.UAdd):
            return v
        if isinstance(node.op, ast.USub):
            if isinstance(v, Aff):
                return -v
            if isinstance(v, Lin):
                return Lin({k: -x for k, x in v.w.items()}, -v.c, v.dxpow)
            if isinstance(v, Sym):
                return Sym(("neg", v.t))
            if isinstance(v, (int, Fraction)) and not isinstance(v, bool):
                return -v
        raise Unsupported("unary operator")

    def ev_Compare(self, node, env):
        vals = [self.ev(node.left, env)] + [self.ev(c, env) for c in node.comparators]
        if any(_symbolic(v) for v in vals):
            if len(vals) != 2:
                raise Unsupported("chained symbolic comparison")
            return Sym(("cmp", type(node.ops[0]).__name__, to_term(vals[0]),
                        to_term(vals[1])))
        result = True
        for op, a, b in zip(node.ops, vals, vals[1:]):
            a = tuple(a) if isinstance(a, list) and isinstance(op, (ast.In, ast.NotIn)) else a
            if isinstance(op, ast.Eq):
                r = a == b
            elif isinstance(op, ast.NotEq):
                r = a != b
            elif isinstance(op, ast.Lt):
                r = a < b
            elif isinstance(op, ast.LtE):
                r = a <= b
            elif isinstance(op, ast.Gt):
                r = a > b
            elif isinstance(op, ast.GtE):
                r = a >= b
            elif isinstance(op, ast.In):
                r = a in b
            elif isinstance(op, ast.NotIn):
                r = a not in b
            elif isinstance(op, ast.Is):
                r = a is b
            elif isinstance(op, ast.IsNot):
                r = a is not b
            else:
                raise Unsupported("comparison operator")
            result = result and r
        return result

    def binop(self, op, a, b, node):
        if not (_symbolic(a) or _symbolic(b)):
            if isinstance(a, (list, tuple)) and isinstance(b, (int, Fraction)) \
                    and isinstance(op, ast.Mult):
                return type(a)(list(a) * int(b))
            if isinstance(b, (list, tuple)) and isinstance(a, (int, Fraction)) \
                    and isinstance(op, ast.Mult):
                return type(b)(list(b) * int(a))
            if isinstance(a, tuple) and isinstance(b, tuple) and isinstance(op, ast.Add):
                return a + b
            if isinstance(a, list) and isinstance(b, list) and isinstance(op, ast.Add):
                return a + b
            if isinstance(a, (int, Fraction)) and isinstance(b, (int, Fraction)) \
                    and not isinstance(a, bool) and not isinstance(b, bool) \
                    and isinstance(op, ast.Pow):
                return Fraction(a) ** int(b) if Fraction(b).denominator == 1 else \
                    self._opaque_binop(op, a, b)
            try:
                return super().binop(op, a, b, node)
            except Unsupported:
                return self._opaque_binop(op, a, b)
        num = (int, Fraction)
        if isinstance(a, Lin) or isinstance(b, Lin):
            return self._lin_binop(op, a, b, node)
        if isinstance(a, (Aff,) + num) and isinstance(b, (Aff,) + num) \
                and not isinstance(a, bool) and not isinstance(b, bool):
            A = a if isinstance(a, Aff) else Aff(a)
            B = b if isinstance(b, Aff) else Aff(b)
            if isinstance(op, ast.Add):
                return _num(A + B)
            if isinstance(op, ast.Sub):
                return _num(A - B)
            if isinstance(op, ast.Mult) and (A.is_const() or B.is_const()):
                return _num(B.scale(A.c) if A.is_const() else A.scale(B.c))
            if isinstance(op, (ast.Div, ast.FloorDiv)) and B.is_const() and B.c != 0:
                r = A.scale(1 / B.c)
                if isinstance(op, ast.FloorDiv) and any(
                        x.denominator != 1 for x in [r.c] + list(r.t.values())):
                    return self._opaque_binop(op, a, b)
                return _num(r)
        return self._opaque_binop(op, a, b)

    def _opaque_binop(self, op, a, b):
        return Sym(("binop", type(op).__name__, to_term(a), to_term(b)))

    def _lin_binop(self, op, a, b, node):
        def lin(x):
            if isinstance(x, Lin):
                return x
            if isinstance(x, (int, Fraction)) and not isinstance(x, bool):
                return Lin(c=x)
            if isinstance(x, Sym) and x.t == ("param", "inverse_dx"):
                return Lin(c=1, dxpow=1)
            raise AnalysisError("stencil arithmetic with a non-constant: " + unparse(node)[:80])
        a, b = lin(a), lin(b)
        src = unparse(node)[:80] if node is not None else ""
        if isinstance(op, (ast.Add, ast.Sub)):
            s = 1 if isinstance(op, ast.Add) else -1
            if a.dxpow != b.dxpow and not (a.is_const() and a.c == 0) \
                    and not (b.is_const() and b.c == 0):
                raise AnalysisError(f"stencil mixes powers of the spacing: {src}")
            if (a.c != 0 and not a.is_const()) or (b.c != 0 and not b.is_const()):
                raise AnalysisError(f"stencil has a constant term: {src}")
            if a.is_const() and b.is_const():
                return Lin(c=a.c + s * b.c)
            if (a.is_const() and a.c != 0) or (b.is_const() and b.c != 0):
                raise AnalysisError(f"stencil has a constant term: {src}")
            w = dict(a.w)
            for k, v in b.w.items():
                w[k] = w.get(k, 0) + s * v
            return Lin(w, 0, max(a.dxpow, b.dxpow))
        if isinstance(op, ast.Mult):
            if a.w and b.w:
                raise AnalysisError(f"stencil is not linear in the field: {src}")
            if not a.w:
                a, b = b, a
            return Lin({k: v * b.c for k, v in a.w.items()}, a.c * b.c, a.dxpow + b.dxpow)
        if isinstance(op, ast.Div):
            if b.w or b.c == 0:
                raise AnalysisError(f"stencil divides by a non-constant: {src}")
            return Lin({k: v / b.c for k, v in a.w.items()}, a.c / b.c, a.dxpow - b.dxpow)
        raise AnalysisError(f"stencil operator not understood: {src}")

    # -- statements ------------------------------------------------------------------------------
    def assign(self, target, val, env, st):
        if isinstance(target, ast.Attribute) and isinstance(target.value, ast.Name) \
                and target.value.id == "self":
            self.attrs[target.attr] = val
            return
        if isinstance(target, (ast.Tuple, ast.List)) and isinstance(val, Sym):
            for k, t in enumerate(target.elts):
                self.assign(t, Sym(("idx", val.t, (Aff(k),))), env, st)
            return
        if isinstance(target, ast.Subscript) and isinstance(target.value, ast.Name) \
                and isinstance(env.get(target.value.id), Sym):
            # results stored into a preallocated container: kept as a distinct term
            sl = target.slice
            idx = sl.elts if isinstance(sl, ast.Tuple) else [sl]
            if not self.symloops:
                if any(isinstance(i, ast.Slice) for i in idx):
                    raise Unsupported("slice store into a symbolic array")
                env[target.value.id] = Sym(("masked", env[target.value.id].t,
                                            tuple(to_term(self.ev(i, env)) for i in idx),
                                            to_term(val)))
                return
            var, it = self.symloops[-1]
            env[target.value.id] = Sym(("filled", var, it, env[target.value.id].t,
                                        tuple(to_term(self.ev(i, env)) for i in idx),
                                        to_term(val)))
            return
        super().assign(target, val, env, st)

    def exec_stmt(self, st, env):
        if isinstance(st, ast.For):
            it = self.ev(st.iter, env)
            if isinstance(it, Sym):
                return self.symbolic_loop(st, it, env)
        if isinstance(st, ast.Expr) and isinstance(st.value, ast.Call) \
                and isinstance(st.value.func, ast.Name) and st.value.func.id == "print":
            return None
        if isinstance(st, (ast.Import, ast.ImportFrom)):
            return None
        return super().exec_stmt(st, env)

    def symbolic_loop(self, st, it, env):
        """for v in <symbolic range>: ... acc += [E]   ->   acc = ('list', v, range, E)"""
        if not isinstance(st.target, ast.Name) or st.orelse:
            raise Unsupported("loop shape over a symbolic range")
        before = {k: (v, len(v)) for k, v in env.items() if isinstance(v, list)}
        var = self.fresh_sym(st.target.id)
        env[st.target.id] = Sym(("sym", var))
        self.symloops.append((var, it.t))
        try:
            r = self.exec_block(st.body, env)
        finally:
            self.symloops.pop()
        if r is not None:
            raise Unsupported("return inside a loop over a symbolic range")
        for k, (old, n) in before.items():
            new = env.get(k)
            if isinstance(new, list) and len(new) != n:
                if n != 0 or len(new) != 1:
                    raise Unsupported("a loop over a symbolic range must add one element per "
                                      "round to an empty list")
                env[k] = Sym(("list", var, it.t, to_term(new[0])))
            elif isinstance(old, list) and len(old) != n:
                # appended in place (list.append)
                if n != 0 or len(old) != 1:
                    raise Unsupported("a loop over a symbolic range must add one element per "
                                      "round to an empty list")
                env[k] = Sym(("list", var, it.t, to_term(old[0])))
        return None

    def ev_ListComp(self, node, env):
        if len(node.generators) == 1:
            g = node.generators[0]
            it = self.ev(g.iter, env)
            if isinstance(it, Sym):
                if g.ifs or not isinstance(g.target, ast.Name):
                    raise Unsupported("comprehension shape over a symbolic range")
                sub = dict(env)
                var = self.fresh_sym(g.target.id)
                sub[g.target.id] = Sym(("sym", var))
                return Sym(("list", var, it.t, to_term(self.ev(node.elt, sub))))
        return super().ev_ListComp(node, env)

    ev_GeneratorExp = ev_ListComp

    # -- calls -----------------------------------------------------------------------------------
    def callee_name(self, func, env):
        if isinstance(func, ast.Attribute) and isinstance(func.value, ast.Name) \
                and func.value.id == "self" and "self" not in env:
            return "self." + func.attr
        if isinstance(func, ast.Name) and func.id not in env:
            return func.id
        if isinstance(func, ast.Name):
            return "<value>"
        return super().callee_name(func, env)

    def dispatch_call(self, node, fsrc, args, kwargs, env):
        if fsrc in ("print", "warnings.warn"):
            return None
        if fsrc.startswith(("collections.", "itertools.", "functools.", "operator.")):
            return super().dispatch_call(node, fsrc, args, kwargs, env)
        if fsrc in self.call_overrides:
            return self.call_overrides[fsrc](args, kwargs)
        if fsrc.startswith("self.") and fsrc.count(".") == 1:
            return self.method_call(fsrc[5:], args, kwargs, node)
        if fsrc.startswith("np.") or fsrc.startswith("numpy."):
            return self.np_call(fsrc.split(".", 1)[1], args, kwargs, node)
        if fsrc.startswith("maths."):
            return Sym(("call", ("global", fsrc), tuple(to_term(a) for a in args)))
        if fsrc == "fd_map" and "fd_map" not in self.inline:
            return Sym(("fd_map", tuple(to_term(a) for a in args)))
        if isinstance(node.func, ast.Name) and node.func.id not in env \
                and node.func.id in self.functions:
            name = node.func.id
            if name not in JUDGED or name in self.inline:
                fn = self.functions[name]
                return self.call_function(fn, args, kwargs, name, False, rel=self.rel)
            return Sym(("call", ("global", name), tuple(to_term(a) for a in args)))
        if fsrc in ("range",) and any(_symbolic(a) for a in args):
            t = [to_term(a) for a in args]
            if len(t) == 1:
                return Sym(("range", Aff(0), t[0]))
            if len(t) == 2:
                return Sym(("range", t[0], t[1]))
            raise Unsupported("symbolic range with a step")
        if fsrc == "len" and len(args) == 1 and isinstance(args[0], Sym):
            if args[0].t[0] == "shape0" and args[0].t[1] in self.ranks:
                return self.ranks[args[0].t[1]]
            return Sym(("shape", args[0].t, 0))
        if fsrc == "slice" and 1 <= len(args) <= 3:
            a = list(args)
            if len(a) == 1:
                a = [None, a[0]]
            return _Slice(*a)
        if fsrc in ("int", "float") and len(args) == 1 and _symbolic(args[0]):
            return args[0]
        if fsrc in ("abs", "min", "max", "sum", "tuple", "list") and any(
                _symbolic(a) for a in args):
            if fsrc in ("tuple", "list") and isinstance(args[0], Sym):
                return args[0]
            return Sym(("call", ("global", fsrc), tuple(to_term(a) for a in args)))
        if fsrc == "isinstance" and isinstance(args[0], Sym):
            return Sym(("isinstance", args[0].t, unparse(node.args[1])))
        f = None
        if fsrc not in ("range", "len", "int", "float", "abs", "isinstance", "list", "tuple",
                        "sum", "min", "max", "enumerate", "zip", "str", "set", "sorted",
                        "reversed", "dict", "all", "any", "bool", "map", "getattr", "slice"):
            f = self.ev(node.func, env)
        if isinstance(f, Sym):
            return Sym(("call", f.t, tuple(to_term(a) for a in args)))
        if isinstance(f, _Module) and f.name.startswith("self.") and f.name.count(".") == 1:
            return self.method_call(f.name[5:], args, kwargs, node)
        if isinstance(f, _Module) and f.name.startswith("np."):
            return self.np_call(f.name[3:], args, kwargs, node)
        if isinstance(f, _Closure) and isinstance(f.fn, ast.FunctionDef) and f.env is None \
                and f.name in JUDGED and f.name not in self.inline:
            if f.name == "fd_map":
                return Sym(("fd_map", tuple(to_term(a) for a in args)))
            return Sym(("call", ("global", f.name), tuple(to_term(a) for a in args)))
        if isinstance(f, _BoundMethod) and isinstance(f.obj, str) and f.attr == "format":
            return "<formatted>"
        if fsrc in self.call_overrides:
            return self.call_overrides[fsrc](args, kwargs)
        if isinstance(f, _Module) and "." in f.name and not f.name.startswith("self."):
            extra = tuple(("kw", k, to_term(v)) for k, v in sorted(kwargs.items()))
            return Sym(("call", ("global", f.name), tuple(to_term(a) for a in args) + extra))
        return super().dispatch_call(node, fsrc, args, kwargs, env)

    def method_call(self, name, args, kwargs, node):
        fn = self.functions.get(self.cls + "." + name)
        if fn is None:
            v = self.self_attr(name)
            if isinstance(v, Sym):
                return Sym(("call", v.t, tuple(to_term(a) for a in args)))
            if isinstance(v, _Closure):
                return Sym(("call", to_term(v), tuple(to_term(a) for a in args)))
            raise Unsupported("call of self." + name)
        if name not in JUDGED or name in self.inline:
            return self.call_function(fn, args, kwargs, name, True, rel=self.rel)
        extra = tuple(("kw", k, to_term(v)) for k, v in sorted(kwargs.items()))
        return Sym(("mcall", name, tuple(to_term(a) for a in args) + extra))

    def np_call(self, name, args, kwargs, node):
        t = [to_term(a) for a in args]
        kws = {k: to_term(v) for k, v in kwargs.items()}
        if name == "arange":
            if len(t) == 1:
                return Sym(("range", Aff(0), t[0]))
            if len(t) == 2:
                return Sym(("range", t[0], t[1]))
            return Sym(("call", ("global", "np.arange"), tuple(t)))
        if name == "shape" and len(t) == 1:
            return Sym(("shape0", t[0]))
        if name == "ndim" and len(t) == 1 and t[0] in self.ranks:
            return self.ranks[t[0]]
        if name in ("array", "stack", "asarray") and t:
            ax = kws.get("axis", t[1] if len(t) > 1 and name == "stack" else Aff(0))
            if name == "stack" and ax != Aff(0):
                raise Unsupported("stack along another axis")
            return Sym(("arr", t[0]))
        if name == "concatenate":
            ax = kws.get("axis", t[1] if len(t) > 1 else Aff(0))
            if not t or t[0][0] != "tuple":
                raise Unsupported("concatenate operands: " + unparse(node)[:60])
            return Sym(("cat", t[0][1], ax))
        if name == "pad":
            mode = kws.get("mode", t[2] if len(t) > 2 else ("const", "constant"))
            return Sym(("pad", t[0], t[1] if len(t) > 1 else None, mode))
        if name == "transpose":
            perm = kws.get("axes", t[1] if len(t) > 1 else None)
            return Sym(("T", t[0], perm))
        if name == "flip" and len(t) >= 1:
            ax = kws.get("axis", t[1] if len(t) > 1 else None)
            if ax == Aff(0):
                return Sym(("slice", t[0], None, None, -1))
        if name in ("swapaxes", "moveaxis") and len(t) == 3 and all(
                isinstance(a, Aff) and a.is_const() for a in t[1:]):
            i, j = int(t[1].c) % 3, int(t[2].c) % 3
            if name == "swapaxes":
                perm = [0, 1, 2]
                perm[i], perm[j] = perm[j], perm[i]
            else:
                perm = [k for k in range(3) if k != i]
                perm.insert(j, i)
            return Sym(("T", t[0], ("tuple", tuple(Aff(k) for k in perm))))
        extra = tuple(("kw", k, v) for k, v in sorted(kws.items()))
        return Sym(("call", ("global", "np." + name), tuple(t) + extra))

    def builtin(self, name, args, kwargs, node):
        if name == "map" and len(args) == 2 and isinstance(args[1], Sym):
            var = self.fresh_sym("k")
            return Sym(("list", var, args[1].t,
                        to_term(self.apply(args[0], [Sym(("sym", var))], node))))
        if name in ("list", "tuple") and len(args) == 1 and isinstance(args[0], Sym):
            return args[0]
        if name == "len" and len(args) == 1 and isinstance(args[0], Sym):
            return Sym(("shape", args[0].t, 0))
        if name in ("float", "int") and args and isinstance(args[0], (int, Fraction)):
            v = Fraction(args[0])
            return int(v) if name == "int" else args[0]
        if name == "enumerate" and args and isinstance(args[0], Sym):
            raise Unsupported("enumerate of a symbolic sequence")
        return super().builtin(name, args, kwargs, node)


def term_to_P(t, atom_of):
    """Exact polynomial (tpoly.P, with function atoms) of an arithmetic term; atom_of(term)
    names the leaves (None: not a leaf)."""
    from . import symdiff
    from .tpoly import P, asP
    a = atom_of(t)
    if a is not None:
        return P.atom(a) if isinstance(a, str) else a
    if isinstance(t, Aff):
        if t.is_const():
            return asP(t.c)
        r = asP(t.c)
        for k, v in t.t.items():
            r = r + P.atom(k).scale(v)
        return r
    if isinstance(t, tuple) and t:
        if t[0] == "neg":
            return -term_to_P(t[1], atom_of)
        if t[0] == "binop":
            x, y = term_to_P(t[2], atom_of), term_to_P(t[3], atom_of)
            if t[1] == "Add":
                return x + y
            if t[1] == "Sub":
                return x - y
            if t[1] == "Mult":
                return x * y
            if t[1] == "Div":
                if y.is_zero():
                    raise AnalysisError("division by zero")
                return x * y.pow(-1)
            if t[1] == "Pow":
                return symdiff.power(x, y)
        if t[0] == "call" and t[1][0] == "global":
            name = t[1][1]
            args = [term_to_P(x, atom_of) for x in t[2] if not (isinstance(x, tuple) and x
                                                                and x[0] == "kw")]
            if name == "maths.safe_division" and len(args) == 2:
                return args[0] * args[1].pow(-1)
            if name.startswith("np."):
                return symdiff.fn_atom(name[3:], args)
            if name == "abs":
                return symdiff.fn_atom("abs", args)
        if t == ("attr", "np.pi"):
            return P.atom("pi")
    raise AnalysisError(f"expression not understood: {t!r}"[:160])
