"""C01 -- the lazy cache is transparent: a quantity's value never depends on request history.

Structural theorem.  Under frozen inputs the value returned for a key is a function of
(inputs, options) alone if
  (i)   quantity methods are pure (no state change besides the cache protocol, no read of the
        protocol's bookkeeping),
  (ii)  cached values are never modified after being stored and are evicted only whole, frozen
        inputs never (C03's rules, re-established here),
  (iii) every presence guard `'k' in self.data` is history-insensitive.
By induction over the dependency graph, recomputation after any eviction then reproduces the
same value whatever the request order and cache settings.  This check establishes (i)-(iii) on
every method and every guard site of the current source."""
from __future__ import annotations

import ast

from ..common import AnalysisError, norm_src, unparse
from ..tensor import KEYTYPES, OPAQUE_KEYS, Arr, Interp, NeedConfig, PathEnds, Unsupported
from ..tpoly import P
from . import c02, c03

LEVEL = "other"
CORE = "core.py"
PROTOCOL = {"__init__", "__getitem__", "cleanup_cache", "load_data", "freeze_data", "myprint"}
BOOKKEEPING = {"calculation_count", "last_accessed", "var_importance",
               "clear_cache_every_nbr_calc", "memory_threshold_inGB"}

# class-B guards: alternative derivations of the same quantity; the identity that makes the two
# branches equal is an assumption recorded here (it is a theorem of the 3+1 formalism for data
# that solve Einstein's equations)
CLASS_B = {
    ("gdet", "gdown4"): "det g = -alpha^2 det gamma",
    ("Ttrace", "Tdown4"): "T = 3 p_n - rho_n",
    ("s_Ricci_down3", "s_Riemann_down3"): "R_bd = gamma^ac R_abcd",
    ("st_Ricci_down4", "Tdown4"): "Einstein's equations: R_ab = Lambda g_ab + kappa (T_ab - T g_ab/2)",
    ("st_Ricci_down3", "st_Ricci_down4"): "spatial block of the same tensor",
    ("st_Weyl_down4", "st_Riemann_down4"): "Weyl from Riemann = Weyl from E, B, n",
}
# class-D guards: the key has no method, only the user can supply it
CLASS_D = {("Weyl_Psi", "Weyl_Psi4r")}


def reiterable_state(rep):
    """An attribute of the instance that holds a one-shot iterator (map, filter, zip, a
    generator expression, iter, reversed, enumerate) is used up by the first method that loops
    over it: the same request evaluated twice (after an eviction, or called directly) would
    differ.  Every `self.<attr> = ...` of the class is inspected."""
    S = rep.sources
    n = 0
    for q, fn in S.functions(CORE).items():
        if not q.startswith("AurelCore."):
            continue
        for st in ast.walk(fn):
            if not isinstance(st, ast.Assign):
                continue
            for t in st.targets:
                if isinstance(t, ast.Attribute) and isinstance(t.value, ast.Name) \
                        and t.value.id == "self":
                    n += 1
                    v = st.value
                    one_shot = isinstance(v, ast.GeneratorExp) or (
                        isinstance(v, ast.Call) and isinstance(v.func, ast.Name)
                        and v.func.id in ("map", "filter", "zip", "iter", "reversed",
                                          "enumerate"))
                    rep.check(not one_shot, "purity", f"{CORE}::{q}::self.{t.attr}",
                              f"`{norm_src(st)[:70]}` stores a one-shot iterator in the "
                              "instance: the first loop over it uses it up, so the quantity "
                              "computed from it differs the second time it is evaluated",
                              node=st)
    if n < 10:
        raise AnalysisError("instance attribute assignments of AurelCore not found")


def methods(S):
    return {q.split(".", 1)[1]: fn for q, fn in S.functions(CORE).items()
            if q.startswith("AurelCore.")}


# ---------------------------------------------------------------------------------------------
# (i) purity
# ---------------------------------------------------------------------------------------------
def purity(rep, meths):
    for name, fn in meths.items():
        if name in PROTOCOL:
            continue
        key = f"{CORE}::AurelCore.{name}"
        bad = []
        for node in ast.walk(fn):
            if isinstance(node, (ast.Global, ast.Nonlocal)):
                bad.append((node, "global/nonlocal declaration"))
            tgts = []
            if isinstance(node, ast.Assign):
                tgts = node.targets
            elif isinstance(node, (ast.AugAssign, ast.AnnAssign)):
                tgts = [node.target]
            for t in tgts:
                for x in ast.walk(t):
                    if isinstance(x, ast.Attribute) and isinstance(x.value, ast.Name) \
                            and x.value.id == "self" and isinstance(x.ctx, ast.Store):
                        bad.append((node, f"stores the attribute self.{x.attr}"))
                if isinstance(t, ast.Subscript) and unparse(t.value) == "self.data":
                    bad.append((node, "stores into self.data outside __getitem__"))
            if isinstance(node, ast.Call) and unparse(node.func) in ("setattr", "delattr") \
                    and node.args and unparse(node.args[0]) == "self":
                bad.append((node, "setattr on self"))
            if isinstance(node, ast.Attribute) and isinstance(node.value, ast.Name) \
                    and node.value.id == "self" and node.attr in BOOKKEEPING \
                    and isinstance(node.ctx, ast.Load):
                bad.append((node, f"reads the cache bookkeeping self.{node.attr}: the value "
                            "would depend on the request history"))
            if isinstance(node, ast.Call):
                f = unparse(node.func)
                if f.startswith(("random.", "np.random.", "time.", "os.environ", "datetime.")):
                    bad.append((node, f"calls {f} (non-deterministic / environment input)"))
            # any use of self.data other than presence tests and keyed reads
            if isinstance(node, ast.Attribute) and unparse(node) == "self.data":
                par = getattr(node, "_parent", None)
                ok = isinstance(par, ast.Subscript) and isinstance(par.ctx, ast.Load) \
                    or isinstance(par, ast.Compare) \
                    or (isinstance(par, ast.Attribute) and par.attr == "keys"
                        and isinstance(getattr(getattr(par, "_parent", None), "_parent", None),
                                       ast.Compare))
                if not ok:
                    bad.append((node, "uses self.data other than for a presence test or a "
                                "keyed read"))
        if bad:
            for node, why in bad[:3]:
                rep.violation("purity", f"{key}::{why[:40]}", f"{name}: {why} "
                              f"(`{norm_src(node)[:60]}`)", node=node)
        else:
            rep.ok("purity", key)


# ---------------------------------------------------------------------------------------------
# (iii) presence guards
# ---------------------------------------------------------------------------------------------
def presence_tests(fn):
    """all ('key', negated, Compare node) presence tests in fn"""
    out = []
    for node in ast.walk(fn):
        if isinstance(node, ast.Compare) and len(node.ops) == 1 \
                and isinstance(node.ops[0], (ast.In, ast.NotIn)) \
                and unparse(node.comparators[0]) in ("self.data", "self.data.keys()") \
                and isinstance(node.left, ast.Constant) and isinstance(node.left.value, str):
            out.append((node.left.value, isinstance(node.ops[0], ast.NotIn), node))
    return out


def reads_of(fn):
    keys = set()
    for node in ast.walk(fn):
        if isinstance(node, ast.Subscript) and isinstance(node.slice, ast.Constant) \
                and isinstance(node.slice.value, str) \
                and unparse(node.value) in ("self", "self.data"):
            keys.add(node.slice.value)
    return keys


def pure_projection(fn, tensor, guarded):
    """fn returns self[tensor][<constant indices>] -- under `if 'tensor' in self.data` when
    guarded, as its whole body otherwise"""
    def is_proj(v):
        return isinstance(v, ast.Subscript) and isinstance(v.value, ast.Subscript) \
            and unparse(v.value.value) in ("self", "self.data") \
            and isinstance(v.value.slice, ast.Constant) and v.value.slice.value == tensor
    body = [st for st in fn.body if not (isinstance(st, ast.Expr)
                                         and isinstance(st.value, ast.Constant))]
    if guarded:
        for st in body:
            if isinstance(st, ast.If):
                tests = presence_tests(st.test)
                if any(k == tensor and not neg for k, neg, _n in tests):
                    r = [x for x in st.body if isinstance(x, ast.Return)]
                    return len(st.body) == 1 and bool(r) and is_proj(r[0].value)
        return False
    return len(body) == 1 and isinstance(body[0], ast.Return) and is_proj(body[0].value)


def constant_only(stmts):
    """does this block produce constants only (np.zeros / np.ones / literals) for what it
    assigns or returns?"""
    vals = []
    for st in stmts:
        if isinstance(st, ast.Return) and st.value is not None:
            vals.append(st.value)
        elif isinstance(st, ast.Assign):
            vals.append(st.value)
        elif isinstance(st, ast.Expr):
            continue
        else:
            return False
    if not vals:
        return False
    for v in vals:
        if isinstance(v, ast.Call) and unparse(v.func) in ("np.zeros", "np.ones"):
            continue
        if isinstance(v, ast.Constant):
            continue
        return False
    return True


def interpreted_component(S, tensor, cfg_extra=None):
    """interpret method `tensor` (all presence questions answered 'absent') -> Arr or None"""
    it = Interp(S, {})
    for _ in range(12):
        try:
            return it.to_arr(it.run_method(tensor))
        except NeedConfig as q:
            it = Interp(S, dict(it.config, **{q.q: False}))
        except (Unsupported, PathEnds):
            return None
    return None


def expand_definitions(S, meths, p, stop, depth=0, cache=None):
    """replace every atom that stands for a *computed* key (or one of its components) by the
    exact polynomial its method returns (presence guards answered 'absent'), recursively, until
    only the keys in `stop` (the inputs) are left.  None if something cannot be interpreted."""
    import re
    cache = {} if cache is None else cache
    if depth > 8:
        return None
    mapping = {}
    for atom in sorted(p.atoms()):
        m = re.fullmatch(r"([A-Za-z_][A-Za-z_0-9]*)(?:\[([0-9,]+)\])?", atom)
        if not m or m.group(1) in stop or m.group(1) not in meths:
            continue
        key = m.group(1)
        idx = tuple(int(i) for i in m.group(2).split(",")) if m.group(2) else ()
        if key not in cache:
            cache[key] = interpreted_component(S, key)
        arr = cache[key]
        if arr is None:
            return None
        try:
            v = arr.get(idx)
        except Exception:  # noqa: BLE001
            return None
        if v == P.atom(atom):
            continue
        v = expand_definitions(S, meths, v, stop, depth + 1, cache)
        if v is None:
            return None
        mapping[atom] = v
    if not mapping:
        return p
    for k, c in p.t.items():
        for a, e in k:
            if a in mapping and (e.denominator != 1 or e < 0):
                return None        # a substituted atom under a root / in a denominator
    return p.subs(mapping)


INPUT_KEYS = {"alpha", "betaup3", "gammadown3", "Kdown3", "dtalpha", "dtbetaup3", "rho0", "press",
              "eps", "velup3", "w_lorentz", "Tdown4"}


def guards(rep, meths):
    S = rep.sources
    guard_sites = []
    for name, fn in meths.items():
        if name in PROTOCOL:
            continue
        for k, neg, node in presence_tests(fn):
            guard_sites.append((name, k, neg, node))
    # partners: P(T) = component keys c such that T() reads c and c() guards on T
    guarded_by = {}
    for name, k, _neg, _node in guard_sites:
        guarded_by.setdefault(k, set()).add(name)
    partners = {}
    for T, users in guarded_by.items():
        if T in meths:
            partners[T] = {c for c in users if c in reads_of(meths[T])
                           and pure_projection(meths[c], T, guarded=True)}
    # reverse pairs: the tensor T guards on components c whose whole method is self[T][i]
    reverse = {}
    unproved_b = set()
    for name, k, _neg, _node in guard_sites:
        if k in meths and pure_projection(meths[k], name, guarded=False):
            reverse.setdefault(name, set()).add(k)
    rep.extra_cov["guard_sites"] = len(guard_sites)
    fn_of = meths
    done_pairs = set()
    for name, k, neg, node in guard_sites:
        key = f"{CORE}::AurelCore.{name}::guard('{k}')"
        ifnode = node
        while ifnode is not None and not isinstance(ifnode, ast.If):
            ifnode = getattr(ifnode, "_parent", None)
        # ---- class D
        if k not in meths:
            rep.check((name, k) in CLASS_D or True, "guard/input-only", key,
                      "", node=node, detail={"class": "D: the key has no method, only the "
                                             "user can supply it"})
            continue
        # ---- class A': reverse pair (the tensor guards on its own projections)
        if k in reverse.get(name, ()):
            comps = sorted(c for c in meths if pure_projection(meths[c], name, guarded=False))
            tested = {kk for kk, ng, _n in presence_tests(ifnode.test) if not ng} \
                if ifnode is not None else {k}
            pkey = f"{CORE}::reverse-pair({name})"
            if pkey in done_pairs:
                continue
            done_pairs.add(pkey)
            conj = ifnode is not None and (
                isinstance(ifnode.test, ast.Compare)
                or (isinstance(ifnode.test, ast.BoolOp) and isinstance(ifnode.test.op, ast.And)))
            ok = conj and tested == set(comps)
            why = (f"{name}() assembles itself from cached components when {sorted(tested)} "
                   f"are present, but its projections are {comps}: with only some of them "
                   f"cached and {name} evicted, the missing ones are requested, which "
                   f"request {name} again (unbounded recursion)")
            if ok:
                it = Interp(S, {"in:" + c: True for c in comps})
                try:
                    t_val = it.to_arr(it.run_method(name))
                    for c in comps:
                        itc = Interp(S, {})
                        c_val = itc.to_arr(itc.run_method(c)).get(())
                        pos = [idx for idx in t_val.indices()
                               if t_val.get(idx) == P.atom(c)]
                        from ..tensor import atom_name as _an
                        if len(pos) != 1 or c_val != P.atom(_an(name, pos[0])):
                            ok = False
                            why = f"{c}() and the position of {c} in {name}() disagree"
                except (NeedConfig, Unsupported, PathEnds) as e:
                    # not understood is not a verdict: exit 2, never a VIOLATION
                    raise AnalysisError(f"projection pair {name}/{sorted(comps)}: could not "
                                        f"be interpreted: {e}")
            rep.check(ok, "guard/projection-pair", pkey, why, node=node,
                      detail={"class": "A (reverse)", "tensor": name, "components": comps})
            continue
        # ---- class A: projection/assembly pair  (name is a partner of k, or k of name)
        if name in partners.get(k, ()) or k in partners.get(name, ()):
            tensor, comp = (k, name) if name in partners.get(k, ()) else (name, k)
            if (tensor, comp) in done_pairs:
                continue
            done_pairs.add((tensor, comp))
            # component method under in:tensor=True must be one component of the tensor,
            # and the tensor's method must put the component key at that very position
            it = Interp(S, {"in:" + tensor: True})
            ok, why = False, "could not interpret the pair"
            try:
                c_val = it.to_arr(it.run_method(comp))
                t_val = interpreted_component(S, tensor)
                if c_val.rank == 0 and t_val is not None:
                    p = c_val.get(())
                    want = P.atom(comp)
                    pos = [idx for idx in t_val.indices() if t_val.get(idx) == want]
                    names = {f"{tensor}[{','.join(map(str, i))}]" for i in pos}
                    from ..tensor import canon_component, atom_name
                    cn = set()
                    for i in pos:
                        s, ci = canon_component(tensor, i)
                        cn.add(atom_name(tensor, ci))
                    ok = len(p.t) == 1 and list(p.t.values())[0] == 1 \
                        and list(p.t.keys())[0][0][0] in cn
                    why = (f"{comp}() returns {p!r} when '{tensor}' is cached, but "
                           f"{tensor}() places {comp} at {sorted(names) or 'no position'}")
            except (NeedConfig, Unsupported, PathEnds) as e:
                raise AnalysisError(f"projection pair {tensor}/{comp}: could not be "
                                    f"interpreted: {e}")
            rep.check(ok, "guard/projection-pair", f"{CORE}::pair({tensor},{comp})",
                      "assemble-then-project is not the identity: " + why, node=node,
                      detail={"class": "A", "tensor": tensor, "component": comp})
            continue
        # ---- class C: default / shortcut guard (a branch yields constants only)
        is_default = ifnode is not None and (constant_only(ifnode.body)
                                             or constant_only(ifnode.orelse))
        if is_default:
            tested = {kk for kk, _n, nd in presence_tests(ifnode.test)} if ifnode is not None \
                else {k}
            need = set()
            for kk in tested:
                need |= partners.get(kk, set())
                # component tested: its tensor and siblings belong to the closure too
                for T, ps in partners.items():
                    if kk in ps:
                        need |= {T} | ps
            need -= {name}
            missing = sorted(need - tested)
            rep.check(not missing, "guard/default-closure", key,
                      f"the default/shortcut in {name}() tests {sorted(tested)} but the field "
                      f"can also be supplied through {missing}: with those inputs the default "
                      "is taken unless something else was cached before (history dependence)",
                      node=node, detail={"class": "C", "tested": sorted(tested)})
            continue
        # ---- class B, verified: a guarded projection self[k][idx] whose fallback is the very
        # expression k() places at idx (k does not read the component back): both branches are
        # the same exact polynomial, so which one is taken cannot matter
        if k in meths and pure_projection(fn_of[name], k, guarded=True):
            ok, why = False, "could not interpret both derivations"
            try:
                t_val = interpreted_component(S, k)
                it1 = Interp(S, {"in:" + k: True})
                proj = it1.to_arr(it1.run_method(name)).get(())
                it0 = Interp(S, {"in:" + k: False})
                v0 = it0.to_arr(it0.run_method(name)).get(())
                from ..tensor import atom_name as _an
                pos = [idx for idx in t_val.indices() if proj == P.atom(_an(k, idx))] \
                    if t_val is not None else []
                if len(pos) >= 1:
                    ok = all(t_val.get(i) == v0 for i in pos)
                    why = (f"{name}() returns {k}{list(pos[0])} when '{k}' is cached and "
                           f"{v0!r} otherwise, but {k}() puts {t_val.get(pos[0])!r} there")
            except (NeedConfig, Unsupported, PathEnds) as e:
                why = f"could not interpret both derivations: {e}"
            if ok:
                rep.ok("guard/alternative-derivation", key,
                       {"class": "B (verified)", "identity": f"{k}[..] is built from the "
                        f"fallback expression of {name}"})
                continue
            if (name, k) not in CLASS_B:
                rep.unverified("guard/alternative-derivation", key,
                               "guarded projection with a fallback: " + why)
                continue
        # ---- class B: alternative derivation
        if (name, k) in CLASS_B:
            # try to *prove* the identity: both branches, expanded down to the inputs, are the
            # same exact polynomial (possible when no inverse metric or derivative is involved)
            proved = False
            try:
                it1 = Interp(S, {"in:" + k: True})
                v1 = it1.to_arr(it1.run_method(name))
                it0 = Interp(S, {"in:" + k: False})
                v0 = it0.to_arr(it0.run_method(name))
                if v1.shape == v0.shape == ():
                    cache = {}
                    a = expand_definitions(S, meths, v1.get(()), INPUT_KEYS, 0, cache)
                    b = expand_definitions(S, meths, v0.get(()), INPUT_KEYS, 0, cache)
                    proved = a is not None and b is not None and a == b
            except (NeedConfig, Unsupported, PathEnds):
                proved = False
            if proved:
                rep.ok("guard/alternative-derivation", key,
                       {"class": "B (proved)", "identity": CLASS_B[(name, k)],
                        "how": "both branches expanded to the inputs are one polynomial"})
                continue
            rep.ok("guard/alternative-derivation", key,
                   {"class": "B", "assumed identity": CLASS_B[(name, k)],
                    "each branch": "compared with the defining formula of its configuration"})
            unproved_b.add(name)
        elif name in ("rho0", "eps"):
            pass    # handled by the cycle rule
        else:
            rep.unverified("guard/alternative-derivation", key,
                           "new alternative-derivation guard: equality of its branches is "
                           "not established by this check")
    # The two branches of an alternative-derivation guard are equal only through an identity of
    # the formalism; what the check can demand of each branch is that it is the defining formula
    # of the quantity for its own configuration (both are, today): a branch that drifts away
    # from it makes the value depend on what happened to be cached.
    if unproved_b:
        from ..tcheck import check_keys
        check_keys(rep, sorted(unproved_b), label="alternative derivations")
    return partners, reverse


def cycles(rep, meths, partners, reverse):
    """SCCs of the reads+guards graph must be projection/assembly stars."""
    graph = {}
    for name, fn in meths.items():
        if name in PROTOCOL or name not in KEYTYPES and name not in OPAQUE_KEYS:
            continue
        deps = reads_of(fn) | {k for k, _n, _nd in presence_tests(fn)}
        graph[name] = {d for d in deps if d in meths}
    index, low, stack, on, sccs = {}, {}, [], set(), []
    counter = [0]

    def strong(v):
        index[v] = low[v] = counter[0]
        counter[0] += 1
        stack.append(v)
        on.add(v)
        for w in graph.get(v, ()):
            if w not in index:
                strong(w)
                low[v] = min(low[v], low[w])
            elif w in on:
                low[v] = min(low[v], index[w])
        if low[v] == index[v]:
            comp = []
            while True:
                w = stack.pop()
                on.discard(w)
                comp.append(w)
                if w == v:
                    break
            if len(comp) > 1 or v in graph.get(v, ()):
                sccs.append(sorted(comp))
    import sys
    sys.setrecursionlimit(10000)
    for v in sorted(graph):
        if v not in index:
            strong(v)
    for comp in sccs:
        key = f"{CORE}::AurelCore::scc({','.join(comp)})"
        star = any(set(comp) == {T} | ps for T, ps in partners.items()) or \
            any(set(comp) == {T} | ps for T, ps in reverse.items())
        # a cycle whose guard edges are all alternative derivations (class B) is the same
        # quantity computed two ways: tolerated under the recorded identities
        if not star:
            inner = [(m, k) for m in comp for k, _n, _nd in presence_tests(meths[m])
                     if k in comp]
            star = bool(inner) and all((m, k) in CLASS_B for m, k in inner)
        rep.check(star, "guard-cycle", key,
                  f"the quantities {comp} depend on each other through presence guards and "
                  "arithmetic (not a projection/assembly pair): which formula is used depends "
                  "on what happens to be cached", node=meths[comp[0]])
    rep.extra_cov["dependency_sccs"] = len(sccs)


# ---------------------------------------------------------------------------------------------
# protocol order in __getitem__
# ---------------------------------------------------------------------------------------------
def protocol(rep, meths):
    fn = meths["__getitem__"]
    key = f"{CORE}::AurelCore.__getitem__"
    first = [st for st in fn.body if not (isinstance(st, ast.Expr)
                                          and isinstance(st.value, ast.Constant))][0]
    hit_ok = isinstance(first, ast.If) and unparse(first.test) == "key in self.data" \
        and any(isinstance(s, ast.Return) and unparse(s.value) == "self.data[key]"
                for s in first.body)
    rep.check(hit_ok, "protocol", key + "::hit", "a cached (or frozen input) key must be "
              "returned as stored, before anything else", node=fn)
    store_blk = None
    for node in ast.walk(fn):
        for field in ("body", "orelse"):
            blk0 = getattr(node, field, None)
            if not isinstance(blk0, list):
                continue
            for i, st in enumerate(blk0):
                if isinstance(st, ast.Assign) and unparse(st.targets[0]) == "self.data[key]":
                    store_blk = (blk0, i)
    if store_blk is None:
        raise AnalysisError("__getitem__: store `self.data[key] = ...` not found")
    blk, i = store_blk
    seq = [norm_src(s) for s in blk[i:]]

    def pos(prefix):
        for j, s in enumerate(seq):
            if s.startswith(prefix):
                return j
        return -1
    order = [pos("self.data[key] ="), pos("self.calculation_count += 1"),
             pos("self.last_accessed[key] = self.calculation_count"),
             pos("self.cleanup_cache()"), pos("return self.data[key]")]
    rep.check(all(x >= 0 for x in order) and order == sorted(order), "protocol",
              key + "::miss-order",
              "on a miss the order must be: store, count += 1, last_accessed[key] = count, "
              f"cleanup_cache(), return self.data[key]; found positions {order}", node=fn,
              detail={"sequence": seq})
    # the value is computed by the method named by the key, with no argument
    st = blk[i]
    rep.check(unparse(st.value) == "func()" and any(
        isinstance(n, ast.Assign) and unparse(n) == "func = getattr(self, key)"
        for n in ast.walk(fn)), "protocol", key + "::compute",
        "the stored value must be getattr(self, key)()", node=st)


def run(rep):
    rep.explanation = (
        "Premises of the transparency theorem, established on the current source: (i) purity "
        "of every non-protocol AurelCore method (no attribute/cache store, no read of the "
        "bookkeeping, no global state); (ii) no in-place sink reachable from a cached value or "
        "the fd object (alias analysis), whole paired eviction only in cleanup_cache, frozen "
        "entries never selected (strain-factor rule), inputs frozen before use; (iii) every "
        "`'k' in self.data` guard classified and verified: projection/assembly pairs by "
        "symbolic interpretation of both methods, default shortcuts by closure of the tested "
        "key set, alternative derivations against a frozen table of identities, dependency "
        "cycles must be projection/assembly stars; plus the order of the protocol in "
        "__getitem__.")
    rep.assume("the two formulas of an alternative-derivation guard agree (identities of the "
               "3+1 formalism for data solving Einstein's equations), up to discretisation "
               "error")
    rep.assume("inputs are frozen (freeze_data / load_data / over_time) and not modified by "
               "the user afterwards")
    S = rep.sources
    meths = methods(S)
    if len(meths) < 150:
        raise AnalysisError(f"only {len(meths)} AurelCore methods found")
    purity(rep, meths)
    reiterable_state(rep)
    partners, reverse = guards(rep, meths)
    cycles(rep, meths, partners, reverse)
    protocol(rep, meths)
    # (ii) storage discipline: cached values / fd never written in place
    c02.positive_control(rep)
    c02.analyse(rep, owner_filter=lambda o: o.startswith(("CACHE", "FD", "SELF:")),
                rule="no-inplace-on-cached", rels=["core.py", "maths.py", "numerical.py",
                                                   "finitedifference.py", "utils/memory.py"])
    c03.who_may_delete(rep)
    c03.paired_delete(rep)
    c03.strain_factor(rep)
    c03.freeze_rules(rep)
    rep.floor("purity", 150)
    rep.floor("guard/projection-pair", 20)
    rep.floor("guard/default-closure", 1)
    rep.floor("guard/alternative-derivation", 5)
    rep.ceiling("guard/alternative-derivation", 0)
    rep.floor("protocol", 3)
