"""C02 -- requests never modify user inputs or values already handed out.

Ownership discipline decided by the alias/mutation analysis (aurelsa.alias) over core.py,
coresymbolic.py, time.py, reading.py, maths.py, finitedifference.py, numerical.py and
utils/memory.py: no in-place sink may be reached by a value that can share storage with a
cached quantity, an attribute of the FiniteDifference object, or a caller-owned argument of a
public entry point (module-level tables are left to the module-state rules of C14/C18).  Deliberate writers (the cache protocol, helpers
documented to fill their own argument) are an explicit table; the latter are judged at their
call sites through interprocedural summaries."""
from __future__ import annotations

import ast

from ..alias import Analyzer, collect_functions
from ..common import AnalysisError, norm_src, unparse

LEVEL = "other"
RELS = ["core.py", "coresymbolic.py", "time.py", "reading.py", "maths.py", "finitedifference.py",
        "numerical.py", "utils/memory.py"]

# (function, owner tag prefix, root of the written expression) -> reason
ALLOWED = {
    ("core.py::AurelCore.__init__", "SELF:", "self."): "constructor initialises its own state",
    ("core.py::AurelCore.__getitem__", "CACHEDICT", "self.data"):
        "the cache store of a freshly computed value",
    ("core.py::AurelCore.__getitem__", "SELF:last_accessed", "self.last_accessed"):
        "age bookkeeping",
    ("core.py::AurelCore.cleanup_cache", "CACHEDICT", "self.data"): "paired eviction (C03)",
    ("core.py::AurelCore.cleanup_cache", "SELF:last_accessed", "self.last_accessed"):
        "paired eviction (C03)",
    ("core.py::AurelCore.load_data", "CACHEDICT", "self.data"): "documented loader",
    ("core.py::AurelCore.freeze_data", "SELF:var_importance", "self.var_importance"):
        "documented freeze",
    ("coresymbolic.py::AurelCoreSymbolic.__init__", "SELF:", "self."): "constructor",
    ("coresymbolic.py::AurelCoreSymbolic.__getitem__", "CACHEDICT", "self.data"):
        "the cache store of a freshly computed value",
    ("finitedifference.py::FiniteDifference.__init__", "SELF:", "self."): "constructor",
    ("time.py::process_single_timestep", "CACHEDICT", "rel.data"):
        "inputs handed to a per-step instance created in this call",
    ("time.py::process_single_timestep", "CACHE:*", "rel.var_importance"): "freeze of a custom variable",
    ("time.py::validate_variable_function", "CACHEDICT", "rel.data"):
        "dummy instance created in this call",
    ("time.py::process_single_timestep", "PARAM:data", "data"):
        "documented: fills the per-step dict it is given (a fresh dict at its call sites)",
    ("reading.py::transform_vars_ET_to_aurel_groups", "PARAM:vars", "vars"):
        "documented helper consuming its list (a fresh list at its call sites)",
    ("reading.py::collect_overall_iterations", "PARAM:its_available", "its_available"):
        "documented: adds the 'overall' entry to the catalogue it is given",
    ("utils/memory.py::format_size", "PARAM:size_bytes", "size_bytes"):
        "documented int/float scalar: `/=` rebinds a number, it cannot write into an array",
    ("reading.py::read_ET_group_or_var", "PARAM:variables", "variables"):
        "helper renaming entries of its own variable list (catalogue keys are tuples)",
}
# functions whose parameters are caller-owned user objects
PUBLIC_PREFIXES = ("core.py::AurelCore.", "coresymbolic.py::AurelCoreSymbolic.",
                   "time.py::over_time", "time.py::est_functions", "reading.py::",
                   "maths.py::", "finitedifference.py::", "numerical.py::",
                   "utils/memory.py::", "time.py::validate_", "time.py::process_single")


def written_root(node):
    """text of the expression that is written through"""
    t = None
    if isinstance(node, ast.Assign):
        t = node.targets[0]
    elif isinstance(node, ast.AugAssign):
        t = node.target
    elif isinstance(node, ast.Delete):
        t = node.targets[0]
    elif isinstance(node, ast.Call) and isinstance(node.func, ast.Attribute):
        t = node.func.value
    if t is None:
        return unparse(node)[:40]
    while isinstance(t, ast.Subscript):
        t = t.value
    return unparse(t)


def shared(owner):
    return owner.startswith(("CACHE", "FD", "KW:", "GLOBAL:", "PARAM:", "SELF:", "MEMO:"))


def not_global(o):
    """C02 itself is about user-supplied and handed-out objects; writes to module-level tables
    are the business of the module-state rules of C14 and C18, which pass no filter."""
    return not o.startswith("GLOBAL:")


def analyse(rep, owner_filter=None, rule="no-inplace-on-shared", rels=None, only=None):
    S = rep.sources
    fns = collect_functions(S, rels or RELS)
    an = Analyzer(fns)
    muts = an.run()
    seen = set()
    n_ok = 0
    for m in muts:
        if only is not None and m.fn.split("::")[1] not in only:
            continue
        owners = {o for o in m.owners if shared(o)}
        if owner_filter:
            owners = {o for o in owners if owner_filter(o)}
        if not owners:
            continue
        root = written_root(m.node)
        left = set()
        for o in owners:
            ok = False
            for (fn, pref, rt), _why in ALLOWED.items():
                if m.fn == fn and o.startswith(pref) and (root == rt or root.startswith(rt)):
                    ok = True
                    break
            if not ok:
                left.add(o)
        key = f"{m.fn}::{norm_src(m.node)[:70]}"
        if key in seen:
            continue
        seen.add(key)
        if left:
            what = ", ".join(sorted(describe(o) for o in left))
            rep.violation(rule, key, f"{m.how} modifies in place storage that may be shared "
                          f"with {what}", node=m.node, file=m.fn.split("::")[0])
        else:
            n_ok += 1
            rep.ok(rule + "/allowed-writer", key)
    # every function analysed without a finding is an instance of the rule
    flagged_fns = {m.fn for m in muts}
    for q in fns:
        if q not in flagged_fns and (only is None or q.split("::")[1] in only):
            rep.ok(rule, q)
    rep.extra_cov["functions_analysed"] = len(fns)
    rep.extra_cov["sinks_on_owned_values"] = len(seen)
    return an, fns


def describe(o):
    if o.startswith("CACHE:"):
        return f"the cached quantity '{o[6:]}' (possibly already handed out)"
    if o == "CACHEDICT":
        return "the cache dictionary"
    if o.startswith("FD"):
        return "an attribute of the shared FiniteDifference object"
    if o.startswith("KW:"):
        return f"the caller's keyword argument '{o[3:]}'"
    if o.startswith("PARAM:"):
        return f"the caller's argument '{o[6:]}'"
    if o.startswith("GLOBAL:"):
        return f"the module-level table '{o[7:]}'"
    if o.startswith("SELF:"):
        return f"the instance attribute '{o[5:]}'"
    return o


POSITIVE = '''
class AurelCore:
    def K2(self):
        K = self["Kdown3"]
        K *= 2
        return K
    def shifted(self):
        x = self.fd.x
        x -= 1.0
        return x
def save(param, data, **kwargs):
    vars = kwargs.get('vars', [])
    vars += ['it']
    return vars
'''


def positive_control(rep):
    """Tiny embedded example that must be flagged on every run (the rule's expected count on
    a healthy tree is zero)."""
    import ast as _ast
    tree = _ast.parse(POSITIVE)
    fns = {}
    for node in tree.body:
        if isinstance(node, _ast.FunctionDef):
            fns[f"core.py::{node.name}"] = ("core.py", node, False)
        elif isinstance(node, _ast.ClassDef):
            for sub in node.body:
                fns[f"core.py::{node.name}.{sub.name}"] = ("core.py", sub, True)
    muts = Analyzer(fns).run()
    got = {(m.fn.split("::")[1], tuple(sorted(o for o in m.owners if shared(o)))) for m in muts}
    want = {("AurelCore.K2", ("CACHE:Kdown3",)), ("AurelCore.shifted", ("FD",)),
            ("save", ("KW:vars",))}
    if not want <= got:
        raise AnalysisError(f"positive control not flagged: got {sorted(got)}")
    rep.ok("positive-control", "embedded example: 3 in-place updates flagged")


def run(rep):
    rep.explanation = (
        "Interprocedural alias/ownership dataflow (own / element / nested owner sets, "
        "flow-sensitive, summaries to a fixpoint) over every function of the anchored modules; "
        "one rule instance per function without a reachable in-place sink on shared storage, "
        "one per allowed writer of the frozen table, and a violation for any other sink "
        "(augmented assignment, subscript/attribute store, del, mutating method, numpy writer, "
        "out= / overwrite_input=) whose target may share storage with a cached value, an fd "
        "attribute or a caller-owned argument.")
    rep.assume("numpy/scipy/h5py/sympy internals do not mutate arguments passed without "
               "out=/overwrite_input; user-supplied callables (custom variables, estimators) "
               "are trusted not to mutate what they are given")
    positive_control(rep)
    analyse(rep, owner_filter=not_global)
    rep.floor("no-inplace-on-shared", 150)
