"""C03 -- frozen inputs are never evicted; cache clean-up keeps its bookkeeping consistent.

Typestate / pairing rules over core.py (cache protocol), utils/memory.py and time.py, decided on
the syntax tree with a small event simulation for the ordering clauses:

  who-may-delete       entries of data / last_accessed are removed only in cleanup_cache
  paired-delete        data[k] and last_accessed[k] are deleted together, same key, adjacent
  whole-entries        no partial deletion of a cached value
  strain-factor        every removal predicate is `strain > bound` (strict, bound >= 0) with
                       strain = 0 or a product containing var_importance.get(<that key>, .)
  freeze-zero          freeze_data stores literal 0 for every key of data; load_data must-calls it
  freeze-before-use    in time.py every store into rel.data is frozen before anything can run
                       on rel (rel[...] or a user function applied to rel)
  importance-writers   nothing outside __init__ stores a non-zero importance
  no-mutation-in-loop  no insertion/deletion on a dict while iterating over it
  termination          every path through the while body breaks or deletes a last_accessed key
  no-raise             key_to_remove assigned with maxstrain; get_size total
  age-table            last_accessed[k] is only written for keys present in data
"""
from __future__ import annotations

import ast

from ..common import all_paths_return, AnalysisError, norm_src, unparse
from ..exact import const_value

LEVEL = "other"
CORE = "core.py"
TIME = "time.py"
MEM = "utils/memory.py"


def is_self_sub(node, attr):
    """node is  self.<attr>[...]"""
    return isinstance(node, ast.Subscript) and isinstance(node.value, ast.Attribute) \
        and isinstance(node.value.value, ast.Name) and node.value.attr == attr


def obj_sub(node, attr):
    """node is  <name>.<attr>[...]  -> name"""
    if isinstance(node, ast.Subscript) and isinstance(node.value, ast.Attribute) \
            and isinstance(node.value.value, ast.Name) and node.value.attr == attr:
        return node.value.value.id
    return None


def enclosing_function(node):
    n = node
    while n is not None and not isinstance(n, (ast.FunctionDef, ast.AsyncFunctionDef)):
        n = getattr(n, "_parent", None)
    return n


def block_of(node):
    """(list of statements containing node, index)"""
    par = getattr(node, "_parent", None)
    for field in ("body", "orelse", "finalbody"):
        blk = getattr(par, field, None)
        if isinstance(blk, list) and node in blk:
            return blk, blk.index(node)
    return None, None


# ---------------------------------------------------------------------------------------------
def who_may_delete(rep):
    S = rep.sources
    n_del = 0
    for rel in ("core.py", "time.py", "reading.py", "maths.py", "numerical.py",
                "finitedifference.py"):
        tree = S.module(rel)
        for node in ast.walk(tree):
            targets = []
            if isinstance(node, ast.Delete):
                targets = node.targets
            elif isinstance(node, ast.Call) and isinstance(node.func, ast.Attribute) \
                    and node.func.attr in ("pop", "clear", "popitem") \
                    and isinstance(node.func.value, ast.Attribute) \
                    and node.func.value.attr in ("data", "last_accessed") \
                    and isinstance(node.func.value.value, ast.Name) \
                    and node.func.value.value.id in ("self", "rel"):
                fn = enclosing_function(node)
                rep.violation("who-may-delete", f"{rel}::{fn.name if fn else '?'}::"
                              + norm_src(node)[:50],
                              f"`{norm_src(node)[:60]}` removes cache entries outside the "
                              "paired deletion protocol of cleanup_cache", node=node)
                continue
            for t in targets:
                for attr in ("data", "last_accessed"):
                    owner = obj_sub(t, attr)
                    if owner is None and isinstance(t, ast.Subscript):
                        # partial deletion: del self.data[k][...]
                        inner = t.value
                        if obj_sub(inner, attr):
                            rep.violation("whole-entries", f"{rel}::{norm_src(t)[:50]}",
                                          "only whole cache entries may be deleted", node=node)
                        continue
                    if owner in ("self", "rel"):
                        fn = enclosing_function(node)
                        n_del += 1
                        rep.check(rel == CORE and fn is not None
                                  and fn.name == "cleanup_cache", "who-may-delete",
                                  f"{rel}::{fn.name if fn else '?'}::del {attr}",
                                  f"`{norm_src(node)[:60]}` deletes from {attr} outside "
                                  "cleanup_cache", node=node)
    # re-initialisation of the dictionaries
    for node in ast.walk(S.module(CORE)):
        if isinstance(node, ast.Assign):
            for t in node.targets:
                if isinstance(t, ast.Attribute) and isinstance(t.value, ast.Name) \
                        and t.value.id == "self" and t.attr in ("data", "last_accessed",
                                                                "var_importance"):
                    fn = enclosing_function(node)
                    rep.check(fn is not None and fn.name == "__init__", "who-may-delete",
                              f"{CORE}::{fn.name if fn else '?'}::reinit {t.attr}",
                              f"self.{t.attr} is replaced outside __init__", node=node)
    return n_del


def paired_delete(rep):
    S = rep.sources
    fn = S.function(CORE, "AurelCore.cleanup_cache")
    sites = []
    for node in ast.walk(fn):
        if isinstance(node, ast.Delete):
            d = [unparse(t.slice) for t in node.targets if is_self_sub(t, "data")]
            la = [unparse(t.slice) for t in node.targets if is_self_sub(t, "last_accessed")]
            if d or la:
                sites.append((node, d, la))
    if not sites:
        raise AnalysisError("cleanup_cache: no deletion site found")
    i = 0
    while i < len(sites):
        node, d, la = sites[i]
        key = f"{CORE}::AurelCore.cleanup_cache::del[{(d or la)[0]}]"
        if d and la:
            rep.check(sorted(d) == sorted(la), "paired-delete", key,
                      f"data[{d}] and last_accessed[{la}] deleted with different keys",
                      node=node)
            i += 1
            continue
        # split over two adjacent statements
        ok = False
        if i + 1 < len(sites):
            node2, d2, la2 = sites[i + 1]
            blk, k = block_of(node)
            blk2, k2 = block_of(node2)
            if blk is not None and blk is blk2 and k2 == k + 1 \
                    and sorted(d + d2) == sorted(la + la2) and len(d + d2) == 1:
                ok = True
        rep.check(ok, "paired-delete", key,
                  "deletion of a data entry is not immediately paired with the deletion of the "
                  "same key in last_accessed (or vice versa)", node=node)
        i += 2 if ok else 1


def assignments_in(body, name):
    out = []
    for st in body:
        for node in ast.walk(st):
            if isinstance(node, ast.Assign):
                for t in node.targets:
                    if isinstance(t, ast.Name) and t.id == name:
                        out.append(node.value)
            elif isinstance(node, ast.AugAssign) and isinstance(node.target, ast.Name) \
                    and node.target.id == name:
                out.append(node)
    return out


def product_factors(node):
    if isinstance(node, ast.BinOp) and isinstance(node.op, ast.Mult):
        return product_factors(node.left) + product_factors(node.right)
    return [node]


def importance_get(node, keyvar):
    """node is self.var_importance.get(<keyvar>, <default>) or self.var_importance[<keyvar>]"""
    if isinstance(node, ast.Call) and unparse(node.func) == "self.var_importance.get" \
            and node.args and unparse(node.args[0]) == keyvar:
        return True
    if is_self_sub(node, "var_importance") and unparse(node.slice) == keyvar:
        return True
    return False


def removal_vars(fn):
    """names that hold the key(s) selected for removal: the subscript of a deletion from
    self.data / self.last_accessed, or the list such a subscript iterates over"""
    out = set()
    for node in ast.walk(fn):
        if isinstance(node, ast.Delete):
            for t in node.targets:
                if (is_self_sub(t, "data") or is_self_sub(t, "last_accessed")) \
                        and isinstance(t.slice, ast.Name):
                    nm = t.slice.id
                    par = getattr(node, "_parent", None)
                    while par is not None and not isinstance(par, ast.FunctionDef):
                        if isinstance(par, ast.For) and isinstance(par.target, ast.Name) \
                                and par.target.id == nm and isinstance(par.iter, ast.Name):
                            nm = par.iter.id
                            break
                        par = getattr(par, "_parent", None)
                    out.add(nm)
    # a removal variable that is a plain copy of another local (the key found by a scan and
    # handed over under another name): both name the key that is removed
    for _ in range(3):
        for a in ast.walk(fn):
            if isinstance(a, ast.Assign) and len(a.targets) == 1 \
                    and isinstance(a.targets[0], ast.Name) and a.targets[0].id in out \
                    and isinstance(a.value, ast.Name):
                out.add(a.value.id)
    return out


def strain_factor(rep):
    S = rep.sources
    fn = S.function(CORE, "AurelCore.cleanup_cache")
    rvars = removal_vars(fn)
    if not rvars:
        raise AnalysisError("cleanup_cache: no deletion keyed by a local name found")

    def records(s):
        t = s.targets[0] if isinstance(s, ast.Assign) else s.target
        return isinstance(t, ast.Name) and t.id in rvars
    loops = [n for n in ast.walk(fn) if isinstance(n, ast.For)
             and "self.last_accessed" in unparse(n.iter)]
    if len(loops) < 2:
        raise AnalysisError("cleanup_cache: expected two scans over last_accessed")
    for li, loop in enumerate(loops):
        tgt = loop.target
        keyvar = unparse(tgt.elts[0]) if isinstance(tgt, ast.Tuple) else unparse(tgt)
        base = f"{CORE}::AurelCore.cleanup_cache::scan{li}"
        # the entry under test may be held under further names: `k = <loop key>` in the body
        keyvars = {keyvar}
        grew = True
        while grew:
            grew = False
            for a in ast.walk(loop):
                if isinstance(a, ast.Assign) and len(a.targets) == 1 \
                        and isinstance(a.targets[0], ast.Name) and isinstance(a.value, ast.Name) \
                        and a.value.id in keyvars and a.targets[0].id not in keyvars \
                        and sum(isinstance(x, ast.Name) and x.id == a.targets[0].id
                                and isinstance(x.ctx, ast.Store) for x in ast.walk(loop)) == 1:
                    keyvars.add(a.targets[0].id)
                    grew = True

        def importance_of_entry(f):
            return any(importance_get(f, k) for k in keyvars)
        # selection predicates: `if strain > bound:` whose body records the key
        preds = []
        for node in ast.walk(loop):
            if isinstance(node, ast.If) and isinstance(node.test, ast.Compare) \
                    and len(node.test.ops) == 1 and isinstance(node.test.left, ast.Name):
                direct = [s for s in node.body if isinstance(s, (ast.Assign, ast.AugAssign))]
                if any(records(s) for s in direct):
                    preds.append(node)
        if not preds:
            raise AnalysisError(f"cleanup_cache scan {li}: no selection predicate found")
        for pred in preds:
            svar = pred.test.left.id
            bound = pred.test.comparators[0]
            rep.check(isinstance(pred.test.ops[0], ast.Gt), "strain-factor",
                      f"{base}::strict", f"selection predicate `{unparse(pred.test)}` must be "
                      "a strict `>`: an entry with strain 0 (frozen) must never be selected",
                      node=pred)
            # the key recorded is the loop key
            rec_ok = any(isinstance(n, (ast.Assign, ast.AugAssign))
                         and records(n)
                         and keyvars & {x.id for x in ast.walk(n.value)
                                        if isinstance(x, ast.Name)}
                         for st in pred.body for n in ast.walk(st))
            rep.check(rec_ok, "strain-factor", f"{base}::key",
                      f"the key recorded for removal is not the key `{keyvar}` whose strain "
                      "was tested", node=pred)
            # every value of the strain variable
            vals = assignments_in(loop.body, svar)
            if not vals:
                raise AnalysisError(f"cleanup_cache scan {li}: strain `{svar}` never assigned")
            for v in vals:
                if const_value(v) == 0:
                    rep.ok("strain-factor", f"{base}::{svar}=0")
                    continue
                facs = product_factors(v)
                ok = False
                for f in facs:
                    if importance_of_entry(f):
                        ok = True
                    elif isinstance(f, ast.Name):
                        fv = assignments_in(loop.body, f.id)
                        if fv and all(importance_of_entry(x) for x in fv):
                            ok = True
                rep.check(ok, "strain-factor", f"{base}::{svar}={norm_src(v)[:60]}",
                          f"strain `{norm_src(v)[:80]}` is not a product with the factor "
                          f"self.var_importance.get({keyvar}, .) of the entry under test: an "
                          "importance of 0 (frozen) would not force strain 0", node=v)
            # bound >= 0
            bname = unparse(bound)
            bvals = [x for x in assignments_in(fn.body, bname)] if isinstance(bound, ast.Name) \
                else [bound]
            okb = True
            for bv in bvals:
                if const_value(bv) is not None:
                    okb = okb and const_value(bv) >= 0
                elif isinstance(bv, ast.Name) and bv.id == svar:
                    pass   # maxstrain = strain under strain > maxstrain: grows only
                else:
                    # product of configuration values / sizes
                    names = {unparse(f) for f in product_factors(bv)}
                    okb = okb and all(
                        n.startswith("self.") or n.startswith("self.param[")
                        or const_value(ast.parse(n, mode="eval").body) is not None
                        or n in ("scalar_size",) for n in names)
            rep.check(okb, "strain-factor", f"{base}::bound>=0",
                      f"removal bound `{bname}` is not provably non-negative", node=pred)
        # ages <= 1 are never selected (the value just computed and its operands)
        def gt1(test, inbody):
            """the branch taken implies  <age> > 1  (ages are integers)"""
            if not (isinstance(test, ast.Compare) and len(test.ops) == 1):
                return False
            c = const_value(test.comparators[0])
            op = type(test.ops[0]).__name__
            if c is None:
                return False
            if inbody:
                return (op == "Gt" and c >= 1) or (op == "GtE" and c >= 2)
            return (op == "LtE" and c >= 1) or (op == "Lt" and c >= 2)
        age_guard = True
        n_nonzero = 0
        for node in ast.walk(loop):
            if isinstance(node, ast.Assign) and len(node.targets) == 1 \
                    and isinstance(node.targets[0], ast.Name) \
                    and any(node.targets[0].id == p_.test.left.id for p_ in preds) \
                    and const_value(node.value) != 0:
                n_nonzero += 1
                child, anc, found = node, getattr(node, "_parent", None), False
                while anc is not None and anc is not loop:
                    if isinstance(anc, ast.If):
                        inbody = any(child is x for x in anc.body)
                        if gt1(anc.test, inbody):
                            found = True
                    child, anc = anc, getattr(anc, "_parent", None)
                age_guard = age_guard and found
        if li == 0 and n_nonzero == 0:
            raise AnalysisError("cleanup_cache: no non-zero strain assignment in the first scan")
        if li != 0:
            # the memory-pressure scan applies the same age test around its strain
            age_guard = age_guard and n_nonzero > 0
        rep.check(age_guard, "strain-factor", f"{base}::age>1",
                  "entries accessed within the last calculation must have strain 0", node=loop)


def freeze_rules(rep):
    S = rep.sources
    fz = S.function(CORE, "AurelCore.freeze_data")
    ok = False
    for node in ast.walk(fz):
        if isinstance(node, ast.For) and unparse(node.iter) in ("self.data.keys()", "self.data",
                                                                "list(self.data.keys())"):
            k = unparse(node.target)
            for st in node.body:
                if isinstance(st, ast.Assign) and is_self_sub(st.targets[0], "var_importance") \
                        and unparse(st.targets[0].slice) == k and const_value(st.value) == 0:
                    ok = True
    rep.check(ok, "freeze-zero", f"{CORE}::AurelCore.freeze_data",
              "freeze_data must set var_importance[k] = 0 for every key k of data", node=fz)
    ld = S.function(CORE, "AurelCore.load_data")
    last = ld.body[-1]
    rep.check(isinstance(last, ast.Expr) and unparse(last.value) == "self.freeze_data()",
              "freeze-zero", f"{CORE}::AurelCore.load_data::must-freeze",
              "load_data must end with an unconditional self.freeze_data()", node=ld)
    # importance writers
    for rel in ("core.py", "time.py"):
        for node in ast.walk(S.module(rel)):
            if isinstance(node, (ast.Assign, ast.AugAssign)):
                tgts = node.targets if isinstance(node, ast.Assign) else [node.target]
                for t in tgts:
                    owner = obj_sub(t, "var_importance")
                    if owner is None:
                        continue
                    fn = enclosing_function(node)
                    fname = fn.name if fn else "?"
                    val = const_value(node.value)
                    ok = (fname == "__init__") or (isinstance(node, ast.Assign) and val == 0)
                    rep.check(ok, "importance-writers",
                              f"{rel}::{fname}::{norm_src(node)[:50]}",
                              f"`{norm_src(node)[:60]}` stores a non-zero importance outside "
                              "__init__ (a frozen entry could become evictable)", node=node)


# ---------------------------------------------------------------------------------------------
# freeze-before-use in time.py (event simulation)
# ---------------------------------------------------------------------------------------------
def events(stmts, relname):
    """yield ('STORE', key|'*', node) / ('FREEZE',) / ('FREEZEKEY', key) / ('USE', node) /
    ('LOOP', [events]) / ('BRANCH', [ev...], [ev...]) in program order"""
    out = []
    for st in stmts:
        if isinstance(st, (ast.For, ast.While)):
            out.append(("LOOP", events(st.body, relname)))
            if st.orelse:
                out.extend(events(st.orelse, relname))
            continue
        if isinstance(st, ast.If):
            # uses in the test
            out.extend(expr_events(st.test, relname))
            out.append(("BRANCH", events(st.body, relname), events(st.orelse, relname)))
            continue
        if isinstance(st, ast.Try):
            out.append(("BRANCH", events(st.body, relname),
                        [e for h in st.handlers for e in events(h.body, relname)]))
            continue
        if isinstance(st, ast.With):
            out.extend(events(st.body, relname))
            continue
        if isinstance(st, ast.Assign):
            out.extend(expr_events(st.value, relname))
            for t in st.targets:
                if obj_sub(t, "data") == relname:
                    out.append(("STORE", unparse(t.slice), st))
                elif obj_sub(t, "var_importance") == relname and const_value(st.value) == 0:
                    out.append(("FREEZEKEY", unparse(t.slice)))
            continue
        if isinstance(st, ast.Expr) and isinstance(st.value, ast.Call) \
                and unparse(st.value.func) == f"{relname}.freeze_data":
            out.append(("FREEZE",))
            continue
        for ch in ast.iter_child_nodes(st):
            if isinstance(ch, ast.expr):
                out.extend(expr_events(ch, relname))
    return out


def expr_events(node, relname):
    out = []
    for n in ast.walk(node):
        if isinstance(n, ast.Subscript) and isinstance(n.value, ast.Name) \
                and n.value.id == relname and isinstance(n.ctx, ast.Load):
            out.append(("USE", n))
        elif isinstance(n, ast.Call):
            if any(isinstance(a, ast.Name) and a.id == relname for a in n.args) or \
                    any(isinstance(k.value, ast.Name) and k.value.id == relname
                        for k in n.keywords):
                out.append(("USE", n))
            elif isinstance(n.func, ast.Attribute) and isinstance(n.func.value, ast.Name) \
                    and n.func.value.id == relname and n.func.attr not in ("freeze_data",):
                out.append(("USE", n))
    return out


def simulate(evs, state, found):
    """state: set of unfrozen stored keys.  Returns new state."""
    for ev in evs:
        kind = ev[0]
        if kind == "STORE":
            state = state | {ev[1]}
        elif kind == "FREEZE":
            state = set()
        elif kind == "FREEZEKEY":
            state = state - {ev[1]}
        elif kind == "USE":
            if state:
                found.append((ev[1], sorted(state)))
        elif kind == "LOOP":
            s1 = simulate(ev[1], set(state), found)
            s2 = simulate(ev[1], set(s1), found)   # second iteration sees the first's stores
            state = state | s1 | s2
        elif kind == "BRANCH":
            a = simulate(ev[1], set(state), found)
            b = simulate(ev[2], set(state), found)
            state = a | b
    return state


def freeze_before_use(rep):
    S = rep.sources
    n_sites = 0
    for qual in ("process_single_timestep", "validate_variable_function"):
        fn = S.function(TIME, qual)
        # find `rel = core.AurelCore(...)` assignments and simulate their block
        for node in ast.walk(fn):
            if isinstance(node, ast.Assign) and isinstance(node.value, ast.Call) \
                    and unparse(node.value.func).endswith("AurelCore") \
                    and isinstance(node.targets[0], ast.Name):
                relname = node.targets[0].id
                blk, k = block_of(node)
                found = []
                simulate(events(blk[k + 1:], relname), set(), found)
                n_sites += 1
                seen = set()
                for use, unfrozen in found:
                    key = f"{TIME}::{qual}::use({norm_src(use)[:40]})"
                    if key in seen:
                        continue
                    seen.add(key)
                    rep.violation("freeze-before-use", key,
                                  f"`{norm_src(use)[:60]}` can run calculations on `{relname}` "
                                  f"while stored entries {unfrozen} are not frozen: the "
                                  "clean-up may evict them and later results fall back to the "
                                  "Minkowski defaults", node=use)
                if not found:
                    rep.ok("freeze-before-use", f"{TIME}::{qual}::{relname}",
                           {"events": len(events(blk[k + 1:], relname))})
    if n_sites < 2:
        raise AnalysisError("time.py: AurelCore instance creation sites not found")


# ---------------------------------------------------------------------------------------------
def loops_and_termination(rep):
    S = rep.sources
    fn = S.function(CORE, "AurelCore.cleanup_cache")
    for loop in [n for n in ast.walk(fn) if isinstance(n, ast.For)]:
        it = unparse(loop.iter)
        for attr in ("data", "last_accessed"):
            if f"self.{attr}" in it:
                bad = []
                for node in ast.walk(loop):
                    if isinstance(node, ast.Delete) and any(is_self_sub(t, attr)
                                                            for t in node.targets):
                        bad.append(node)
                    if isinstance(node, ast.Assign) and any(is_self_sub(t, attr)
                                                            for t in node.targets):
                        bad.append(node)
                rep.check(not bad, "no-mutation-in-loop",
                          f"{CORE}::AurelCore.cleanup_cache::for({it[:40]})",
                          f"self.{attr} is modified while being iterated", node=loop)
    whiles = [n for n in ast.walk(fn) if isinstance(n, ast.While)]
    if not whiles:
        raise AnalysisError("cleanup_cache: memory-pressure while loop not found")
    for w in whiles:
        last = w.body[-1]
        ok = False
        why = "the loop body must end in an if/else whose branches break or delete an entry"
        if isinstance(last, ast.If) and last.orelse:
            def progresses(blk):
                for st in blk:
                    if isinstance(st, ast.Break):
                        return True
                    if isinstance(st, ast.Delete) and any(is_self_sub(t, "last_accessed")
                                                          for t in st.targets):
                        return True
                return False
            ok = progresses(last.body) and progresses(last.orelse)
        rep.check(ok, "termination", f"{CORE}::AurelCore.cleanup_cache::while", why, node=w)
        # the loop condition variable is refreshed after a deletion
        tvars = {n.id for n in ast.walk(w.test) if isinstance(n, ast.Name)}
        refreshed = any(isinstance(n, ast.Assign) and isinstance(n.targets[0], ast.Name)
                        and n.targets[0].id in tvars for n in ast.walk(w))
        rep.check(refreshed, "termination", f"{CORE}::AurelCore.cleanup_cache::while-cond",
                  "the size tested by the while condition is never recomputed in the loop",
                  node=w)
        # key_to_remove is assigned together with maxstrain
        okk = False
        rvars = removal_vars(fn)
        for node in ast.walk(w):
            if isinstance(node, ast.If) and isinstance(node.test, ast.Compare) \
                    and isinstance(node.test.comparators[0], ast.Name):
                names = {unparse(t) for st in node.body if isinstance(st, ast.Assign)
                         for t in st.targets}
                # the running maximum and the selected key are updated together
                if node.test.comparators[0].id in names and names & rvars:
                    okk = True
        rep.check(okk, "no-raise", f"{CORE}::AurelCore.cleanup_cache::key_to_remove",
                  "key_to_remove must be assigned in the same block as maxstrain, so that "
                  "maxstrain > 0 implies it is bound to an existing entry", node=w)
    # get_size is total
    gs = S.function(MEM, "get_size")
    rep.check(all_paths_return(gs.body) and not any(isinstance(n, ast.Raise)
                                                     for n in ast.walk(gs)),
              "no-raise", f"{MEM}::get_size::fallback",
              "get_size must return on every path (a final fallback) and never raise", node=gs)
    rec_ok = True
    for node in ast.walk(gs):
        if isinstance(node, ast.If):
            t = unparse(node.test)
            if "isinstance" not in t:
                rec_ok = False
    rep.check(rec_ok, "no-raise", f"{MEM}::get_size::dispatch",
              "get_size dispatch must be on isinstance tests only", node=gs)


def age_table(rep):
    S = rep.sources
    n = 0
    for node in ast.walk(S.module(CORE)):
        if isinstance(node, ast.Assign) and any(is_self_sub(t, "last_accessed")
                                                for t in node.targets):
            fn = enclosing_function(node)
            k = [unparse(t.slice) for t in node.targets if is_self_sub(t, "last_accessed")][0]
            n += 1
            ok = fn is not None and fn.name == "__getitem__"
            if ok:
                # either inside `if key in self.data:` or after `self.data[key] = ...`
                par = getattr(node, "_parent", None)
                inside_guard = isinstance(par, ast.If) and \
                    unparse(par.test) == f"{k} in self.data"
                blk, i = block_of(node)
                after_store = any(isinstance(st, ast.Assign)
                                  and any(is_self_sub(t, "data") and unparse(t.slice) == k
                                          for t in st.targets) for st in blk[:i])
                ok = inside_guard or after_store
            rep.check(ok, "age-table", f"{CORE}::{fn.name if fn else '?'}::last_accessed[{k}]",
                      "last_accessed is written for a key that is not known to be in data",
                      node=node)
    if n < 2:
        raise AnalysisError("__getitem__: last_accessed updates not found")


def run(rep):
    rep.explanation = (
        "Typestate rules of the cache protocol, each instance a deletion site, removal "
        "predicate, strain assignment, freeze point, importance writer, loop or age-table "
        "update of the current source.  Frozen => importance 0 => strain 0 => never `> bound` "
        "with bound >= 0; deletions are whole, paired and only in cleanup_cache; every store "
        "into a per-step instance is frozen before anything can run on it (event simulation "
        "over loops and branches); the while loop makes progress on every path.")
    rep.assume("clear_cache_every_nbr_calc >= 1 and memory_threshold_inGB > 0 (the property's "
               "domain); users do not delete from rel.data by hand; containers are acyclic")
    n = who_may_delete(rep)
    if n < 2:
        raise AnalysisError("fewer than 2 deletion sites found: cleanup_cache changed shape")
    paired_delete(rep)
    strain_factor(rep)
    freeze_rules(rep)
    freeze_before_use(rep)
    loops_and_termination(rep)
    age_table(rep)
    # "... ever removes or alters them": nothing writes into a cached (hence possibly frozen)
    # value in place -- the ownership analysis of C02 restricted to cache owners
    from . import c02
    c02.analyse(rep, owner_filter=lambda o: o.startswith("CACHE"),
                rule="no-inplace-on-cached", rels=["core.py", "maths.py", "numerical.py",
                                                   "finitedifference.py", "time.py"])
    rep.floor("strain-factor", 8)
    rep.floor("paired-delete", 2)
    rep.floor("freeze-before-use", 2)
