"""C04 -- spacetime (4D) connection and curvature from 3+1 data match their definitions.

Decided statically (necessary conditions, for every input at once): each method of the 4D
chain is interpreted symbolically, its index discipline enforced, and its exact componentwise
polynomial compared with the 3+1 decomposition of the textbook definition (metric assembly,
the six Christoffel blocks, Gauss-Codazzi-Mainardi pieces, contractions).  The table written
by maths.populate_4Riemann is checked for the Riemann symmetries and completeness on generic
inputs.  Convergence at the scheme's order is not decided."""
import itertools

from ..tcheck import check_helper, check_keys
from ..tensor import Arr, canon_component, atom_name
from ..tpoly import P

LEVEL = "other"
KEYS = """gtt gtx gty gtz betadown3 betamag gdown4 gup4 gdet gammadet gammaup3 nup4 ndown4
 st_Gamma_udd4 st_Riemann_down4 st_Riemann_uddd4 st_Riemann_uudd4 st_Ricci_down4
 st_Ricci_down3 st_RicciS Einsteindown4 Kretschmann Kup3 Ktrace s_Riemann_down3
 s_Ricci_down3""".split()


def antisym_first2(name):
    out = {}
    for i, j, k in itertools.product(range(3), repeat=3):
        if i == j:
            continue
        s = 1 if i < j else -1
        out[(i, j, k)] = P.atom(atom_name(name, (min(i, j), max(i, j), k))).scale(s)
    return Arr((3, 3, 3), ("d", "d", "d"), out)


def sym2(name):
    return Arr((3, 3), ("d", "d"), {(i, j): P.atom(atom_name(name, tuple(sorted((i, j)))))
                                   for i in range(3) for j in range(3)})


def populate_table(rep):
    """maths.populate_4Riemann on generic inputs with the symmetries its arguments have."""
    ssss = Arr.key("s_Riemann_down3")
    ssss.owner = None
    ssst = antisym_first2("T")
    stst = sym2("U")
    res = check_helper(rep, "populate_4Riemann", [ssss, ssst, stst], None,
                       {}, "generic", maths=True)
    for _cfg, R in res:
        key = "maths.py::populate_4Riemann"
        if R.shape != (4, 4, 4, 4):
            rep.violation("riemann-table", key + "::shape", f"result shape {R.shape}",
                          file="maths.py")
            continue
        bad = []
        for a, b, c, d in itertools.product(range(4), repeat=4):
            v = R.get((a, b, c, d))
            if v != -R.get((b, a, c, d)) or v != -R.get((a, b, d, c)) \
                    or v != R.get((c, d, a, b)):
                bad.append((a, b, c, d))
        rep.check(not bad, "riemann-table", key + "::symmetries",
                  f"{len(bad)} component(s) violate R_abcd = -R_bacd = -R_abdc = R_cdab, e.g. "
                  f"{bad[:4]}", file="maths.py", detail={"components_checked": 256})
        # completeness: the three blocks land where they belong
        miss = []
        for i, j, k, l in itertools.product(range(3), repeat=4):
            if R.get((i + 1, j + 1, k + 1, l + 1)) != ssss.get((i, j, k, l)):
                miss.append(("ssss", i, j, k, l))
        for i, j, k in itertools.product(range(3), repeat=3):
            if R.get((i + 1, j + 1, k + 1, 0)) != ssst.get((i, j, k)):
                miss.append(("ssst", i, j, k))
        for i, j in itertools.product(range(3), repeat=2):
            if R.get((i + 1, 0, j + 1, 0)) != stst.get((i, j)):
                miss.append(("stst", i, j))
        rep.check(not miss, "riemann-table", key + "::placement",
                  f"{len(miss)} block entries are not where R_ijkl, R_ijkt, R_itjt belong, "
                  f"e.g. {miss[:4]}", file="maths.py")
        # entries forced to zero by the symmetries stay zero
        nz = [idx for idx in R.c if idx[0] == idx[1] or idx[2] == idx[3]]
        rep.check(not nz, "riemann-table", key + "::zeros",
                  f"components with a repeated index in an antisymmetric pair are set: "
                  f"{nz[:4]}", file="maths.py")


def run(rep):
    rep.explanation = (
        "Every method from the 3+1 variables to gdown4/gup4/gdet, the 4D Christoffel symbols "
        "(six blocks), the Riemann tensor (Gauss, Codazzi, Mainardi + populate_4Riemann) in "
        "all offered index positions, Ricci, Einstein and Kretschmann is interpreted "
        "symbolically under every configuration it asks about (vacuum flag, cache-presence "
        "guards); rule instances: index discipline of each contraction, declared index "
        "positions of the result, and equality of the exact componentwise polynomial with the "
        "reference formula.  The reference formulas were validated against finite-differenced "
        "4D definitions on a shifted, non-diagonal, time-dependent exact solution "
        "(findings/validate_core.py).  Convergence order is not decided.")
    rep.assume("finite differences are treated as exact, commuting derivative operators (C07)")
    rep.assume("st_Ricci_down3 from T is the projected 4-Ricci tensor of an exact solution "
               "(Einstein's equations hold for the input data)")
    check_keys(rep, KEYS)
    populate_table(rep)
    # s_to_st on a generic symmetric tensor
    F = sym2("F")
    check_helper(rep, "s_to_st", [F], lambda cfg: (
        "R[i+1,j+1] = F[i,j]" if all(cfg.get("in:" + k) is False for k in
                                     ("betaup3", "betax", "betay", "betaz")) else
        "R[i+1,j+1] = F[i,j]; R[0,0] = betaup3[i]*betaup3[j]*F[i,j]; "
        "R[0,k+1] = betaup3[i]*F[i,k]; R[k+1,0] = betaup3[i]*F[i,k]"), {"F": F}, "generic")
    rep.floor("reference-agreement", 30)
    rep.floor("index-discipline", 30)
    rep.floor("riemann-table", 3)
