"""C05 -- spatial curvature, covariant derivative, divergence, curl and Lie derivative.

Decided statically: (a) the curvature methods are interpreted symbolically and compared with
the textbook definitions (incl. the hand-written 27-entry Christoffel table and the BSSNOK
split); (b) every supported index pattern of s_covd / st_covd / s_div / s_curl / Lie_beta is
interpreted on a *generic* tensor (opaque, non-symmetric components) and compared, component
by component, with the operator's definition -- sign and slot position of every Christoffel
and shift-derivative correction, for every input at once."""
from fractions import Fraction

from ..tcheck import check_helper, check_keys
from ..tensor import Arr

LEVEL = "other"
KEYS = """s_Gamma_udd3 s_Riemann_uddd3 s_Riemann_down3 s_Ricci_down3 s_RicciS
 s_Gamma_udd3_bssnok s_Gamma_bssnok s_Ricci_down3_bssnok s_RicciS_bssnok s_Ricci_down3_phi
 DDalpha psi_bssnok phi_bssnok gammadown3_bssnok gammaup3_bssnok
 st_Gamma_udd4""".split()      # (the connection of the spacetime covariant derivative)

G = "s_Gamma_udd3"
COVD = {
    "": "R[c] = d(F,c)",
    "u": f"R[c,a] = d(F[a],c) + {G}[a,c,e]*F[e]",
    "d": f"R[c,a] = d(F[a],c) - {G}[e,c,a]*F[e]",
    "uu": f"R[c,a,b] = d(F[a,b],c) + {G}[a,c,e]*F[e,b] + {G}[b,c,e]*F[a,e]",
    "dd": f"R[c,a,b] = d(F[a,b],c) - {G}[e,c,a]*F[e,b] - {G}[e,c,b]*F[a,e]",
    "ud": f"R[c,a,b] = d(F[a,b],c) + {G}[a,c,e]*F[e,b] - {G}[e,c,b]*F[a,e]",
    "du": f"R[c,a,b] = d(F[a,b],c) - {G}[e,c,a]*F[e,b] + {G}[b,c,e]*F[a,e]",
}
G4 = "st_Gamma_udd4"
STCOVD = {
    "": "R[0] = DT; R[i+1] = d(F,i)",
    "u": f"R[0,A] = DT[A] + {G4}[A,0,E]*F[E]; R[i+1,A] = d(F[A],i) + {G4}[A,i+1,E]*F[E]",
    "d": f"R[0,A] = DT[A] - {G4}[E,0,A]*F[E]; R[i+1,A] = d(F[A],i) - {G4}[E,i+1,A]*F[E]",
}
DIV = {
    "u": COVD["u"].replace("R[", "C[") + "; R = C[a,a]",
    "d": COVD["d"].replace("R[", "C[") + "; R = gammaup3[a,b]*C[a,b]",
    "uu": COVD["uu"].replace("R[", "C[") + "; R[b] = C[a,a,b]",
    "ud": COVD["ud"].replace("R[", "C[") + "; R[b] = C[a,a,b]",
    "du": COVD["du"].replace("R[", "C[") + "; R[b] = C[a,b,a]",
    "dd": COVD["dd"].replace("R[", "C[") + "; R[c] = gammaup3[a,b]*C[a,b,c]",
}
CURL = (COVD["dd"].replace("R[", "C[")
        + "; LC[a,b,c] = gup4[a+1,E]*gup4[b+1,H]*nup4[D]*eps4(D,E,H,c+1)*sqrt(-gdet)"
        + "; Q[a,b] = LC[c,e,a]*C[c,b,e]; R[a,b] = (Q[a,b] + Q[b,a])/2")
B = "betaup3"
LIE = {
    "": f"R = {B}[s]*d(F,s)",
    "s_u": f"R[j] = {B}[s]*d(F[j],s) - F[s]*d({B}[j],s)",
    "s_d": f"R[j] = {B}[s]*d(F[j],s) + F[s]*d({B}[s],j)",
    "st_u": (f"R[0] = {B}[s]*d(F[0],s); "
             f"R[j+1] = {B}[s]*d(F[j+1],s) - dtbetaup3[j]*F[0] - F[s+1]*d({B}[j],s)"),
    "st_d": (f"R[0] = {B}[s]*d(F[0],s) + dtbetaup3[j]*F[j+1]; "
             f"R[j+1] = {B}[s]*d(F[j+1],s) + F[s+1]*d({B}[s],j)"),
    "s_uu": f"R[j,k] = {B}[s]*d(F[j,k],s) - F[s,k]*d({B}[j],s) - F[j,s]*d({B}[k],s)",
    "s_ud": f"R[j,k] = {B}[s]*d(F[j,k],s) - F[s,k]*d({B}[j],s) + F[j,s]*d({B}[s],k)",
    "s_du": f"R[j,k] = {B}[s]*d(F[j,k],s) + F[s,k]*d({B}[s],j) - F[j,s]*d({B}[k],s)",
    "s_dd": f"R[j,k] = {B}[s]*d(F[j,k],s) + F[s,k]*d({B}[s],j) + F[j,s]*d({B}[s],k)",
}


def generic(name, dim, pattern):
    var = tuple(pattern)
    return Arr.atoms(name, tuple([dim] * len(var)), var)


def with_weight(text, w, pattern):
    """append the density term  w * d_k beta^k * F  to the last equation"""
    rank = len(pattern.split("_")[-1]) if pattern else 0
    idx = ["", "[j]", "[j,k]"][rank]
    if pattern.startswith("st_"):
        return None
    return text + f" + ({w.numerator}/{w.denominator})*d({B}[m],m)*F{idx}"


def helper_cases(rep):
    for pat, ref in COVD.items():
        F = generic("F", 3, pat)
        check_helper(rep, "s_covd", [F, pat], ref, {"F": F}, f"indexing='{pat}'")
    for pat, ref in STCOVD.items():
        F = generic("F", 4, pat)
        DT = generic("DT", 4, pat)
        check_helper(rep, "st_covd", [F, DT, pat], ref, {"F": F, "DT": DT},
                     f"indexing='{pat}'")
    for pat, ref in DIV.items():
        F = generic("F", 3, pat)
        check_helper(rep, "s_div", [F, pat], ref, {"F": F}, f"indexing='{pat}'")
    F = generic("F", 3, "dd")
    check_helper(rep, "s_curl", [F, "dd"], CURL, {"F": F}, "indexing='dd'")
    for pat, ref in LIE.items():
        dim = 4 if pat.startswith("st_") else 3
        F = generic("F", dim, pat.split("_")[-1] if pat else "")
        check_helper(rep, "Lie_beta", [F, pat], ref, {"F": F}, f"indexing='{pat}'")
        for w in (Fraction(2, 3), Fraction(-2, 3)):
            t = with_weight(ref, w, pat)
            if t is not None:
                check_helper(rep, "Lie_beta", [F, pat, w], t, {"F": F},
                             f"indexing='{pat}',weight={w}")


def run(rep):
    rep.explanation = (
        "Curvature methods: one rule instance per (method, configuration) for index "
        "discipline, declared index positions and agreement of the exact componentwise "
        "polynomial with the textbook definition (Christoffel symbols from the 27-entry "
        "hand-written table, Riemann with the layout of the derivative array, both Ricci "
        "branches, BSSNOK connection/Ricci split).  Derivative helpers: every supported "
        "indexing pattern of s_covd (7), st_covd (3), s_div (6), s_curl (1) and Lie_beta (9, "
        "plus two density weights each) is interpreted on a generic non-symmetric tensor and "
        "compared with the operator's definition, which fixes the sign and slot position of "
        "every correction term.  Metric compatibility and commutation with index raising are "
        "consequences of these operator identities; convergence is not decided.")
    rep.assume("finite-difference derivatives are treated as exact derivative operators "
               "(linear, commuting); their accuracy along one axis is C07")
    check_keys(rep, KEYS)
    helper_cases(rep)
    # ... of the right axis with that axis' spacing: d3x/d3y/d3z are the same scheme under
    # axis exchange, each with its own 1/d and N, and the tensor derivatives put them in the
    # slot of their axis (rules of C07, needed here for any grid with unequal spacings)
    from . import c07
    c07.check_axes(rep)
    rep.floor("reference-agreement", 40)
    rep.floor("index-discipline", 40)
    rep.floor("axis-permutation", 3)
    rep.floor("tensor-axis", 9)
