"""C06 -- constraints vanish on exact solutions and dt-quantities are true t-derivatives.

Decided statically: the written form of the Hamiltonian and momentum constraints, of the two
matter projections they use, of their second derivations (rho_n_fromHam, fluxup3_n_fromMom)
and of the six offered time derivatives equals the cited textbook equations term by term --
sign, coefficient, index pattern, density weight -- for every input at once; both values of
the vacuum flag.  Convergence is not decided."""
from fractions import Fraction

from ..tcheck import check_helper, check_keys
from .c05 import LIE, generic, with_weight

LEVEL = "other"
KEYS = """Hamiltonian Hamiltonian_Escale Hamiltonian_norm Momentumup3 Momentumdown3 Momentumx
 Momentumy Momentumz Momentumdownx Momentumdowny Momentumdownz Momentum_Escale Momentumx_norm
 Momentumy_norm Momentumz_norm Momentumdownx_norm Momentumdowny_norm Momentumdownz_norm rho_n
 fluxup3_n fluxdown3_n Stresstrace_n Stressdown3_n Stressup3_n rho_n_fromHam fluxup3_n_fromMom
 dtKtrace dtphi_bssnok dtgammaup3 dtgammadown3_bssnok dtAdown3_bssnok dts_Gamma_bssnok
 psi_bssnok phi_bssnok gammadown3_bssnok gammaup3_bssnok Adown3 Aup3 Adown3_bssnok Aup3_bssnok
 A2 A2_bssnok Ktrace Kup3 DDalpha s_Gamma_bssnok s_Gamma_udd3_bssnok s_RicciS gammaup4
 nup4 s_Ricci_down3 s_Riemann_uddd3 s_Riemann_down3""".split()


def run(rep):
    rep.explanation = (
        "Each constraint / evolution quantity is interpreted symbolically under both values of "
        "the vacuum flag (and every cache-presence guard it asks about) and its exact "
        "componentwise polynomial is compared with the cited equation (ADM: d_t gamma^ij, "
        "d_t K; BSSNOK: Alcubierre 2.8.9-2.8.12, 2.8.25, Baumgarte & Shapiro 11.38; constraints "
        "with Lambda).  The Lie derivative helper is checked for every index pattern and "
        "density weight on a generic tensor.  References validated on a time-dependent, "
        "shifted exact solution (findings/validate_core*.py).")
    rep.assume("helpers' accuracy as finite-difference operators is C07; convergence to the "
               "true derivative is not decided")
    check_keys(rep, KEYS)
    for pat, ref in LIE.items():
        dim = 4 if pat.startswith("st_") else 3
        F = generic("F", dim, pat.split("_")[-1] if pat else "")
        check_helper(rep, "Lie_beta", [F, pat], ref, {"F": F}, f"indexing='{pat}'")
        for w in (Fraction(2, 3), Fraction(-2, 3), Fraction(1, 6)):
            t = with_weight(ref, w, pat)
            if t is not None:
                check_helper(rep, "Lie_beta", [F, pat, w], t, {"F": F},
                             f"indexing='{pat}',weight={w}")
    rep.floor("reference-agreement", 60)
    rep.floor("index-discipline", 60)
