"""C07 -- finite-difference operators are the stated-order derivative at every grid point.

Decided statically (proof level for the weights) on a partial evaluation of finitedifference.py
(aurelsa.fdpe: tables, closures, generators, dispatch loops are executed; the field, the grid
size N and the parameter table stay symbolic): every stencil function evaluates to an exact
rational linear form on which the moment conditions are discharged; the constructor is
evaluated for every order (stencil trio, mask_len, normalisation of unsupported orders) and d3
for every boundary mode; the three boundary splices are affine segment arithmetic with N
symbolic; axis/permutation rules and tensor maps are equalities of the evaluated terms; the
operators must be branch-free on their data."""
from __future__ import annotations

import ast
from fractions import Fraction

from ..common import AnalysisError, norm_src, unparse
from ..exact import Aff

LEVEL = "proof"
FD = "finitedifference.py"
ORDERS = (2, 4, 6, 8)
ROLES = ("backward", "centered", "forward")


# ---------------------------------------------------------------------------------------------
# the module is partially evaluated (aurelsa.fdpe): helpers, tables, generators, dispatch loops
# are executed; what depends on the field, the grid size or the parameter table stays a term
# ---------------------------------------------------------------------------------------------
from ..fdpe import FDPE, Lin, Sym, SymbolicBranch, to_term  # noqa: E402
from ..tensor import NeedConfig, PathEnds, Unsupported, _Closure  # noqa: E402

ROLE_ATTRS = {r: Sym(("role", r)) for r in ROLES}


def pe_run(rep, qual, args, attrs=None, config=None, **kw):
    """Partially evaluate `qual`; symbolic branches and open questions are reported to the
    caller, anything else that cannot be evaluated is an analysis error."""
    it = FDPE(rep.sources, config=config, attrs=attrs, **kw)
    try:
        return it, it.run(qual, args)
    except (SymbolicBranch, NeedConfig):
        raise
    except PathEnds as e:
        raise AnalysisError(f"{qual}: every evaluated path raises: {e}")
    except Unsupported as e:
        raise AnalysisError(f"{qual}: cannot be evaluated: {e}")


def extract_stencil(rep, fn):
    args = [a.arg for a in fn.args.args]
    if len(args) != 3:
        raise AnalysisError(f"{fn.name}: expected (f, i, inverse_dx)")
    it = FDPE(rep.sources, stencil_field=args[0])
    it.dx_param = args[2]
    try:
        v = it.run(fn.name, [Sym(("param", args[0])), Aff.sym("i"), Sym(("param", args[2]))])
    except SymbolicBranch as e:
        raise AnalysisError(f"{fn.name}: {e}")
    except (Unsupported, PathEnds, NeedConfig) as e:
        raise AnalysisError(f"{fn.name}: cannot be evaluated: {e}")
    if not isinstance(v, Lin):
        raise AnalysisError(f"{fn.name}: the result is not a linear form of the samples")
    return v


def expected_offsets(p, role):
    if role == "backward":
        return set(range(-p, 1))
    if role == "forward":
        return set(range(0, p + 1))
    return set(range(-p // 2, p // 2 + 1))


def check_stencils(rep):
    S = rep.sources
    fns = S.functions(FD)
    stencils = {}
    for p in ORDERS:
        for role in ROLES:
            name = f"fd{p}_{role}"
            if name not in fns:
                raise AnalysisError(f"anchor vanished: {FD}::{name}")
            fn = fns[name]
            lin = extract_stencil(rep, fn)
            stencils[(p, role)] = lin
            key = f"{FD}::{name}"
            rep.check(lin.dxpow == 1 and lin.c == 0, "stencil-scaling", key,
                      f"stencil must be (sum w_k f[i+k]) * inverse_dx, got spacing power "
                      f"{lin.dxpow}, constant {lin.c}", node=fn)
            offs = set(lin.w)
            exp = expected_offsets(p, role)
            rep.check(offs <= exp and (exp - offs) <= {0}, "stencil-support", key,
                      f"offsets {sorted(offs)} are not the {role} {p}-th order support "
                      f"{sorted(exp)}", node=fn, detail={"offsets": sorted(offs)})
            # moment conditions on the p+1 nodes of the expected support
            for j in range(p + 1):
                m = sum(w * Fraction(k) ** j for k, w in lin.w.items()) if j else \
                    sum(lin.w.values())
                want = 1 if j == 1 else 0
                rep.check(m == want, "stencil-moment", f"{key}::moment{j}",
                          f"sum_k w_k k^{j} = {m}, must be {want}: the weights are not the "
                          f"standard order-{p} {role} weights (weights: "
                          f"{ {k: str(v) for k, v in sorted(lin.w.items())} })", node=fn,
                          detail={"j": j, "sum": str(m)})
    # sibling rule: backward = -(forward reflected)
    for p in ORDERS:
        f, b = stencils[(p, "forward")], stencils[(p, "backward")]
        rep.check({-k: -v for k, v in f.w.items()} == b.w, "stencil-sibling",
                  f"{FD}::fd{p}_backward~fd{p}_forward",
                  "backward stencil is not minus the reflected forward stencil",
                  node=fns[f"fd{p}_backward"])
        c = stencils[(p, "centered")]
        rep.check(all(c.w.get(-k, 0) == -v for k, v in c.w.items()), "stencil-sibling",
                  f"{FD}::fd{p}_centered~antisymmetric",
                  "centred stencil is not antisymmetric", node=fns[f"fd{p}_centered"])
    return stencils


# ---------------------------------------------------------------------------------------------
# dispatch in FiniteDifference.__init__: the constructor is evaluated for every order
# ---------------------------------------------------------------------------------------------
UNSUPPORTED_ORDERS = (3, 10, 0)


def init_state(rep, order, boundary="no boundary"):
    fn = rep.sources.function(FD, "FiniteDifference.__init__")
    names = [a.arg for a in fn.args.args][1:]
    rep.require("fd_order" in names and names and names[0] == "param",
                "FiniteDifference.__init__: (param, ..., fd_order, ...) expected")
    it = FDPE(rep.sources)
    kwargs = {"fd_order": order}
    for n in names:
        if n in ("verbose", "veryverbose"):
            kwargs[n] = False
        elif n == "boundary":
            kwargs[n] = boundary
    try:
        it.call_function(fn, [Sym(("param", "param"))], kwargs, "__init__", True, rel=FD)
    except SymbolicBranch as e:
        raise AnalysisError(f"FiniteDifference.__init__: {e}")
    except (Unsupported, PathEnds, NeedConfig) as e:
        raise AnalysisError(f"FiniteDifference.__init__: cannot be evaluated: {e}")
    return fn, it.attrs


def check_dispatch(rep, stencils):
    seen = set()
    for order in ORDERS + UNSUPPORTED_ORDERS:
        fn, attrs = init_state(rep, order)
        supported = order in ORDERS
        lab = order if supported else None
        key = f"{FD}::FiniteDifference.__init__::branch(fd_order=={lab})"
        eff = attrs.get("fd_order")
        if not supported:
            ok = isinstance(eff, int) and eff in ORDERS
            rep.check(ok, "dispatch-default", f"{key}::fd_order={order}",
                      f"for the unsupported order {order} the constructor must normalise "
                      f"self.fd_order to a supported order, it is {eff!r}", node=fn)
            if not ok:
                continue
        else:
            rep.check(eff == order, "dispatch-order", key,
                      f"self.fd_order is {eff!r} after constructing with fd_order={order}",
                      node=fn)
            eff = order
            seen.add(order)
        got = {}
        for role in ROLES:
            v = attrs.get(role)
            got[role] = v.name if isinstance(v, _Closure) else repr(v)
            rep.check(got[role] == f"fd{eff}_{role}", "dispatch-table",
                      f"{key}::{role}" + ("" if supported else f"::fd_order={order}"),
                      f"self.{role} = {got[role]} but order {eff} requires fd{eff}_{role}",
                      node=fn)
        m = attrs.get("mask_len")
        cen = stencils[(eff, "centered")]
        half = max(abs(k) for k in cen.w)
        rep.check(isinstance(m, int) and m == half, "dispatch-mask",
                  f"{key}::mask_len" + ("" if supported else f"::fd_order={order}"),
                  f"mask_len is {m!r} for fd_order={order} (normalised to {eff}), the centred "
                  f"stencil reaches {half} points", node=fn, detail={"mask_len": str(m)})
    rep.check(seen >= set(ORDERS), "dispatch-complete",
              f"{FD}::FiniteDifference.__init__::orders",
              f"orders dispatched {sorted(seen)} do not cover {ORDERS}")


# ---------------------------------------------------------------------------------------------
# splices, axes and tensor maps: decided on the terms of the symbolic interpreter (fdinterp),
# so temporaries, aliases, renamings, loops vs comprehensions do not matter
# ---------------------------------------------------------------------------------------------
from ..fdinterp import canon_lists, segments  # noqa: E402

AXIS = {"x": 0, "y": 1, "z": 2}
Nsym = Aff.sym("N")


def interp(rep, qual, m=None, args=None, config=None):
    """Term computed by `qual` on symbolic arguments (mask_len = m when given)."""
    fn = rep.sources.function(FD, qual)
    params = [a.arg for a in fn.args.args]
    if "." in qual:
        params = params[1:]
    attrs = dict(ROLE_ATTRS, verbose=False, veryverbose=False)
    if m is not None:
        attrs["mask_len"] = m
    if args is None:
        args = [Sym(("param", x)) for x in params]
    else:
        args = [a if isinstance(a, (Sym, Aff)) else Sym(a) for a in args]
    try:
        it, v = pe_run(rep, qual, args, attrs=attrs, config=config)
    except SymbolicBranch as e:
        raise AnalysisError(f"{qual}: {e}")
    except NeedConfig as q:
        raise AnalysisError(f"{qual}: depends on self.{q.q}")
    if v is None:
        raise AnalysisError(f"{qual}: function does not return a value")
    return fn, to_term(v)


def fd_map_shape(rep):
    fn, v = interp(rep, "fd_map")
    p = [a.arg for a in fn.args.args]
    ok = len(p) == 5
    if ok:
        P = [("param", x) for x in p]
        want = ("list", "i0", ("range", P[3], P[4]), ("call", P[0], (P[1], ("sym", "i0"), P[2])))
        got = canon_lists(v[1] if v[0] == "arr" else v)
        ok = got == want
        # a verdict needs a term of the recognised kind: the list, over a range, of calls of
        # the scheme; anything else is not understood
        # (or a preallocated block filled in place, which takes the block's dtype and shape
        # instead of those of the scheme's results: recognised, and wrong)
        recognised = isinstance(got, tuple) and len(got) >= 4 and (
            got[0] == "filled" or (
                got[0] == "list" and isinstance(got[2], tuple) and got[2][:1] == ("range",)
                and isinstance(got[3], tuple) and got[3][:1] == ("call",)))
        if not ok and not recognised:
            raise AnalysisError(f"fd_map: the value returned ({str(got)[:120]}) is not a list of "
                                "scheme evaluations over an index range")
    rep.check(ok, "fd-map-shape", f"{FD}::fd_map",
              "fd_map must evaluate func(farray, i, idx) for every i in [imin, imax), in "
              "order", node=fn)


def min_N_for(cond_list):
    """cond_list: affine forms that must be >= 0; each a*N + b.  Returns minimal N (int) or
    None when some condition fails for all large N."""
    nmin = 0
    for a in cond_list:
        cN = a.t.get("N", Fraction(0))
        if set(a.t) - {"N"}:
            return None
        if cN < 0:
            return None
        if cN == 0:
            if a.c < 0:
                return None
            continue
        need = -a.c / cN
        n = need.__ceil__()
        nmin = max(nmin, n)
    return nmin


def check_splices(rep, stencils):
    S = rep.sources
    fd_map_shape(rep)
    minsizes = {}
    # ---- one-sided
    fn = S.function(FD, "FiniteDifference.d3_onesided")
    params = [a.arg for a in fn.args.args][1:]          # f, idx, N
    rep.require(len(params) == 3, "d3_onesided: expected (f, idx, N)")
    F, IDX = ("param", params[0]), ("param", params[1])
    for p in ORDERS:
        m = p // 2
        key = f"{FD}::d3_onesided::order{p}"
        v = interp(rep, "FiniteDifference.d3_onesided", m, [F, IDX, Nsym])[1]
        pieces_v = v[1] if v[0] == "cat" else None
        ok = pieces_v is not None and v[2] == Aff(0) and len(pieces_v) == 3 \
            and all(x[0] == "fd_map" and len(x[1]) == 5 for x in pieces_v)
        if p == ORDERS[0]:
            rep.check(ok, "onesided-concat", f"{FD}::d3_onesided::concat",
                      "the result must be the concatenation along axis 0 of three fd_map "
                      "pieces", node=fn)
        if not ok:
            continue
        pieces = []
        for x in pieces_v:
            role, arr, idx, lo, hi = x[1]
            rname = role[1] if role[0] == "role" else str(role)
            rep.require(isinstance(lo, Aff) and isinstance(hi, Aff),
                        "d3_onesided: non-affine range")
            rep.check(arr == F and idx == IDX, "onesided-args", f"{key}::{rname}::args",
                      "fd_map must receive (f, idx) unchanged", node=fn)
            pieces.append((rname, lo, hi))
        roles = [r for r, _, _ in pieces]
        rep.check(roles == ["forward", "centered", "backward"], "onesided-roles", key,
                  f"pieces are {roles}; the left edge needs the forward, the interior the "
                  "centred and the right edge the backward stencil", node=fn)
        contiguous = (pieces[0][1] == Aff(0)
                      and all(pieces[i][2] == pieces[i + 1][1] for i in range(2))
                      and pieces[2][2] == Nsym)
        rep.check(contiguous, "onesided-cover", key,
                  "ranges " + ", ".join(f"[{lo},{hi})" for _, lo, hi in pieces)
                  + " do not tile [0,N) exactly once", node=fn,
                  detail={"ranges": [f"[{lo},{hi})" for _, lo, hi in pieces]})
        conds = []
        for role, lo, hi in pieces:
            if role not in ROLES:
                continue
            w = stencils[(p, role)].w
            kmin, kmax = min(w), max(w)
            conds.append(lo + kmin)                  # lowest subscript >= 0
            conds.append(Nsym - 1 - (hi - 1 + kmax))  # highest subscript <= N-1
            conds.append(hi - lo)                    # non-negative length
        nmin = min_N_for(conds)
        rep.check(nmin is not None, "onesided-bounds", key,
                  "some stencil subscript leaves [0, N-1] for every N (python would wrap "
                  "negative indices silently)", node=fn, detail={"min_supported_N": nmin})
        if nmin is not None:
            minsizes[p] = nmin
            rep.check(nmin <= 3 * p // 2, "onesided-minsize", key,
                      f"in-range subscripts need N >= {nmin}, the scheme's natural minimum is "
                      f"{3*p//2}", node=fn)
    rep.extra_cov["min_supported_N_onesided"] = minsizes

    # ---- periodic and symmetric
    for mode in ("periodic", "symmetric"):
        fn = S.function(FD, f"FiniteDifference.d3_{mode}")
        params = [a.arg for a in fn.args.args][1:]
        rep.require(len(params) == 3, f"d3_{mode}: expected (f, idx, N)")
        F, IDX = ("param", params[0]), ("param", params[1])
        for p in ORDERS:
            m = p // 2
            key = f"{FD}::d3_{mode}::order{p}"
            v = interp(rep, f"FiniteDifference.d3_{mode}", m, [F, IDX, Nsym])[1]
            rep.require(v[0] == "fd_map" and len(v[1]) == 5,
                        f"d3_{mode}: the result is not one fd_map over an extended array")
            role, arr, idx, lo, hi = v[1]
            segs = segments(arr, Nsym, params[0])
            if segs is None:
                raise AnalysisError(f"d3_{mode}: extended array not understood: {arr!r}"[:200])
            if mode == "periodic":
                want = [(Nsym - m, Aff(m), 1), (Aff(0), Nsym, 1), (Aff(0), Aff(m), 1)]
                descr = "flong[j] = f[(j-m) mod N]"
            else:
                want = [(Aff(m), Aff(m), -1), (Aff(0), Nsym, 1), (Nsym - 2, Aff(m), -1)]
                descr = "flong[j] = f[|j-m|] left, f[2(N-1)-(j-m)] right"
            got = [(s_[0], s_[1], int(s_[2])) for s_ in segs]
            rep.check(got == want, f"{mode}-extension", key,
                      f"extended array segments (start,len,step) {got} != {want} "
                      f"required for {descr}", node=fn,
                      detail={"segments": [str(g) for g in got]})
            rep.check(role == ("role", "centered") and idx == IDX and lo == Aff(m)
                      and hi == Nsym + m, f"{mode}-map", key,
                      f"the centred stencil must be mapped over [m, N+m) of the extended "
                      f"array, got {role} over [{lo},{hi})", node=fn)
            w = stencils[(p, "centered")].w
            rep.check(max(abs(k) for k in w) <= m, f"{mode}-reach", key,
                      "centred stencil reaches beyond the m ghost points", node=fn)
    # ---- d3 dispatch on boundary: evaluated for every mode
    fn = S.function(FD, "FiniteDifference.d3")
    params = [a.arg for a in fn.args.args][1:]
    P = tuple(("param", x) for x in params)
    want = {"periodic": "d3_periodic", "symmetric": "d3_symmetric", None: "d3_onesided"}
    for lab, name in want.items():
        for mode in ([lab] if lab else ["no boundary", "some other text"]):
            got = None
            why = ""
            try:
                it, v = pe_run(rep, "FiniteDifference.d3", [Sym(x) for x in P],
                               attrs=dict(ROLE_ATTRS, verbose=False),
                               config={"boundary": mode})
                got = to_term(v) if v is not None else None
            except SymbolicBranch as e:
                why = f" ({e})"
            except NeedConfig as q:
                why = f" (the choice also depends on self.{q.q})"
            rep.check(got == ("mcall", name, P), "boundary-dispatch",
                      f"{FD}::d3::{lab}" + ("" if lab or mode == "no boundary" else "::other"),
                      f"boundary mode {mode!r} must call self.{name}(f, idx, N); got "
                      f"{got}{why}", node=fn)


# ---------------------------------------------------------------------------------------------
# axes, permutations and tensor maps
# ---------------------------------------------------------------------------------------------
def perm_of(v):
    if v is not None and v[0] == "tuple" and all(isinstance(x, Aff) and x.is_const()
                                                  for x in v[1]):
        return tuple(int(x.c) for x in v[1])
    return None


def check_axes(rep):
    S = rep.sources
    # inverse spacing definitions, read off the evaluated constructor
    init, attrs = init_state(rep, 4)
    for ax in "xyz":
        v = attrs.get(f"inverse_d{ax}")
        rep.require(v is not None, f"inverse_d{ax} assignment not found")
        t = to_term(v)
        entry = ("idx", ("param", "param"), (("const", f"d{ax}"),))
        rep.check(t == ("binop", "Div", Aff(1), entry), "axis-spacing",
                  f"{FD}::__init__::inverse_d{ax}",
                  f"inverse_d{ax} must be 1/param['d{ax}'], got {t!r}"[:200], node=init)
    for ax in "xyz":
        fn, v = interp(rep, f"FiniteDifference.d3{ax}")
        F = ("param", fn.args.args[1].arg)
        key = f"{FD}::d3{ax}"
        outer_perm = None
        core = v
        if core[0] == "T":
            outer_perm = perm_of(core[2])
            core = core[1]
        rep.require(core[0] == "mcall" and core[1] == "d3" and len(core[2]) == 3,
                    f"d3{ax}: the result is not self.d3(...) (possibly transposed)")
        arr, idx, n = core[2]
        rep.check(idx == ("attr", f"self.inverse_d{ax}")
                  and n in (("attr", f"self.param['N{ax}']"), ("attr", f"self.N{ax}")),
                  "axis-params", key,
                  f"d3{ax} must use the spacing and size of the {ax} axis, got {idx}, {n}",
                  node=fn)
        inner_perm = None
        if arr[0] == "T":
            inner_perm = perm_of(arr[2])
            arr = arr[1]
        if AXIS[ax] == 0:
            rep.check(outer_perm is None and inner_perm is None and arr == F,
                      "axis-permutation", key, "d3x must differentiate the array as given",
                      node=fn)
            continue
        perms = [inner_perm, outer_perm]
        ok = all(p is not None and sorted(p) == [0, 1, 2] for p in perms)
        if ok:
            fwd, back = perms
            ok = fwd[0] == AXIS[ax] and tuple(fwd[back[i]] for i in range(3)) == (0, 1, 2)
        rep.check(ok, "axis-permutation", key,
                  f"transpositions {perms}: the first must bring axis {AXIS[ax]} to the front "
                  "and the second must be its inverse", node=fn, detail={"perms": str(perms)})
        rep.check(arr == F, "axis-flow", key,
                  "d3 must be applied to the transposed input and its result transposed back",
                  node=fn)
    # tensor maps
    for n in (1, 2, 3):
        fn, v = interp(rep, f"map{n}")
        params = [a.arg for a in fn.args.args]
        Fn, Ar = ("param", params[0]), ("param", params[1])
        def strip_arr(t):
            if isinstance(t, tuple) and t and t[0] == "arr":
                return strip_arr(t[1])
            if isinstance(t, tuple):
                return tuple(strip_arr(x) for x in t)
            return t
        got = canon_lists(strip_arr(v))
        want = ("call", Fn, (("idx", Ar, tuple(("sym", f"i{k}") for k in range(n))),))
        for k in reversed(range(n)):
            want = ("list", f"i{k}", ("range", Aff(0), ("shape", Ar, k)), want)
        rep.check(v[0] == "arr" and got == want, "tensor-map", f"{FD}::map{n}",
                  f"map{n} must rebuild the nest in index order: "
                  f"np.array([[func(f[i, j, ..]) ..] for i in range(np.shape(f)[0])]); got "
                  f"{got!r}"[:400], node=fn)
    # d3_scalar, rank-N gradient builders
    meth = S.functions(FD)
    fn, v = interp(rep, "FiniteDifference.d3_scalar")
    F = ("param", fn.args.args[1].arg)
    want = ("arr", ("tuple", tuple(("mcall", f"d3{ax}", (F,)) for ax in "xyz")))
    rep.check(v == want, "gradient-order", f"{FD}::d3_scalar",
              f"gradient components must be stacked (x, y, z): got {v!r}"[:300], node=fn)
    for n in (1, 2, 3):
        per_axis = {}
        for ax in "xyz":
            fn, v = interp(rep, f"FiniteDifference.d3{ax}_rank{n}tensor")
            F = ("param", fn.args.args[1].arg)
            want = ("call", ("global", f"map{n}"), (("attr", f"self.d3{ax}"), F))
            per_axis[ax] = want
            rep.check(v == want, "tensor-axis", f"{FD}::d3{ax}_rank{n}tensor",
                      f"must be map{n}(self.d3{ax}, f), got {v!r}"[:300], node=fn)
        fn, v = interp(rep, f"FiniteDifference.d3_rank{n}tensor")
        F = ("param", fn.args.args[1].arg)

        def norm(e):
            # the per-axis method and its definition are the same thing
            for ax in "xyz":
                if e == ("mcall", f"d3{ax}_rank{n}tensor", (F,)):
                    return per_axis[ax]
            return e
        got = None
        if v[0] == "arr" and v[1][0] == "tuple":
            got = tuple(norm(e) for e in v[1][1])
        rep.check(got == tuple(per_axis[ax] for ax in "xyz"), "gradient-order",
                  f"{FD}::d3_rank{n}tensor",
                  f"derivative axis must be first, in (x, y, z) order: got {v!r}"[:300],
                  node=fn)
    return meth


STRAIGHT = ["fd_map", "map1", "map2", "map3", "FiniteDifference.d3x", "FiniteDifference.d3y",
            "FiniteDifference.d3z", "FiniteDifference.d3_periodic",
            "FiniteDifference.d3_symmetric", "FiniteDifference.d3_onesided",
            "FiniteDifference.d3_scalar"] + [
    f"FiniteDifference.d3{ax}_rank{n}tensor" for ax in ("", "x", "y", "z") for n in (1, 2, 3)]


def check_straight_line(rep):
    """The operators above must be branch-free on their data: no field-, size- or mode-dependent
    shortcut may bypass the stencil application that the other rules verify.  Decided by
    evaluation: every test met while the operator is evaluated on symbolic arguments must be
    decidable from constants of the module (tables, literal names); a test on an argument, on
    the grid size or on an instance attribute is a violation."""
    S = rep.sources
    for qual in STRAIGHT:
        fn = S.function(FD, qual)
        params = [a.arg for a in fn.args.args]
        if "." in qual:
            params = params[1:]
        why = ""
        try:
            pe_run(rep, qual, [Sym(("param", x)) for x in params],
                   attrs=dict(ROLE_ATTRS, mask_len=Aff.sym("m")))
        except SymbolicBranch as e:
            why = str(e)
        except NeedConfig as q:
            why = f"the path taken depends on self.{q.q}"
        rep.check(not why, "straight-line", f"{FD}::{qual}",
                  "operator is not branch-free on its data: " + why, node=fn)


def run(rep):
    rep.explanation = (
        "Proof-style static decision of C07: every stencil body is parsed to an exact rational "
        "linear form and the p+1 moment conditions (unique solution = the standard weights, "
        "exact on polynomials of degree <= p) are discharged in Fraction arithmetic; the "
        "order dispatch, the three boundary splices (affine index arithmetic with N symbolic), "
        "the axis permutations and the tensor maps are rule instances over the terms obtained by "
        "partial evaluation of the module (helpers, tables, generators executed). "
        "Floating-point round-off is not decided.")
    rep.trusted_base = ["CPython ast, fractions", "aurelsa.exact (affine/linear forms)",
                        "numpy slicing/concatenate/transpose semantics as modelled"]
    rep.assume("numpy slicing, concatenate and transpose behave as documented")
    rep.assume("round-off of the float weights (e.g. 25/12) is not part of the claim")
    stencils = check_stencils(rep)
    check_dispatch(rep, stencils)
    check_straight_line(rep)
    check_splices(rep, stencils)
    check_axes(rep)
    rep.floor("stencil-moment", 72)
    rep.floor("straight-line", 20)
    rep.floor("dispatch-table", 12)
    rep.floor("onesided-cover", 4)
    rep.floor("periodic-extension", 4)
    rep.floor("symmetric-extension", 4)
    rep.floor("axis-permutation", 3)
    rep.floor("tensor-axis", 9)
