"""C07 -- finite-difference operators are the stated-order derivative at every grid point.

Decided statically (proof level for the weights): exact rational stencil extraction and moment
conditions; dispatch table; affine segment analysis of the three boundary splices with the
grid size N symbolic; axis/permutation rules; tensor maps."""
from __future__ import annotations

import ast
from fractions import Fraction

from ..common import AnalysisError, norm_src, unparse
from ..exact import Aff, aff_eval, const_value

LEVEL = "proof"
FD = "finitedifference.py"
ORDERS = (2, 4, 6, 8)
ROLES = ("backward", "centered", "forward")


# ---------------------------------------------------------------------------------------------
# linear forms over stencil offsets
# ---------------------------------------------------------------------------------------------
class Lin:
    """sum_k w_k f[i+k] * inverse_dx**dxpow  (or a pure constant when w is empty)"""

    def __init__(self, w=None, c=0, dxpow=0):
        self.w = {k: Fraction(v) for k, v in (w or {}).items() if v != 0}
        self.c = Fraction(c)
        self.dxpow = dxpow

    def is_const(self):
        return not self.w and self.dxpow == 0


def lin_eval(node, fname, iname, dxname):
    v = const_value(node)
    if v is not None:
        return Lin(c=v)
    if isinstance(node, ast.Name) and node.id == dxname:
        return Lin(c=1, dxpow=1)
    if isinstance(node, ast.Subscript) and isinstance(node.value, ast.Name) \
            and node.value.id == fname:
        off = aff_eval(node.slice, {iname: Aff.sym("i")})
        if off is None or off.t.get("i", 0) != 1 or set(off.t) - {"i"} \
                or off.c.denominator != 1:
            raise AnalysisError(f"stencil subscript not of the form i+k: {unparse(node)}")
        return Lin(w={int(off.c): 1})
    if isinstance(node, ast.UnaryOp) and isinstance(node.op, (ast.USub, ast.UAdd)):
        a = lin_eval(node.operand, fname, iname, dxname)
        s = -1 if isinstance(node.op, ast.USub) else 1
        return Lin({k: s * v for k, v in a.w.items()}, s * a.c, a.dxpow)
    if isinstance(node, ast.BinOp):
        a = lin_eval(node.left, fname, iname, dxname)
        b = lin_eval(node.right, fname, iname, dxname)
        if isinstance(node.op, (ast.Add, ast.Sub)):
            s = 1 if isinstance(node.op, ast.Add) else -1
            if a.dxpow != b.dxpow and not (a.is_const() and a.c == 0) \
                    and not (b.is_const() and b.c == 0):
                raise AnalysisError(f"stencil mixes powers of the spacing: {unparse(node)}")
            if (a.c != 0 and not a.is_const()) or (b.c != 0 and not b.is_const()):
                raise AnalysisError("stencil has an affine constant part")
            w = dict(a.w)
            for k, v in b.w.items():
                w[k] = w.get(k, 0) + s * v
            return Lin(w, a.c + s * b.c, max(a.dxpow, b.dxpow))
        if isinstance(node.op, ast.Mult):
            if a.w and b.w:
                raise AnalysisError(f"stencil is not linear in f: {unparse(node)}")
            if a.w:
                a, b = b, a
            # a has no f-dependence: scalar a.c * dx^a.dxpow
            if b.w:
                return Lin({k: a.c * v for k, v in b.w.items()}, 0, a.dxpow + b.dxpow)
            return Lin(c=a.c * b.c, dxpow=a.dxpow + b.dxpow)
        if isinstance(node.op, ast.Div):
            if b.w or b.c == 0:
                raise AnalysisError(f"stencil divides by a field: {unparse(node)}")
            return Lin({k: v / b.c for k, v in a.w.items()}, a.c / b.c, a.dxpow - b.dxpow)
    raise AnalysisError(f"stencil expression not understood: {unparse(node)}")


def extract_stencil(fn):
    args = [a.arg for a in fn.args.args]
    if len(args) != 3:
        raise AnalysisError(f"{fn.name}: expected (f, i, inverse_dx)")
    body = [s for s in fn.body if not (isinstance(s, ast.Expr)
                                       and isinstance(s.value, ast.Constant))]
    env_assign = {}
    ret = None
    for s in body:
        if isinstance(s, ast.Return):
            ret = s.value
        elif isinstance(s, ast.Assign) and len(s.targets) == 1 \
                and isinstance(s.targets[0], ast.Name):
            env_assign[s.targets[0].id] = s.value
        else:
            raise AnalysisError(f"{fn.name}: unexpected statement {norm_src(s)}")
    if ret is None:
        raise AnalysisError(f"{fn.name}: no return")

    class Inl(ast.NodeTransformer):
        def visit_Name(self, n):
            if n.id in env_assign and isinstance(n.ctx, ast.Load):
                return self.visit(env_assign[n.id])
            return n
    import copy
    ret = Inl().visit(copy.deepcopy(ret))
    return lin_eval(ret, *args)


def expected_offsets(p, role):
    if role == "backward":
        return set(range(-p, 1))
    if role == "forward":
        return set(range(0, p + 1))
    return set(range(-p // 2, p // 2 + 1))


def check_stencils(rep):
    S = rep.sources
    fns = S.functions(FD)
    stencils = {}
    for p in ORDERS:
        for role in ROLES:
            name = f"fd{p}_{role}"
            if name not in fns:
                raise AnalysisError(f"anchor vanished: {FD}::{name}")
            fn = fns[name]
            lin = extract_stencil(fn)
            stencils[(p, role)] = lin
            key = f"{FD}::{name}"
            rep.check(lin.dxpow == 1 and lin.c == 0, "stencil-scaling", key,
                      f"stencil must be (sum w_k f[i+k]) * inverse_dx, got spacing power "
                      f"{lin.dxpow}, constant {lin.c}", node=fn)
            offs = set(lin.w)
            exp = expected_offsets(p, role)
            rep.check(offs <= exp and (exp - offs) <= {0}, "stencil-support", key,
                      f"offsets {sorted(offs)} are not the {role} {p}-th order support "
                      f"{sorted(exp)}", node=fn, detail={"offsets": sorted(offs)})
            # moment conditions on the p+1 nodes of the expected support
            for j in range(p + 1):
                m = sum(w * Fraction(k) ** j for k, w in lin.w.items()) if j else \
                    sum(lin.w.values())
                want = 1 if j == 1 else 0
                rep.check(m == want, "stencil-moment", f"{key}::moment{j}",
                          f"sum_k w_k k^{j} = {m}, must be {want}: the weights are not the "
                          f"standard order-{p} {role} weights (weights: "
                          f"{ {k: str(v) for k, v in sorted(lin.w.items())} })", node=fn,
                          detail={"j": j, "sum": str(m)})
    # sibling rule: backward = -(forward reflected)
    for p in ORDERS:
        f, b = stencils[(p, "forward")], stencils[(p, "backward")]
        rep.check({-k: -v for k, v in f.w.items()} == b.w, "stencil-sibling",
                  f"{FD}::fd{p}_backward~fd{p}_forward",
                  "backward stencil is not minus the reflected forward stencil",
                  node=fns[f"fd{p}_backward"])
        c = stencils[(p, "centered")]
        rep.check(all(c.w.get(-k, 0) == -v for k, v in c.w.items()), "stencil-sibling",
                  f"{FD}::fd{p}_centered~antisymmetric",
                  "centred stencil is not antisymmetric", node=fns[f"fd{p}_centered"])
    return stencils


# ---------------------------------------------------------------------------------------------
# dispatch in FiniteDifference.__init__
# ---------------------------------------------------------------------------------------------
def is_self_attr(node, name=None):
    return isinstance(node, ast.Attribute) and isinstance(node.value, ast.Name) \
        and node.value.id == "self" and (name is None or node.attr == name)


def check_dispatch(rep, stencils):
    S = rep.sources
    init = S.function(FD, "FiniteDifference.__init__")
    chain = None
    for st in init.body:
        if isinstance(st, ast.If) and "fd_order" in unparse(st.test):
            chain = st
    if chain is None:
        raise AnalysisError("dispatch on fd_order not found in FiniteDifference.__init__")
    branches = []  # (order or None, body)
    node = chain
    while True:
        t = node.test
        order = None
        if isinstance(t, ast.Compare) and len(t.ops) == 1 and isinstance(t.ops[0], ast.Eq) \
                and is_self_attr(t.left, "fd_order"):
            order = const_value(t.comparators[0])
        if order is None:
            raise AnalysisError(f"dispatch test not understood: {unparse(t)}")
        branches.append((int(order), node.body))
        if len(node.orelse) == 1 and isinstance(node.orelse[0], ast.If):
            node = node.orelse[0]
        else:
            branches.append((None, node.orelse))
            break
    seen_orders = set()
    mask_stmt = None
    for st in init.body:
        if isinstance(st, ast.Assign) and any(is_self_attr(t, "mask_len") for t in st.targets):
            mask_stmt = st
    if mask_stmt is None:
        raise AnalysisError("self.mask_len assignment not found")
    rep.check(init.body.index(mask_stmt) > init.body.index(chain), "dispatch-mask-order",
              f"{FD}::FiniteDifference.__init__::mask_len-after-dispatch",
              "mask_len is computed before fd_order has been normalised", node=mask_stmt)
    for order, body in branches:
        assigned = {}
        norm = None
        for st in body:
            if isinstance(st, ast.Assign) and len(st.targets) == 1 \
                    and is_self_attr(st.targets[0]):
                tgt = st.targets[0].attr
                if tgt in ROLES and isinstance(st.value, ast.Name):
                    assigned[tgt] = st.value.id
                elif tgt == "fd_order":
                    norm = const_value(st.value)
        eff = order if order is not None else (int(norm) if norm is not None else None)
        key = f"{FD}::FiniteDifference.__init__::branch(fd_order=={order})"
        if order is None:
            rep.check(norm is not None and int(norm) in ORDERS, "dispatch-default", key,
                      "the fall-through branch must normalise self.fd_order to a supported "
                      "order before mask_len is computed", node=chain)
            if eff is None:
                continue
        seen_orders.add(eff)
        for role in ROLES:
            rep.check(assigned.get(role) == f"fd{eff}_{role}", "dispatch-table",
                      f"{key}::{role}",
                      f"self.{role} = {assigned.get(role)} but order {eff} requires "
                      f"fd{eff}_{role}", node=chain)
        # mask_len for this order
        m = const_value(mask_stmt.value, {}) if False else None
        sub = _subst_attr(mask_stmt.value, "fd_order", eff)
        m = const_value(sub)
        cen = stencils[(eff, "centered")]
        half = max(abs(k) for k in cen.w)
        rep.check(m is not None and m == half, "dispatch-mask", f"{key}::mask_len",
                  f"mask_len evaluates to {m} for fd_order={eff}, the centred stencil "
                  f"reaches {half} points", node=mask_stmt, detail={"mask_len": str(m)})
    rep.check(seen_orders >= set(ORDERS), "dispatch-complete",
              f"{FD}::FiniteDifference.__init__::orders",
              f"orders dispatched {sorted(seen_orders)} do not cover {ORDERS}", node=chain)


def _subst_attr(expr, attr, value):
    import copy

    class T(ast.NodeTransformer):
        def visit_Attribute(self, n):
            if is_self_attr(n, attr):
                return ast.Constant(value)
            return self.generic_visit(n)
    return T().visit(copy.deepcopy(expr))


# ---------------------------------------------------------------------------------------------
# splices: affine segment analysis with N symbolic, m concrete
# ---------------------------------------------------------------------------------------------
def fd_map_shape(rep):
    S = rep.sources
    fn = S.function(FD, "fd_map")
    args = [a.arg for a in fn.args.args]
    ret = [s for s in fn.body if isinstance(s, ast.Return)]
    ok = False
    if len(args) == 5 and ret:
        v = ret[0].value
        lc = None
        if isinstance(v, ast.Call) and v.args and isinstance(v.args[0], ast.ListComp):
            lc = v.args[0]
        elif isinstance(v, ast.ListComp):
            lc = v
        if lc is not None and len(lc.generators) == 1:
            g = lc.generators[0]
            it = g.iter
            rng_ok = (isinstance(it, ast.Call) and unparse(it.func) in
                      ("np.arange", "range", "numpy.arange") and len(it.args) == 2
                      and unparse(it.args[0]) == args[3] and unparse(it.args[1]) == args[4])
            e = lc.elt
            call_ok = (isinstance(e, ast.Call) and unparse(e.func) == args[0]
                       and [unparse(a) for a in e.args] == [args[1], unparse(g.target),
                                                            args[2]])
            ok = rng_ok and call_ok and not g.ifs
    rep.check(ok, "fd-map-shape", f"{FD}::fd_map",
              "fd_map must evaluate func(farray, i, idx) for every i in [imin, imax), in "
              "order", node=fn)


def call_args(call):
    return [unparse(a) for a in call.args]


def find_calls(fn, name):
    out = []
    for n in ast.walk(fn):
        if isinstance(n, ast.Call) and unparse(n.func) == name:
            out.append(n)
    return out


def local_assigns(fn):
    env = {}
    for st in fn.body:
        if isinstance(st, ast.Assign) and len(st.targets) == 1 \
                and isinstance(st.targets[0], ast.Name):
            env[st.targets[0].id] = st.value
    return env


def seg_of_slice(node, fname, env):
    """Abstract a slice expression of f into (start, length, step) affine in N (m concrete).
    Returns None if not understood."""
    if isinstance(node, ast.Name) and node.id == fname:
        return (Aff(0), Aff.sym("N"), 1)
    if isinstance(node, ast.Subscript):
        inner = seg_of_slice(node.value, fname, env)
        sl = node.slice
        if inner is None or not isinstance(sl, ast.Slice):
            return None
        start0, length0, step0 = inner
        lo = aff_eval(sl.lower, env) if sl.lower is not None else None
        hi = aff_eval(sl.upper, env) if sl.upper is not None else None
        st = const_value(sl.step) if sl.step is not None else Fraction(1)
        if (sl.lower is not None and lo is None) or (sl.upper is not None and hi is None) \
                or st is None:
            return None
        if st == -1 and sl.lower is None and sl.upper is None:
            # reversal
            return (start0 + (length0 - 1).scale(step0), length0, -step0)
        if st != 1:
            return None

        def wrap(v, default):
            if v is None:
                return default
            # negative constants wrap around (python slicing); affine with +N stay
            if v.is_const() and v.c < 0:
                return length0 + v
            return v
        lo = wrap(lo, Aff(0))
        hi = wrap(hi, length0)
        return (start0 + lo.scale(step0), hi - lo, step0)
    return None


def _pad_width_axis0(rep, node, env):
    """(before, after) affine pad widths of axis 0 from the pad_width argument."""
    if isinstance(node, ast.Call) and isinstance(node.func, ast.Attribute) \
            and isinstance(node.func.value, ast.Name) and node.func.value.id == "self":
        helper = rep.sources.functions(FD).get("FiniteDifference." + node.func.attr)
        if helper is not None:
            rets = [s for s in helper.body if isinstance(s, ast.Return)]
            if len(rets) == 1:
                return _pad_width_axis0(rep, rets[0].value, env)
        return None
    if isinstance(node, ast.BinOp) and isinstance(node.op, ast.Add):
        return _pad_width_axis0(rep, node.left, env)
    if isinstance(node, (ast.List, ast.Tuple)) and node.elts:
        first = node.elts[0]
        if isinstance(first, (ast.Tuple, ast.List)) and len(first.elts) == 2:
            a, b = aff_eval(first.elts[0], env), aff_eval(first.elts[1], env)
            rest_zero = all(
                isinstance(e, (ast.Tuple, ast.List)) and all(const_value(x) == 0
                                                             for x in e.elts)
                for e in node.elts[1:])
            if a is not None and b is not None and rest_zero:
                return a, b
        elif len(node.elts) == 2 and not isinstance(first, (ast.Tuple, ast.List)):
            return None  # (before, after) for all axes: pads the other axes too
    return None


def pad_segments(rep, call, fname, env, m):
    """Model np.pad(f, widths, mode=...) along axis 0 as (start, length, step) segments."""
    N = Aff.sym("N")
    if not call.args or unparse(call.args[0]) != fname or len(call.args) < 2:
        return [None]
    w = _pad_width_axis0(rep, call.args[1], env)
    mode = None
    for k in call.keywords:
        if k.arg == "mode" and isinstance(k.value, ast.Constant):
            mode = k.value.value
    if len(call.args) > 2 and isinstance(call.args[2], ast.Constant):
        mode = call.args[2].value
    if w is None:
        return [None]
    a, b = w
    mid = (Aff(0), N, 1)
    if mode == "wrap":
        return [(N - a, a, 1), mid, (Aff(0), b, 1)]
    if mode == "reflect":      # mirror about the edge sample, edge not repeated
        return [(a, a, -1), mid, (N - 2, b, -1)]
    if mode == "symmetric":    # mirror about the cell face, edge sample repeated
        return [(a - 1, a, -1), mid, (N - 1, b, -1)]
    # constant / edge / linear_ramp ...: ghost points are not samples of f at mirrored or
    # wrapped positions at all
    return [(Aff(-1), a, 0), mid, (Aff(-1), b, 0)]


def affine_env(fn, m):
    env = {"self.mask_len": Aff(m), "N": Aff.sym("N")}
    for name, val in local_assigns(fn).items():
        a = aff_eval(val, env)
        if a is not None:
            env[name] = a
    return env


def min_N_for(cond_list):
    """cond_list: affine forms that must be >= 0; each a*N + b.  Returns minimal N (int) or
    None when some condition fails for all large N."""
    nmin = 0
    for a in cond_list:
        cN = a.t.get("N", Fraction(0))
        if set(a.t) - {"N"}:
            return None
        if cN < 0:
            return None
        if cN == 0:
            if a.c < 0:
                return None
            continue
        need = -a.c / cN
        n = need.__ceil__()
        nmin = max(nmin, n)
    return nmin


def check_splices(rep, stencils):
    S = rep.sources
    fd_map_shape(rep)
    Nsym = Aff.sym("N")
    minsizes = {}
    # ---- one-sided
    fn = S.function(FD, "FiniteDifference.d3_onesided")
    params = [a.arg for a in fn.args.args]  # self, f, idx, N
    calls = find_calls(fn, "fd_map")
    rep.require(len(calls) == 3, "d3_onesided: expected three fd_map calls")
    ret = [s for s in fn.body if isinstance(s, ast.Return)][0].value
    env_names = {k: v for k, v in local_assigns(fn).items()}
    order_names = []
    if isinstance(ret, ast.Call) and unparse(ret.func) in ("np.concatenate",):
        tup = ret.args[0]
        order_names = [unparse(e) for e in tup.elts] if isinstance(tup, (ast.Tuple, ast.List)) \
            else []
        axis_ok = any(k.arg == "axis" and const_value(k.value) == 0 for k in ret.keywords)
    else:
        axis_ok = False
    segs = []
    for nm in order_names:
        c = env_names.get(nm)
        if not (isinstance(c, ast.Call) and unparse(c.func) == "fd_map"):
            raise AnalysisError("d3_onesided: concatenation operand is not an fd_map result")
        segs.append(c)
    rep.check(axis_ok and len(segs) == 3, "onesided-concat", f"{FD}::d3_onesided::concat",
              "the three pieces must be concatenated along axis 0", node=ret)
    for p in ORDERS:
        m = p // 2
        env = affine_env(fn, m)
        env[params[3]] = Nsym
        key = f"{FD}::d3_onesided::order{p}"
        pieces = []
        for c in segs:
            a = call_args(c)
            role = a[0].replace("self.", "")
            lo, hi = aff_eval(c.args[3], env), aff_eval(c.args[4], env)
            rep.require(lo is not None and hi is not None, "d3_onesided: non-affine range")
            rep.check(a[1] == params[1] and a[2] == params[2], "onesided-args",
                      f"{key}::{role}::args", "fd_map must receive (f, idx) unchanged", node=c)
            pieces.append((role, lo, hi))
        roles = [r for r, _, _ in pieces]
        rep.check(roles == ["forward", "centered", "backward"], "onesided-roles", key,
                  f"pieces are {roles}; the left edge needs the forward, the interior the "
                  "centred and the right edge the backward stencil", node=fn)
        contiguous = (pieces[0][1] == Aff(0)
                      and all(pieces[i][2] == pieces[i + 1][1] for i in range(2))
                      and pieces[2][2] == Nsym)
        rep.check(contiguous, "onesided-cover", key,
                  "ranges " + ", ".join(f"[{lo},{hi})" for _, lo, hi in pieces)
                  + " do not tile [0,N) exactly once", node=fn,
                  detail={"ranges": [f"[{lo},{hi})" for _, lo, hi in pieces]})
        conds = []
        for role, lo, hi in pieces:
            if role not in ROLES:
                continue
            w = stencils[(p, role)].w
            kmin, kmax = min(w), max(w)
            conds.append(lo + kmin)                  # lowest subscript >= 0
            conds.append(Nsym - 1 - (hi - 1 + kmax))  # highest subscript <= N-1
            conds.append(hi - lo)                    # non-negative length
        nmin = min_N_for(conds)
        rep.check(nmin is not None, "onesided-bounds", key,
                  "some stencil subscript leaves [0, N-1] for every N (python would wrap "
                  "negative indices silently)", node=fn, detail={"min_supported_N": nmin})
        # the interior piece must use exactly the half-width
        if nmin is not None:
            minsizes[p] = nmin
            rep.check(nmin <= 3 * p // 2, "onesided-minsize", key,
                      f"in-range subscripts need N >= {nmin}, the scheme's natural minimum is "
                      f"{3*p//2}", node=fn)
    rep.extra_cov["min_supported_N_onesided"] = minsizes

    # ---- periodic and symmetric
    for mode in ("periodic", "symmetric"):
        fn = S.function(FD, f"FiniteDifference.d3_{mode}")
        params = [a.arg for a in fn.args.args]
        la = local_assigns(fn)
        calls = find_calls(fn, "fd_map")
        rep.require(len(calls) == 1, f"d3_{mode}: expected one fd_map call")
        c = calls[0]
        a = call_args(c)
        longname = a[1]
        cat = la.get(longname)
        rep.require(isinstance(cat, ast.Call)
                    and unparse(cat.func) in ("np.concatenate", "np.pad"),
                    f"d3_{mode}: extended array is neither a concatenation nor np.pad")
        is_pad = unparse(cat.func) == "np.pad"
        if is_pad:
            axis_ok = True
            elts = []
        else:
            axis_ok = any(k.arg == "axis" and const_value(k.value) == 0
                          for k in cat.keywords)
            elts = cat.args[0].elts
        for p in ORDERS:
            m = p // 2
            env = affine_env(fn, m)
            env[params[3]] = Nsym
            for name, val in la.items():
                v = aff_eval(val, env)
                if v is not None:
                    env[name] = v
            key = f"{FD}::d3_{mode}::order{p}"
            if is_pad:
                segs = pad_segments(rep, cat, params[1], env, m)
            else:
                segs = [seg_of_slice(e, params[1], env) for e in elts]
            if any(s is None for s in segs):
                raise AnalysisError(f"d3_{mode}: slice not understood: "
                                    + ", ".join(unparse(e) for e in elts))
            if mode == "periodic":
                want = [(Nsym - m, Aff(m), 1), (Aff(0), Nsym, 1), (Aff(0), Aff(m), 1)]
                descr = "flong[j] = f[(j-m) mod N]"
            else:
                want = [(Aff(m), Aff(m), -1), (Aff(0), Nsym, 1), (Nsym - 2, Aff(m), -1)]
                descr = "flong[j] = f[|j-m|] left, f[2(N-1)-(j-m)] right"
            got = [(s[0], s[1], int(s[2])) for s in segs]
            rep.check(axis_ok and got == want, f"{mode}-extension", key,
                      f"extended array segments (start,len,step) {got} != {want} "
                      f"required for {descr}", node=cat,
                      detail={"segments": [str(g) for g in got]})
            lo, hi = aff_eval(c.args[3], env), aff_eval(c.args[4], env)
            rep.check(a[0] == "self.centered" and a[2] == params[2] and lo == Aff(m)
                      and hi == Nsym + m, f"{mode}-map", key,
                      f"the centred stencil must be mapped over [m, N+m) of the extended "
                      f"array, got {a[0]} over [{lo},{hi})", node=c)
            w = stencils[(p, "centered")].w
            rep.check(max(abs(k) for k in w) <= m, f"{mode}-reach", key,
                      "centred stencil reaches beyond the m ghost points", node=c)
    # ---- d3 dispatch on boundary
    fn = S.function(FD, "FiniteDifference.d3")
    params = [a.arg for a in fn.args.args]
    table = {}
    node = fn.body[-1] if isinstance(fn.body[-1], ast.If) else None
    for st in fn.body:
        if isinstance(st, ast.If):
            node = st
    rep.require(node is not None, "d3: boundary dispatch not found")
    while isinstance(node, ast.If):
        t = node.test
        lab = None
        if isinstance(t, ast.Compare) and is_self_attr(t.left, "boundary") \
                and isinstance(t.ops[0], ast.Eq) and isinstance(t.comparators[0], ast.Constant):
            lab = t.comparators[0].value
        r = node.body[0]
        if lab is not None and isinstance(r, ast.Return) and isinstance(r.value, ast.Call):
            table[lab] = (unparse(r.value.func), call_args(r.value))
        if len(node.orelse) == 1 and isinstance(node.orelse[0], ast.If):
            node = node.orelse[0]
        else:
            r = node.orelse[0] if node.orelse else None
            if isinstance(r, ast.Return) and isinstance(r.value, ast.Call):
                table[None] = (unparse(r.value.func), call_args(r.value))
            break
    want = {"periodic": "self.d3_periodic", "symmetric": "self.d3_symmetric",
            None: "self.d3_onesided"}
    for lab, fnname in want.items():
        got = table.get(lab)
        rep.check(got is not None and got[0] == fnname and got[1] == params[1:],
                  "boundary-dispatch", f"{FD}::d3::{lab}",
                  f"boundary mode {lab!r} must call {fnname}(f, idx, N); got {got}", node=fn)


# ---------------------------------------------------------------------------------------------
# axes, permutations and tensor maps
# ---------------------------------------------------------------------------------------------
AXIS = {"x": 0, "y": 1, "z": 2}


def tuple_const(node):
    if isinstance(node, (ast.Tuple, ast.List)):
        vals = [const_value(e) for e in node.elts]
        if all(v is not None and v.denominator == 1 for v in vals):
            return tuple(int(v) for v in vals)
    return None


def check_axes(rep):
    S = rep.sources
    init = S.function(FD, "FiniteDifference.__init__")
    # inverse spacing definitions
    for ax in "xyz":
        found = False
        for st in ast.walk(init):
            if isinstance(st, ast.Assign) and any(is_self_attr(t, f"inverse_d{ax}")
                                                  for t in st.targets):
                found = True
                v = st.value
                ok = (isinstance(v, ast.BinOp) and isinstance(v.op, ast.Div)
                      and const_value(v.left) == 1
                      and unparse(v.right) in (f"self.param['d{ax}']", f"self.d{ax}"))
                rep.check(ok, "axis-spacing", f"{FD}::__init__::inverse_d{ax}",
                          f"inverse_d{ax} must be 1/d{ax}, got {unparse(v)}", node=st)
        rep.require(found, f"inverse_d{ax} assignment not found")
    for ax in "xyz":
        fn = S.function(FD, f"FiniteDifference.d3{ax}")
        calls = find_calls(fn, "self.d3")
        rep.require(len(calls) == 1, f"d3{ax}: expected one call of self.d3")
        c = calls[0]
        a = call_args(c)
        key = f"{FD}::d3{ax}"
        rep.check(a[1] == f"self.inverse_d{ax}" and a[2] == f"self.param['N{ax}']",
                  "axis-params", key,
                  f"d3{ax} must use the spacing and size of the {ax} axis, got {a[1:]}", node=c)
        trans = find_calls(fn, "np.transpose")
        if AXIS[ax] == 0:
            rep.check(not trans and a[0] == fn.args.args[1].arg, "axis-permutation", key,
                      "d3x must differentiate the array as given", node=fn)
            continue
        perms = [tuple_const(t.args[1]) if len(t.args) > 1 else None for t in trans]
        ok = len(trans) == 2 and all(p is not None and sorted(p) == [0, 1, 2] for p in perms)
        if ok:
            fwd, back = perms
            # which transpose feeds self.d3 ?  the one assigned before the call
            ok = (fwd[0] == AXIS[ax]
                  and tuple(fwd[back[i]] for i in range(3)) == (0, 1, 2))
        rep.check(ok, "axis-permutation", key,
                  f"transpositions {perms}: the first must bring axis {AXIS[ax]} to the front "
                  "and the second must be its inverse", node=fn, detail={"perms": str(perms)})
        # data flow: transposed input -> self.d3 -> transposed back -> return
        la = local_assigns(fn)
        arg0 = c.args[0]
        src_ok = isinstance(arg0, ast.Name) and isinstance(la.get(arg0.id), ast.Call) \
            and unparse(la[arg0.id].func) == "np.transpose"
        ret = [s for s in fn.body if isinstance(s, ast.Return)][0].value
        ret_ok = isinstance(ret, ast.Call) and unparse(ret.func) == "np.transpose" \
            and isinstance(ret.args[0], ast.Name) and la.get(ret.args[0].id) is c
        rep.check(src_ok and ret_ok, "axis-flow", key,
                  "d3 must be applied to the transposed input and its result transposed back",
                  node=fn)
    # tensor maps
    for n in (1, 2, 3):
        fn = S.function(FD, f"map{n}")
        params = [a.arg for a in fn.args.args]
        la = local_assigns(fn)
        ret = [s for s in fn.body if isinstance(s, ast.Return)][0].value
        lc = ret.args[0] if isinstance(ret, ast.Call) and ret.args else ret
        loopvars, bounds = [], []
        while isinstance(lc, ast.ListComp):
            g = lc.generators[0]
            loopvars.append(unparse(g.target))
            b = g.iter.args[0] if isinstance(g.iter, ast.Call) and g.iter.args else None
            if isinstance(b, ast.Name) and b.id in la:
                b = la[b.id]
            bounds.append(unparse(b) if b is not None else None)
            lc = lc.elt
        ok = isinstance(lc, ast.Call) and unparse(lc.func) == params[0] and len(lc.args) == 1
        idx = None
        if ok:
            sub = lc.args[0]
            if isinstance(sub, ast.Subscript) and unparse(sub.value) == params[1]:
                idx = [unparse(e) for e in sub.slice.elts] if isinstance(sub.slice, ast.Tuple) \
                    else [unparse(sub.slice)]
        want_bounds = [f"np.shape({params[1]})[{i}]" for i in range(n)]
        rep.check(ok and idx == loopvars and len(loopvars) == n and bounds == want_bounds,
                  "tensor-map", f"{FD}::map{n}",
                  f"map{n} must rebuild the nest in index order: loop vars {loopvars}, "
                  f"subscript {idx}, bounds {bounds}", node=fn)
    # d3_scalar, rank-N gradient builders
    meth = S.functions(FD)
    fn = S.function(FD, "FiniteDifference.d3_scalar")
    ret = [s for s in fn.body if isinstance(s, ast.Return)][0].value
    arg = fn.args.args[1].arg
    want = [f"self.d3{ax}({arg})" for ax in "xyz"]
    got = [unparse(e) for e in ret.args[0].elts] if isinstance(ret, ast.Call) and ret.args \
        and isinstance(ret.args[0], (ast.List, ast.Tuple)) else None
    rep.check(got == want, "gradient-order", f"{FD}::d3_scalar",
              f"gradient components must be stacked (x, y, z): got {got}", node=fn)
    for n in (1, 2, 3):
        for ax in "xyz":
            fn = S.function(FD, f"FiniteDifference.d3{ax}_rank{n}tensor")
            arg = fn.args.args[1].arg
            ret = [s for s in fn.body if isinstance(s, ast.Return)][0].value
            rep.check(unparse(ret) == f"map{n}(self.d3{ax}, {arg})", "tensor-axis",
                      f"{FD}::d3{ax}_rank{n}tensor",
                      f"must be map{n}(self.d3{ax}, f), got {unparse(ret)}", node=fn)
        fn = S.function(FD, f"FiniteDifference.d3_rank{n}tensor")
        arg = fn.args.args[1].arg
        ret = [s for s in fn.body if isinstance(s, ast.Return)][0].value
        got = None
        axis_ok = True
        if isinstance(ret, ast.Call) and ret.args and isinstance(ret.args[0],
                                                                 (ast.List, ast.Tuple)):
            got = [unparse(e) for e in ret.args[0].elts]
            if unparse(ret.func) == "np.stack":
                axis_ok = all(const_value(k.value) == 0 for k in ret.keywords
                              if k.arg == "axis")
        alt1 = [f"self.d3{ax}_rank{n}tensor({arg})" for ax in "xyz"]
        alt2 = [f"map{n}(self.d3{ax}, {arg})" for ax in "xyz"]
        rep.check(got in (alt1, alt2) and axis_ok, "gradient-order",
                  f"{FD}::d3_rank{n}tensor",
                  f"derivative axis must be first, in (x, y, z) order: got {got}", node=fn)
    return meth


STRAIGHT = ["fd_map", "map1", "map2", "map3", "FiniteDifference.d3x", "FiniteDifference.d3y",
            "FiniteDifference.d3z", "FiniteDifference.d3_periodic",
            "FiniteDifference.d3_symmetric", "FiniteDifference.d3_onesided",
            "FiniteDifference.d3_scalar"] + [
    f"FiniteDifference.d3{ax}_rank{n}tensor" for ax in ("", "x", "y", "z") for n in (1, 2, 3)]


def check_straight_line(rep):
    """The operators above must be straight-line code: no data- or mode-dependent shortcut
    may bypass the stencil application that the other rules verify (a branch returning early
    would make the verified path one of several)."""
    S = rep.sources
    for qual in STRAIGHT:
        fn = S.function(FD, qual)
        bad = []
        nret = 0
        for st in fn.body:
            if isinstance(st, ast.Expr) and isinstance(st.value, ast.Constant):
                continue
            if isinstance(st, ast.Assign) and all(isinstance(t, ast.Name) for t in st.targets):
                continue
            if isinstance(st, ast.Return):
                nret += 1
                continue
            bad.append(type(st).__name__ + ": " + norm_src(st)[:50])
        for node in ast.walk(fn):
            if isinstance(node, ast.IfExp):
                bad.append("conditional expression: " + norm_src(node)[:50])
        rep.check(not bad and nret == 1, "straight-line", f"{FD}::{qual}",
                  "operator is not straight-line code (single return, no branches): "
                  + "; ".join(bad), node=fn)


def run(rep):
    rep.explanation = (
        "Proof-style static decision of C07: every stencil body is parsed to an exact rational "
        "linear form and the p+1 moment conditions (unique solution = the standard weights, "
        "exact on polynomials of degree <= p) are discharged in Fraction arithmetic; the "
        "order dispatch, the three boundary splices (affine index arithmetic with N symbolic), "
        "the axis permutations and the tensor maps are rule instances over the syntax tree. "
        "Floating-point round-off is not decided.")
    rep.trusted_base = ["CPython ast, fractions", "aurelsa.exact (affine/linear forms)",
                        "numpy slicing/concatenate/transpose semantics as modelled"]
    rep.assume("numpy slicing, concatenate and transpose behave as documented")
    rep.assume("round-off of the float weights (e.g. 25/12) is not part of the claim")
    stencils = check_stencils(rep)
    check_dispatch(rep, stencils)
    check_splices(rep, stencils)
    check_axes(rep)
    check_straight_line(rep)
    rep.floor("stencil-moment", 72)
    rep.floor("straight-line", 20)
    rep.floor("dispatch-table", 12)
    rep.floor("onesided-cover", 4)
    rep.floor("periodic-extension", 4)
    rep.floor("symmetric-extension", 4)
    rep.floor("axis-permutation", 3)
    rep.floor("tensor-axis", 9)
