"""C07 -- finite-difference operators are the stated-order derivative at every grid point.

Decided statically (proof level for the weights): exact rational stencil extraction and moment
conditions; dispatch table; affine segment analysis of the three boundary splices with the
grid size N symbolic; axis/permutation rules; tensor maps."""
from __future__ import annotations

import ast
from fractions import Fraction

from ..common import AnalysisError, norm_src, unparse
from ..exact import Aff, aff_eval, const_value

LEVEL = "proof"
FD = "finitedifference.py"
ORDERS = (2, 4, 6, 8)
ROLES = ("backward", "centered", "forward")


# ---------------------------------------------------------------------------------------------
# linear forms over stencil offsets
# ---------------------------------------------------------------------------------------------
class Lin:
    """sum_k w_k f[i+k] * inverse_dx**dxpow  (or a pure constant when w is empty)"""

    def __init__(self, w=None, c=0, dxpow=0):
        self.w = {k: Fraction(v) for k, v in (w or {}).items() if v != 0}
        self.c = Fraction(c)
        self.dxpow = dxpow

    def is_const(self):
        return not self.w and self.dxpow == 0


def lin_eval(node, fname, iname, dxname):
    v = const_value(node)
    if v is not None:
        return Lin(c=v)
    if isinstance(node, ast.Name) and node.id == dxname:
        return Lin(c=1, dxpow=1)
    if isinstance(node, ast.Subscript) and isinstance(node.value, ast.Name) \
            and node.value.id == fname:
        off = aff_eval(node.slice, {iname: Aff.sym("i")})
        if off is None or off.t.get("i", 0) != 1 or set(off.t) - {"i"} \
                or off.c.denominator != 1:
            raise AnalysisError(f"stencil subscript not of the form i+k: {unparse(node)}")
        return Lin(w={int(off.c): 1})
    if isinstance(node, ast.UnaryOp) and isinstance(node.op, (ast.USub, ast.UAdd)):
        a = lin_eval(node.operand, fname, iname, dxname)
        s = -1 if isinstance(node.op, ast.USub) else 1
        return Lin({k: s * v for k, v in a.w.items()}, s * a.c, a.dxpow)
    if isinstance(node, ast.BinOp):
        a = lin_eval(node.left, fname, iname, dxname)
        b = lin_eval(node.right, fname, iname, dxname)
        if isinstance(node.op, (ast.Add, ast.Sub)):
            s = 1 if isinstance(node.op, ast.Add) else -1
            if a.dxpow != b.dxpow and not (a.is_const() and a.c == 0) \
                    and not (b.is_const() and b.c == 0):
                raise AnalysisError(f"stencil mixes powers of the spacing: {unparse(node)}")
            if (a.c != 0 and not a.is_const()) or (b.c != 0 and not b.is_const()):
                raise AnalysisError("stencil has an affine constant part")
            w = dict(a.w)
            for k, v in b.w.items():
                w[k] = w.get(k, 0) + s * v
            return Lin(w, a.c + s * b.c, max(a.dxpow, b.dxpow))
        if isinstance(node.op, ast.Mult):
            if a.w and b.w:
                raise AnalysisError(f"stencil is not linear in f: {unparse(node)}")
            if a.w:
                a, b = b, a
            # a has no f-dependence: scalar a.c * dx^a.dxpow
            if b.w:
                return Lin({k: a.c * v for k, v in b.w.items()}, 0, a.dxpow + b.dxpow)
            return Lin(c=a.c * b.c, dxpow=a.dxpow + b.dxpow)
        if isinstance(node.op, ast.Div):
            if b.w or b.c == 0:
                raise AnalysisError(f"stencil divides by a field: {unparse(node)}")
            return Lin({k: v / b.c for k, v in a.w.items()}, a.c / b.c, a.dxpow - b.dxpow)
    raise AnalysisError(f"stencil expression not understood: {unparse(node)}")


def extract_stencil(fn):
    args = [a.arg for a in fn.args.args]
    if len(args) != 3:
        raise AnalysisError(f"{fn.name}: expected (f, i, inverse_dx)")
    body = [s for s in fn.body if not (isinstance(s, ast.Expr)
                                       and isinstance(s.value, ast.Constant))]
    env_assign = {}
    ret = None
    for s in body:
        if isinstance(s, ast.Return):
            ret = s.value
        elif isinstance(s, ast.Assign) and len(s.targets) == 1 \
                and isinstance(s.targets[0], ast.Name):
            env_assign[s.targets[0].id] = s.value
        else:
            raise AnalysisError(f"{fn.name}: unexpected statement {norm_src(s)}")
    if ret is None:
        raise AnalysisError(f"{fn.name}: no return")

    class Inl(ast.NodeTransformer):
        def visit_Name(self, n):
            if n.id in env_assign and isinstance(n.ctx, ast.Load):
                return self.visit(env_assign[n.id])
            return n
    import copy
    ret = Inl().visit(copy.deepcopy(ret))
    return lin_eval(ret, *args)


def expected_offsets(p, role):
    if role == "backward":
        return set(range(-p, 1))
    if role == "forward":
        return set(range(0, p + 1))
    return set(range(-p // 2, p // 2 + 1))


def check_stencils(rep):
    S = rep.sources
    fns = S.functions(FD)
    stencils = {}
    for p in ORDERS:
        for role in ROLES:
            name = f"fd{p}_{role}"
            if name not in fns:
                raise AnalysisError(f"anchor vanished: {FD}::{name}")
            fn = fns[name]
            lin = extract_stencil(fn)
            stencils[(p, role)] = lin
            key = f"{FD}::{name}"
            rep.check(lin.dxpow == 1 and lin.c == 0, "stencil-scaling", key,
                      f"stencil must be (sum w_k f[i+k]) * inverse_dx, got spacing power "
                      f"{lin.dxpow}, constant {lin.c}", node=fn)
            offs = set(lin.w)
            exp = expected_offsets(p, role)
            rep.check(offs <= exp and (exp - offs) <= {0}, "stencil-support", key,
                      f"offsets {sorted(offs)} are not the {role} {p}-th order support "
                      f"{sorted(exp)}", node=fn, detail={"offsets": sorted(offs)})
            # moment conditions on the p+1 nodes of the expected support
            for j in range(p + 1):
                m = sum(w * Fraction(k) ** j for k, w in lin.w.items()) if j else \
                    sum(lin.w.values())
                want = 1 if j == 1 else 0
                rep.check(m == want, "stencil-moment", f"{key}::moment{j}",
                          f"sum_k w_k k^{j} = {m}, must be {want}: the weights are not the "
                          f"standard order-{p} {role} weights (weights: "
                          f"{ {k: str(v) for k, v in sorted(lin.w.items())} })", node=fn,
                          detail={"j": j, "sum": str(m)})
    # sibling rule: backward = -(forward reflected)
    for p in ORDERS:
        f, b = stencils[(p, "forward")], stencils[(p, "backward")]
        rep.check({-k: -v for k, v in f.w.items()} == b.w, "stencil-sibling",
                  f"{FD}::fd{p}_backward~fd{p}_forward",
                  "backward stencil is not minus the reflected forward stencil",
                  node=fns[f"fd{p}_backward"])
        c = stencils[(p, "centered")]
        rep.check(all(c.w.get(-k, 0) == -v for k, v in c.w.items()), "stencil-sibling",
                  f"{FD}::fd{p}_centered~antisymmetric",
                  "centred stencil is not antisymmetric", node=fns[f"fd{p}_centered"])
    return stencils


# ---------------------------------------------------------------------------------------------
# dispatch in FiniteDifference.__init__
# ---------------------------------------------------------------------------------------------
def is_self_attr(node, name=None):
    return isinstance(node, ast.Attribute) and isinstance(node.value, ast.Name) \
        and node.value.id == "self" and (name is None or node.attr == name)


def check_dispatch(rep, stencils):
    S = rep.sources
    init = S.function(FD, "FiniteDifference.__init__")
    chain = None
    for st in init.body:
        if isinstance(st, ast.If) and "fd_order" in unparse(st.test):
            chain = st
    if chain is None:
        raise AnalysisError("dispatch on fd_order not found in FiniteDifference.__init__")
    branches = []  # (order or None, body)
    node = chain
    while True:
        t = node.test
        order = None
        if isinstance(t, ast.Compare) and len(t.ops) == 1 and isinstance(t.ops[0], ast.Eq) \
                and is_self_attr(t.left, "fd_order"):
            order = const_value(t.comparators[0])
        if order is None:
            raise AnalysisError(f"dispatch test not understood: {unparse(t)}")
        branches.append((int(order), node.body))
        if len(node.orelse) == 1 and isinstance(node.orelse[0], ast.If):
            node = node.orelse[0]
        else:
            branches.append((None, node.orelse))
            break
    seen_orders = set()
    mask_stmt = None
    for st in init.body:
        if isinstance(st, ast.Assign) and any(is_self_attr(t, "mask_len") for t in st.targets):
            mask_stmt = st
    if mask_stmt is None:
        raise AnalysisError("self.mask_len assignment not found")
    rep.check(init.body.index(mask_stmt) > init.body.index(chain), "dispatch-mask-order",
              f"{FD}::FiniteDifference.__init__::mask_len-after-dispatch",
              "mask_len is computed before fd_order has been normalised", node=mask_stmt)
    for order, body in branches:
        assigned = {}
        norm = None
        for st in body:
            if isinstance(st, ast.Assign) and len(st.targets) == 1 \
                    and is_self_attr(st.targets[0]):
                tgt = st.targets[0].attr
                if tgt in ROLES and isinstance(st.value, ast.Name):
                    assigned[tgt] = st.value.id
                elif tgt == "fd_order":
                    norm = const_value(st.value)
        eff = order if order is not None else (int(norm) if norm is not None else None)
        key = f"{FD}::FiniteDifference.__init__::branch(fd_order=={order})"
        if order is None:
            rep.check(norm is not None and int(norm) in ORDERS, "dispatch-default", key,
                      "the fall-through branch must normalise self.fd_order to a supported "
                      "order before mask_len is computed", node=chain)
            if eff is None:
                continue
        seen_orders.add(eff)
        for role in ROLES:
            rep.check(assigned.get(role) == f"fd{eff}_{role}", "dispatch-table",
                      f"{key}::{role}",
                      f"self.{role} = {assigned.get(role)} but order {eff} requires "
                      f"fd{eff}_{role}", node=chain)
        # mask_len for this order
        m = const_value(mask_stmt.value, {}) if False else None
        sub = _subst_attr(mask_stmt.value, "fd_order", eff)
        m = const_value(sub)
        cen = stencils[(eff, "centered")]
        half = max(abs(k) for k in cen.w)
        rep.check(m is not None and m == half, "dispatch-mask", f"{key}::mask_len",
                  f"mask_len evaluates to {m} for fd_order={eff}, the centred stencil "
                  f"reaches {half} points", node=mask_stmt, detail={"mask_len": str(m)})
    rep.check(seen_orders >= set(ORDERS), "dispatch-complete",
              f"{FD}::FiniteDifference.__init__::orders",
              f"orders dispatched {sorted(seen_orders)} do not cover {ORDERS}", node=chain)


def _subst_attr(expr, attr, value):
    import copy

    class T(ast.NodeTransformer):
        def visit_Attribute(self, n):
            if is_self_attr(n, attr):
                return ast.Constant(value)
            return self.generic_visit(n)
    return T().visit(copy.deepcopy(expr))


# ---------------------------------------------------------------------------------------------
# splices, axes and tensor maps: decided on the terms of the symbolic interpreter (fdinterp),
# so temporaries, aliases, renamings, loops vs comprehensions do not matter
# ---------------------------------------------------------------------------------------------
from ..fdinterp import FDInterp, NotUnderstood, canon_lists, segments  # noqa: E402

AXIS = {"x": 0, "y": 1, "z": 2}
Nsym = Aff.sym("N")


def interp(rep, qual, m=None, args=None):
    fn = rep.sources.function(FD, qual)
    return fn, FDInterp(m, what=qual).run(fn, args)


def fd_map_shape(rep):
    fn, v = interp(rep, "fd_map")
    p = [a.arg for a in fn.args.args]
    ok = len(p) == 5
    if ok:
        P = [("param", x) for x in p]
        want = ("list", "i0", ("range", P[3], P[4]), ("call", P[0], (P[1], ("sym", "i0"), P[2])))
        got = canon_lists(v[1] if v[0] == "arr" else v)
        ok = got == want
    rep.check(ok, "fd-map-shape", f"{FD}::fd_map",
              "fd_map must evaluate func(farray, i, idx) for every i in [imin, imax), in "
              "order", node=fn)


def min_N_for(cond_list):
    """cond_list: affine forms that must be >= 0; each a*N + b.  Returns minimal N (int) or
    None when some condition fails for all large N."""
    nmin = 0
    for a in cond_list:
        cN = a.t.get("N", Fraction(0))
        if set(a.t) - {"N"}:
            return None
        if cN < 0:
            return None
        if cN == 0:
            if a.c < 0:
                return None
            continue
        need = -a.c / cN
        n = need.__ceil__()
        nmin = max(nmin, n)
    return nmin


def check_splices(rep, stencils):
    S = rep.sources
    fd_map_shape(rep)
    minsizes = {}
    # ---- one-sided
    fn = S.function(FD, "FiniteDifference.d3_onesided")
    params = [a.arg for a in fn.args.args][1:]          # f, idx, N
    rep.require(len(params) == 3, "d3_onesided: expected (f, idx, N)")
    F, IDX = ("param", params[0]), ("param", params[1])
    for p in ORDERS:
        m = p // 2
        key = f"{FD}::d3_onesided::order{p}"
        v = FDInterp(m, "d3_onesided").run(fn, [F, IDX, Nsym])
        pieces_v = v[1] if v[0] == "cat" else None
        ok = pieces_v is not None and v[2] == Aff(0) and len(pieces_v) == 3 \
            and all(x[0] == "fd_map" and len(x[1]) == 5 for x in pieces_v)
        if p == ORDERS[0]:
            rep.check(ok, "onesided-concat", f"{FD}::d3_onesided::concat",
                      "the result must be the concatenation along axis 0 of three fd_map "
                      "pieces", node=fn)
        if not ok:
            continue
        pieces = []
        for x in pieces_v:
            role, arr, idx, lo, hi = x[1]
            rname = role[1] if role[0] == "role" else str(role)
            rep.require(isinstance(lo, Aff) and isinstance(hi, Aff),
                        "d3_onesided: non-affine range")
            rep.check(arr == F and idx == IDX, "onesided-args", f"{key}::{rname}::args",
                      "fd_map must receive (f, idx) unchanged", node=fn)
            pieces.append((rname, lo, hi))
        roles = [r for r, _, _ in pieces]
        rep.check(roles == ["forward", "centered", "backward"], "onesided-roles", key,
                  f"pieces are {roles}; the left edge needs the forward, the interior the "
                  "centred and the right edge the backward stencil", node=fn)
        contiguous = (pieces[0][1] == Aff(0)
                      and all(pieces[i][2] == pieces[i + 1][1] for i in range(2))
                      and pieces[2][2] == Nsym)
        rep.check(contiguous, "onesided-cover", key,
                  "ranges " + ", ".join(f"[{lo},{hi})" for _, lo, hi in pieces)
                  + " do not tile [0,N) exactly once", node=fn,
                  detail={"ranges": [f"[{lo},{hi})" for _, lo, hi in pieces]})
        conds = []
        for role, lo, hi in pieces:
            if role not in ROLES:
                continue
            w = stencils[(p, role)].w
            kmin, kmax = min(w), max(w)
            conds.append(lo + kmin)                  # lowest subscript >= 0
            conds.append(Nsym - 1 - (hi - 1 + kmax))  # highest subscript <= N-1
            conds.append(hi - lo)                    # non-negative length
        nmin = min_N_for(conds)
        rep.check(nmin is not None, "onesided-bounds", key,
                  "some stencil subscript leaves [0, N-1] for every N (python would wrap "
                  "negative indices silently)", node=fn, detail={"min_supported_N": nmin})
        if nmin is not None:
            minsizes[p] = nmin
            rep.check(nmin <= 3 * p // 2, "onesided-minsize", key,
                      f"in-range subscripts need N >= {nmin}, the scheme's natural minimum is "
                      f"{3*p//2}", node=fn)
    rep.extra_cov["min_supported_N_onesided"] = minsizes

    # ---- periodic and symmetric
    for mode in ("periodic", "symmetric"):
        fn = S.function(FD, f"FiniteDifference.d3_{mode}")
        params = [a.arg for a in fn.args.args][1:]
        rep.require(len(params) == 3, f"d3_{mode}: expected (f, idx, N)")
        F, IDX = ("param", params[0]), ("param", params[1])
        for p in ORDERS:
            m = p // 2
            key = f"{FD}::d3_{mode}::order{p}"
            v = FDInterp(m, f"d3_{mode}").run(fn, [F, IDX, Nsym])
            rep.require(v[0] == "fd_map" and len(v[1]) == 5,
                        f"d3_{mode}: the result is not one fd_map over an extended array")
            role, arr, idx, lo, hi = v[1]
            segs = segments(arr, Nsym, params[0])
            if segs is None:
                raise AnalysisError(f"d3_{mode}: extended array not understood: {arr!r}"[:200])
            if mode == "periodic":
                want = [(Nsym - m, Aff(m), 1), (Aff(0), Nsym, 1), (Aff(0), Aff(m), 1)]
                descr = "flong[j] = f[(j-m) mod N]"
            else:
                want = [(Aff(m), Aff(m), -1), (Aff(0), Nsym, 1), (Nsym - 2, Aff(m), -1)]
                descr = "flong[j] = f[|j-m|] left, f[2(N-1)-(j-m)] right"
            got = [(s_[0], s_[1], int(s_[2])) for s_ in segs]
            rep.check(got == want, f"{mode}-extension", key,
                      f"extended array segments (start,len,step) {got} != {want} "
                      f"required for {descr}", node=fn,
                      detail={"segments": [str(g) for g in got]})
            rep.check(role == ("role", "centered") and idx == IDX and lo == Aff(m)
                      and hi == Nsym + m, f"{mode}-map", key,
                      f"the centred stencil must be mapped over [m, N+m) of the extended "
                      f"array, got {role} over [{lo},{hi})", node=fn)
            w = stencils[(p, "centered")].w
            rep.check(max(abs(k) for k in w) <= m, f"{mode}-reach", key,
                      "centred stencil reaches beyond the m ghost points", node=fn)
    # ---- d3 dispatch on boundary
    fn = S.function(FD, "FiniteDifference.d3")
    params = [a.arg for a in fn.args.args][1:]
    v = FDInterp(None, "d3").run(fn)
    table = {}
    P = tuple(("param", x) for x in params)
    node = v
    while node[0] == "cond":
        t = node[1]
        lab = "?"
        if t[0] == "cmp" and t[1] == "Eq" and ("attr", "self.boundary") in (t[2], t[3]):
            other = t[3] if t[2] == ("attr", "self.boundary") else t[2]
            if other[0] == "const":
                lab = other[1]
        table[lab] = node[2]
        node = node[3]
    table[None] = node
    want = {"periodic": "d3_periodic", "symmetric": "d3_symmetric", None: "d3_onesided"}
    for lab, name in want.items():
        got = table.get(lab)
        rep.check(got == ("mcall", name, P), "boundary-dispatch", f"{FD}::d3::{lab}",
                  f"boundary mode {lab!r} must call self.{name}(f, idx, N); got {got}", node=fn)
    extra = set(table) - set(want)
    rep.check(not extra, "boundary-dispatch", f"{FD}::d3::other-branches",
              f"d3 has branches beyond the boundary dispatch: {sorted(map(str, extra))}",
              node=fn)


# ---------------------------------------------------------------------------------------------
# axes, permutations and tensor maps
# ---------------------------------------------------------------------------------------------
def perm_of(v):
    if v is not None and v[0] == "tuple" and all(isinstance(x, Aff) and x.is_const()
                                                  for x in v[1]):
        return tuple(int(x.c) for x in v[1])
    return None


def check_axes(rep):
    S = rep.sources
    init = S.function(FD, "FiniteDifference.__init__")
    # inverse spacing definitions
    for ax in "xyz":
        found = False
        for st in ast.walk(init):
            if isinstance(st, ast.Assign) and any(is_self_attr(t, f"inverse_d{ax}")
                                                  for t in st.targets):
                found = True
                v = st.value
                right = unparse(v.right) if isinstance(v, ast.BinOp) else ""
                if isinstance(v, ast.BinOp) and isinstance(v.right, ast.Name):
                    # alias of the parameter table entry
                    for a2 in ast.walk(init):
                        if isinstance(a2, ast.Assign) and unparse(a2.targets[0]) == right:
                            right = unparse(a2.value)
                ok = (isinstance(v, ast.BinOp) and isinstance(v.op, ast.Div)
                      and const_value(v.left) == 1
                      and right in (f"self.param['d{ax}']", f"self.d{ax}"))
                rep.check(ok, "axis-spacing", f"{FD}::__init__::inverse_d{ax}",
                          f"inverse_d{ax} must be 1/d{ax}, got {unparse(v)}", node=st)
        rep.require(found, f"inverse_d{ax} assignment not found")
    for ax in "xyz":
        fn, v = interp(rep, f"FiniteDifference.d3{ax}")
        F = ("param", fn.args.args[1].arg)
        key = f"{FD}::d3{ax}"
        outer_perm = None
        core = v
        if core[0] == "T":
            outer_perm = perm_of(core[2])
            core = core[1]
        rep.require(core[0] == "mcall" and core[1] == "d3" and len(core[2]) == 3,
                    f"d3{ax}: the result is not self.d3(...) (possibly transposed)")
        arr, idx, n = core[2]
        rep.check(idx == ("attr", f"self.inverse_d{ax}")
                  and n in (("attr", f"self.param['N{ax}']"), ("attr", f"self.N{ax}")),
                  "axis-params", key,
                  f"d3{ax} must use the spacing and size of the {ax} axis, got {idx}, {n}",
                  node=fn)
        inner_perm = None
        if arr[0] == "T":
            inner_perm = perm_of(arr[2])
            arr = arr[1]
        if AXIS[ax] == 0:
            rep.check(outer_perm is None and inner_perm is None and arr == F,
                      "axis-permutation", key, "d3x must differentiate the array as given",
                      node=fn)
            continue
        perms = [inner_perm, outer_perm]
        ok = all(p is not None and sorted(p) == [0, 1, 2] for p in perms)
        if ok:
            fwd, back = perms
            ok = fwd[0] == AXIS[ax] and tuple(fwd[back[i]] for i in range(3)) == (0, 1, 2)
        rep.check(ok, "axis-permutation", key,
                  f"transpositions {perms}: the first must bring axis {AXIS[ax]} to the front "
                  "and the second must be its inverse", node=fn, detail={"perms": str(perms)})
        rep.check(arr == F, "axis-flow", key,
                  "d3 must be applied to the transposed input and its result transposed back",
                  node=fn)
    # tensor maps
    for n in (1, 2, 3):
        fn, v = interp(rep, f"map{n}")
        params = [a.arg for a in fn.args.args]
        Fn, Ar = ("param", params[0]), ("param", params[1])
        def strip_arr(t):
            if isinstance(t, tuple) and t and t[0] == "arr":
                return strip_arr(t[1])
            if isinstance(t, tuple):
                return tuple(strip_arr(x) for x in t)
            return t
        got = canon_lists(strip_arr(v))
        want = ("call", Fn, (("idx", Ar, tuple(("sym", f"i{k}") for k in range(n))),))
        for k in reversed(range(n)):
            want = ("list", f"i{k}", ("range", Aff(0), ("shape", Ar, k)), want)
        rep.check(v[0] == "arr" and got == want, "tensor-map", f"{FD}::map{n}",
                  f"map{n} must rebuild the nest in index order: "
                  f"np.array([[func(f[i, j, ..]) ..] for i in range(np.shape(f)[0])]); got "
                  f"{got!r}"[:400], node=fn)
    # d3_scalar, rank-N gradient builders
    meth = S.functions(FD)
    fn, v = interp(rep, "FiniteDifference.d3_scalar")
    F = ("param", fn.args.args[1].arg)
    want = ("arr", ("tuple", tuple(("mcall", f"d3{ax}", (F,)) for ax in "xyz")))
    rep.check(v == want, "gradient-order", f"{FD}::d3_scalar",
              f"gradient components must be stacked (x, y, z): got {v!r}"[:300], node=fn)
    for n in (1, 2, 3):
        per_axis = {}
        for ax in "xyz":
            fn, v = interp(rep, f"FiniteDifference.d3{ax}_rank{n}tensor")
            F = ("param", fn.args.args[1].arg)
            want = ("call", ("global", f"map{n}"), (("attr", f"self.d3{ax}"), F))
            per_axis[ax] = want
            rep.check(v == want, "tensor-axis", f"{FD}::d3{ax}_rank{n}tensor",
                      f"must be map{n}(self.d3{ax}, f), got {v!r}"[:300], node=fn)
        fn, v = interp(rep, f"FiniteDifference.d3_rank{n}tensor")
        F = ("param", fn.args.args[1].arg)

        def norm(e):
            # the per-axis method and its definition are the same thing
            for ax in "xyz":
                if e == ("mcall", f"d3{ax}_rank{n}tensor", (F,)):
                    return per_axis[ax]
            return e
        got = None
        if v[0] == "arr" and v[1][0] == "tuple":
            got = tuple(norm(e) for e in v[1][1])
        rep.check(got == tuple(per_axis[ax] for ax in "xyz"), "gradient-order",
                  f"{FD}::d3_rank{n}tensor",
                  f"derivative axis must be first, in (x, y, z) order: got {v!r}"[:300],
                  node=fn)
    return meth


STRAIGHT = ["fd_map", "map1", "map2", "map3", "FiniteDifference.d3x", "FiniteDifference.d3y",
            "FiniteDifference.d3z", "FiniteDifference.d3_periodic",
            "FiniteDifference.d3_symmetric", "FiniteDifference.d3_onesided",
            "FiniteDifference.d3_scalar"] + [
    f"FiniteDifference.d3{ax}_rank{n}tensor" for ax in ("", "x", "y", "z") for n in (1, 2, 3)]


def check_straight_line(rep):
    """The operators above must be branch-free: no data- or mode-dependent shortcut may bypass
    the stencil application that the other rules verify (a branch returning early would make
    the verified path one of several).  Accumulation loops are the only control flow."""
    S = rep.sources
    for qual in STRAIGHT:
        fn = S.function(FD, qual)
        bad = []
        for node in ast.walk(fn):
            if isinstance(node, (ast.If, ast.IfExp, ast.While, ast.Try, ast.Match,
                                 ast.BoolOp)):
                bad.append(type(node).__name__ + ": " + norm_src(node)[:50])
        nret = sum(isinstance(n, ast.Return) for n in ast.walk(fn))
        rep.check(not bad and nret == 1, "straight-line", f"{FD}::{qual}",
                  "operator is not branch-free code (single return, no branches): "
                  + "; ".join(bad), node=fn)


def run(rep):
    rep.explanation = (
        "Proof-style static decision of C07: every stencil body is parsed to an exact rational "
        "linear form and the p+1 moment conditions (unique solution = the standard weights, "
        "exact on polynomials of degree <= p) are discharged in Fraction arithmetic; the "
        "order dispatch, the three boundary splices (affine index arithmetic with N symbolic), "
        "the axis permutations and the tensor maps are rule instances over the syntax tree. "
        "Floating-point round-off is not decided.")
    rep.trusted_base = ["CPython ast, fractions", "aurelsa.exact (affine/linear forms)",
                        "numpy slicing/concatenate/transpose semantics as modelled"]
    rep.assume("numpy slicing, concatenate and transpose behave as documented")
    rep.assume("round-off of the float weights (e.g. 25/12) is not part of the claim")
    stencils = check_stencils(rep)
    check_dispatch(rep, stencils)
    check_straight_line(rep)
    check_splices(rep, stencils)
    check_axes(rep)
    rep.floor("stencil-moment", 72)
    rep.floor("straight-line", 20)
    rep.floor("dispatch-table", 12)
    rep.floor("onesided-cover", 4)
    rep.floor("periodic-extension", 4)
    rep.floor("symmetric-extension", 4)
    rep.floor("axis-permutation", 3)
    rep.floor("tensor-axis", 9)
