"""C08 -- pointwise tensor algebra identities hold for every input.

Decided statically (proof-style obligations, exact arithmetic): the closed-form determinants
and inverses equal the cofactor (Leibniz) expansion entry by entry; every raise/lower/trace/
trace-free/conformal quantity equals its definition as an exact polynomial; populate_4Riemann
has the Riemann symmetries; symmetrise/antisymmetrise are the (anti)symmetric parts;
safe_division divides only under a zero test of the very same divisor and returns literal
zeros otherwise, and no quantity divides by a field without it.  Round-off is not decided."""
import ast
import itertools

from ..common import AnalysisError, unparse
from ..exact import const_value
from ..tcheck import check_helper, check_keys, cofactor_inverse
from ..tensor import Arr
from .c04 import populate_table, sym2
from .c10 import levicivita

LEVEL = "proof"
CORE = "core.py"
MATHS = "maths.py"
KEYS = """gammadown3 gammaup3 gammadet gdown4 gup4 gdet gtt gtx gty gtz betadown3 betamag
 gammadown4 gammaup4 nup4 ndown4 Kup3 Ktrace Adown3 Aup3 A2 psi_bssnok phi_bssnok
 gammadown3_bssnok gammaup3_bssnok Adown3_bssnok Aup3_bssnok A2_bssnok veldown4 veldown3 udown4
 hmixed4 hup4 hdet Tup4 Stressup3_n Stressdown3_n fluxdown3_n angmomup3_n conserved_Sup4
 accelerationup4 Momentumdown3 st_Riemann_uddd4 st_Riemann_uudd4 s_Riemann_down3
 dttau""".split()


def generic2(dim, var):
    return Arr.atoms("F", (dim, dim), var)


def maths_helpers(rep):
    g3 = Arr.key("gammadown3")
    g3.owner = None
    g4 = Arr.key("gdown4")
    g4.owner = None
    d3, i3 = cofactor_inverse("gammadown3", 3)
    d4, i4 = cofactor_inverse("gdown4", 4)
    e3 = {"INV": i3, "DET": Arr.scalar(d3)}
    e4 = {"INV": i4, "DET": Arr.scalar(d4)}
    check_helper(rep, "determinant3", [g3], "R = DET", e3, "symmetric 3x3", maths=True)
    check_helper(rep, "determinant4", [g4], "R = DET", e4, "symmetric 4x4", maths=True)
    check_helper(rep, "inverse3", [g3], "R[i,j] = INV[i,j]", e3, "symmetric 3x3", maths=True)
    check_helper(rep, "inverse4", [g4], "R[A,B] = INV[A,B]", e4, "symmetric 4x4", maths=True)
    # list input (the six / ten independent components)
    l3 = [g3.get(ij) for ij in ((0, 0), (0, 1), (0, 2), (1, 1), (1, 2), (2, 2))]
    check_helper(rep, "format_rank2_3", [[Arr.scalar(p) for p in l3]],
                 "R[i,j] = gammadown3[i,j]", {}, "component list", maths=True)
    l4 = [g4.get(ij) for ij in ((0, 0), (0, 1), (0, 2), (0, 3), (1, 1), (1, 2), (1, 3), (2, 2),
                                (2, 3), (3, 3))]
    check_helper(rep, "format_rank2_4", [[Arr.scalar(p) for p in l4]],
                 "R[A,B] = gdown4[A,B]", {}, "component list", maths=True)
    for dim, idx in ((3, "i,j"), (4, "A,B")):
        F = generic2(dim, ("d", "d"))
        a, b = idx.split(",")
        check_helper(rep, "symmetrise_tensor", [F],
                     f"R[{a},{b}] = (F[{a},{b}] + F[{b},{a}])/2", {"F": F},
                     f"generic {dim}x{dim}", maths=True)
        check_helper(rep, "antisymmetrise_tensor", [F],
                     f"R[{a},{b}] = (F[{a},{b}] - F[{b},{a}])/2", {"F": F},
                     f"generic {dim}x{dim}", maths=True)


def core_helpers(rep):
    F3 = generic2(3, ("d", "d"))
    F4 = generic2(4, ("d", "d"))
    x3 = {"F": F3}
    x4 = {"F": F4}
    check_helper(rep, "trace3", [F3], "R = gammaup3[j,k]*F[j,k]", x3, "generic")
    check_helper(rep, "trace4", [F4], "R = gup4[J,K]*F[J,K]", x4, "generic")
    check_helper(rep, "tracefree3", [F3],
                 "R[i,j] = F[i,j] - (1/3)*gammadown3[i,j]*(gammaup3[k,l]*F[k,l])", x3, "generic")
    check_helper(rep, "magnitude3", [F3],
                 "R = (1/2)*F[a,b]*F[i,j]*gammaup3[a,i]*gammaup3[b,j]", x3, "generic")
    check_helper(rep, "magnitude4", [F4],
                 "R = (1/2)*F[A,B]*F[I,J]*gup4[A,I]*gup4[B,J]", x4, "generic")
    a3, b3 = Arr.atoms("a", (3,), ("u",)), Arr.atoms("b", (3,), ("u",))
    a4, b4 = Arr.atoms("a", (4,), ("u",)), Arr.atoms("b", (4,), ("u",))
    check_helper(rep, "vector_inner_product3", [a3, b3], "R = a[i]*b[j]*gammadown3[i,j]",
                 {"a": a3, "b": b3}, "generic")
    check_helper(rep, "vector_inner_product4", [a4, b4], "R = a[A]*b[B]*gdown4[A,B]",
                 {"a": a4, "b": b4}, "generic")
    check_helper(rep, "norm3", [a3], "R = sqrt(abs(a[i]*a[j]*gammadown3[i,j]))", {"a": a3},
                 "generic")
    check_helper(rep, "norm4", [a4], "R = sqrt(abs(a[A]*a[B]*gdown4[A,B]))", {"a": a4},
                 "generic")
    check_helper(rep, "kronecker_delta3", [], "R[i,j] = delta(i,j)", {}, "3")
    check_helper(rep, "kronecker_delta4", [], "R[A,B] = delta(A,B)", {}, "4")
    F = sym2("F")
    check_helper(rep, "s_to_st", [F], lambda cfg: (
        "R[i+1,j+1] = F[i,j]" if all(cfg.get("in:" + k) is False for k in
                                     ("betaup3", "betax", "betay", "betaz")) else
        "R[i+1,j+1] = F[i,j]; R[0,0] = betaup3[i]*betaup3[j]*F[i,j]; "
        "R[0,k+1] = betaup3[i]*F[i,k]; R[k+1,0] = betaup3[i]*F[i,k]"), {"F": F}, "generic")


# ---------------------------------------------------------------------------------------------
# safe_division: guard dominance of every division
# ---------------------------------------------------------------------------------------------
def zero_test(test, divisor):
    """-> 'nonzero' if test is `divisor != 0`, 'zero' if `divisor == 0`, else None"""
    if isinstance(test, ast.Compare) and len(test.ops) == 1 \
            and unparse(test.left) == divisor and const_value(test.comparators[0]) == 0:
        if isinstance(test.ops[0], ast.NotEq):
            return "nonzero"
        if isinstance(test.ops[0], ast.Eq):
            return "zero"
    return None


def literal_zero(node, numer):
    if const_value(node) == 0:
        return True
    if isinstance(node, ast.Call) and unparse(node.func) in ("np.zeros_like",) \
            and len(node.args) == 1 and unparse(node.args[0]) == numer:
        return True
    return False


def _assigned_on_all_paths(block, name):
    for st in block:
        if isinstance(st, ast.Assign) and any(isinstance(t, ast.Name) and t.id == name
                                              for t in st.targets):
            return True
        if isinstance(st, ast.If) and st.orelse and _assigned_on_all_paths(st.body, name) \
                and _assigned_on_all_paths(st.orelse, name):
            return True
        if isinstance(st, ast.With) and _assigned_on_all_paths(st.body, name):
            return True
    return False


FLOAT_TYPES = ("np.float32", "np.float64", "float", "np.float128", "np.longdouble",
               "np.double", "np.single")


def _is_conversion(expr, nm, funcs, depth=0):
    """expr is `nm` itself or an int -> float conversion of it (value-preserving)"""
    src = unparse(expr)
    if src == nm or src in (f"{nm} * 1.0", f"1.0 * {nm}", f"float({nm})"):
        return True
    if isinstance(expr, ast.Call) and isinstance(expr.func, ast.Attribute) \
            and expr.func.attr == "astype" and unparse(expr.func.value) == nm \
            and len(expr.args) == 1 and unparse(expr.args[0]) in FLOAT_TYPES:
        return True
    if isinstance(expr, ast.Call) and isinstance(expr.func, ast.Name) \
            and expr.func.id in funcs and len(expr.args) == 1 \
            and unparse(expr.args[0]) == nm and depth < 2:
        f = funcs[expr.func.id]
        if len(f.args.args) != 1:
            return False
        p = f.args.args[0].arg
        rets = [r for r in ast.walk(f) if isinstance(r, ast.Return)]
        asg = [x for x in ast.walk(f) if isinstance(x, ast.Assign)]
        return bool(rets) and all(r.value is not None and _is_conversion(r.value, p, funcs,
                                                                          depth + 1)
                                  for r in rets) \
            and all(len(x.targets) == 1 and unparse(x.targets[0]) == p
                    and _is_conversion(x.value, p, funcs, depth + 1) for x in asg)
    return False


def safe_division_rule(rep):
    """Decided on path conditions: every `/` in safe_division is `a / b`, and either sits in
    np.where(b != 0, a / b, <literal 0>) or is only reached when `b != 0` holds (the test
    `b == 0` failed), the other side of that very test producing a literal zero."""
    S = rep.sources
    fn = S.function(MATHS, "safe_division")
    funcs = {f.name: f for f in S.module(MATHS).body if isinstance(f, ast.FunctionDef)}
    a, b = [x.arg for x in fn.args.args]
    divs = [n for n in ast.walk(fn) if isinstance(n, ast.BinOp) and isinstance(n.op, ast.Div)]
    if not divs:
        raise AnalysisError("safe_division: no division found")

    def produced(block):
        """the value a branch assigns or returns (single statement branches)"""
        if len(block) == 1 and isinstance(block[0], ast.Assign):
            return block[0].value
        if len(block) == 1 and isinstance(block[0], ast.Return):
            return block[0].value
        return None
    for d in divs:
        key = f"{MATHS}::safe_division::div@{unparse(d)}"
        ok, why = False, "division is not guarded by a zero test of its own divisor"
        if unparse(d.left) == a and unparse(d.right) == b:
            par = getattr(d, "_parent", None)
            if isinstance(par, ast.Call) and unparse(par.func) == "np.where" \
                    and len(par.args) == 3 and par.args[1] is d:
                zt = zero_test(par.args[0], b)
                if zt == "nonzero" and literal_zero(par.args[2], a):
                    ok = True
                else:
                    why = (f"np.where condition `{unparse(par.args[0])}` is not `{b} != 0` "
                           "(the result must be 0 exactly where the divisor is 0, and a/b "
                           "everywhere else)")
            else:
                # enclosing ifs, innermost first
                child, anc = d, getattr(d, "_parent", None)
                while anc is not None and anc is not fn:
                    if isinstance(anc, (ast.If, ast.IfExp)):
                        zt = zero_test(anc.test, b)
                        body = anc.body if isinstance(anc.body, list) else [anc.body]
                        orelse = anc.orelse if isinstance(anc.orelse, list) else [anc.orelse]
                        in_body = any(child is x or child in ast.walk(x) for x in body)
                        other = orelse if in_body else body
                        oval = produced(other) if isinstance(anc, ast.If) else other[0]

                        def all_zero(block):
                            """every path through the branch produces a literal zero"""
                            v = produced(block)
                            if v is not None:
                                if isinstance(v, ast.IfExp):
                                    return literal_zero(v.body, a) and literal_zero(v.orelse, a)
                                return literal_zero(v, a)
                            if len(block) == 1 and isinstance(block[0], ast.If) \
                                    and block[0].orelse:
                                return all_zero(block[0].body) and all_zero(block[0].orelse)
                            return False
                        if zt is not None:
                            good_side = (zt == "nonzero") == in_body
                            zero_ok = (oval is not None and literal_zero(oval, a)) or (
                                isinstance(anc, ast.If) and all_zero(other))
                            if good_side and zero_ok:
                                ok = True
                            else:
                                why = (f"guard `{unparse(anc.test)}` does not pair the division "
                                       f"with a literal zero for {b} == 0")
                            break
                    child, anc = anc, getattr(anc, "_parent", None)
        else:
            why = f"divides {unparse(d.left)} by {unparse(d.right)}, not {a} by {b}"
        rep.check(ok, "division-guard", key, why, node=d)
    # the dispatch is total: every path returns a value
    from ..common import all_paths_return
    rets = [st for st in ast.walk(fn) if isinstance(st, ast.Return)]
    total = all_paths_return(fn.body)
    if not total and isinstance(fn.body[-1], ast.Return) \
            and isinstance(fn.body[-1].value, ast.Name):
        total = _assigned_on_all_paths(fn.body[:-1], fn.body[-1].value.id)
    rep.check(total and all(r.value is not None for r in rets), "division-total",
              f"{MATHS}::safe_division::dispatch",
              "every path through the float/array dispatch must produce the quotient "
              "(a final else, no path falling through)", node=fn)
    # a and b are only converted (int -> float), never otherwise reassigned
    for st in ast.walk(fn):
        if isinstance(st, ast.Assign) and len(st.targets) == 1 \
                and isinstance(st.targets[0], ast.Name) and st.targets[0].id in (a, b):
            nm = st.targets[0].id
            rep.check(_is_conversion(st.value, nm, funcs), "division-operands",
                      f"{MATHS}::safe_division::{nm}={unparse(st.value)}",
                      f"operand {nm} is changed before dividing: {unparse(st.value)}", node=st)


CONST_OK = ("self.kappa", "np.pi")


def const_divisor(node):
    if const_value(node) is not None:
        return True
    if unparse(node) in CONST_OK:
        return True
    if isinstance(node, ast.BinOp):
        return const_divisor(node.left) and const_divisor(node.right)
    if isinstance(node, ast.Call) and unparse(node.func) == "np.sqrt" and len(node.args) == 1:
        return const_divisor(node.args[0])
    if isinstance(node, ast.UnaryOp):
        return const_divisor(node.operand)
    return False


def raw_division_rule(rep):
    S = rep.sources
    skip = {"AurelCore.__init__", "AurelCore.cleanup_cache", "AurelCore.Psi4_lm",
            "AurelCore.levicivita_symbol_down3", "AurelCore.levicivita_symbol_down4",
            "AurelCore.myprint", "AurelCore.__getitem__"}
    n = 0
    for qual, fn in S.functions(CORE).items():
        if not qual.startswith("AurelCore.") or qual in skip:
            continue
        for d in ast.walk(fn):
            if isinstance(d, ast.BinOp) and isinstance(d.op, ast.Div):
                if const_value(d) is not None:
                    continue
                n += 1
                rep.check(const_divisor(d.right), "raw-division",
                          f"{CORE}::{qual}::/({unparse(d.right)[:40]})",
                          f"division by `{unparse(d.right)[:60]}` does not go through "
                          "maths.safe_division: inf/NaN where the divisor vanishes", node=d)
    if n < 3:
        raise AnalysisError("raw-division: fewer than 3 division sites found in core.py")


def component_bypass(rep):
    """A quantity offered both as a tensor T and as scalar components c (the table
    aurel_tensor_to_scalar) must give one value however it was supplied.  Either each
    component method derives c from a supplied T (a guard `'T' in self.data` projecting T), or
    nothing but T's own assembly reads the components; otherwise a method reading c directly
    ignores a supplied T and the different index positions of the same tensor disagree."""
    from . import c01
    S = rep.sources
    meths = c01.methods(S)
    table = S.yaml("data/var_mappings.yml")["aurel_tensor_to_scalar"]
    n = 0
    for T, comps in table.items():
        if T not in meths or not all(c in meths for c in comps):
            continue      # input-only components (Weyl_Psi4r/i)
        guarded = all(c01.pure_projection(meths[c], T, guarded=True) for c in comps)
        projected = all(c01.pure_projection(meths[c], T, guarded=False) for c in comps)
        if guarded or projected:
            n += 1
            rep.ok("component-bypass", f"{CORE}::tensor({T})",
                   {"components": "derived from the tensor when it is supplied"})
            continue
        for name, fn in meths.items():
            if name == T or name in comps or name in c01.PROTOCOL:
                continue
            direct = sorted(c01.reads_of(fn) & set(comps))
            n += 1
            rep.check(not direct, "component-bypass", f"{CORE}::AurelCore.{name}::reads({T})",
                      f"{name}() reads the components {direct} directly; they are not derived "
                      f"from `{T}`, so a `{T}` supplied as a vector/tensor is ignored here and "
                      f"{name} disagrees with the other index positions of the same quantity",
                      node=fn)
    if n < 5:
        raise AnalysisError("component-bypass: tensor/component table not matched")


def run(rep):
    rep.explanation = (
        "Obligations discharged in exact arithmetic: determinant3/4 and inverse3/4 vs the "
        "cofactor expansion (1+1+9+16 entries); every raise/lower/trace/trace-free/conformal "
        "quantity vs its definition (componentwise polynomial equality); populate_4Riemann "
        "symmetries over all 256 components; (anti)symmetrisation; Kronecker and Levi-Civita "
        "tables; tensor helper operators on generic inputs; the division guard of "
        "safe_division (every `/` dominated by an exact zero test of the same divisor with a "
        "literal-zero alternative) and the absence of unguarded divisions by fields in the "
        "quantity methods.")
    rep.trusted_base = ["CPython ast, fractions", "aurelsa.tensor interpreter and tpoly",
                        "aurelsa.refdsl evaluator"]
    rep.assume("round-off for badly scaled metrics is not decided")
    check_keys(rep, KEYS)
    maths_helpers(rep)
    core_helpers(rep)
    populate_table(rep)
    levicivita(rep)
    safe_division_rule(rep)
    raw_division_rule(rep)
    component_bypass(rep)
    rep.floor("reference-agreement", 60)
    rep.floor("division-guard", 2)
    rep.floor("riemann-table", 3)
