"""C09 -- fluid variables yield the textbook stress-energy tensor and Eulerian projections.

Decided statically: every method of the matter chain is interpreted symbolically (tensor.py),
its index discipline enforced, its declared index positions checked, and its componentwise
polynomial compared with the textbook definition (refs.py)."""
from ..tcheck import check_keys

LEVEL = "other"
KEYS = """rho0 press eps rho enthalpy w_lorentz velx vely velz velup3 velup4 veldown3 veldown4
 uup0 uup3 uup4 udown4 udown3 hdown4 hdet hmixed4 hup4 Tdown4 Tup4 Ttrace rho_n fluxup3_n
 fluxdown3_n angmomup3_n angmomdown3_n Stressup3_n Stressdown3_n Stresstrace_n press_n
 anisotropic_press_down3_n conserved_D conserved_E conserved_Sdown4 conserved_Sdown3
 conserved_Sup4 conserved_Sup3 nup4 ndown4 st_Ricci_down4 st_Ricci_down3""".split()


def run(rep):
    rep.explanation = (
        "Each of the %d matter-chain methods is interpreted symbolically under every "
        "configuration it asks about; one rule instance per (method, configuration) for the "
        "index discipline, for the declared index positions and for agreement of the "
        "componentwise exact polynomial with the textbook definition (T = rho u_mu u_nu + "
        "p h_mu_nu, h = g + u u, Eulerian projections with n^mu and gamma^mu_nu, conserved "
        "densities).  An algebraic change of any formula -- sign, coefficient, index "
        "placement, upper for lower -- changes the polynomial for every input at once." %
        len(KEYS))
    rep.assume("the closed forms E = rho h W^2 - p etc. follow from the definitions checked "
               "here; they are not separately decided")
    rep.assume("safe_division is treated as division (its zero guard is C08's clause)")
    check_keys(rep, KEYS)
    rep.floor("reference-agreement", 40)
    rep.floor("index-discipline", 40)
