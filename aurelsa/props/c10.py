"""C10 -- Weyl tensor, its electric/magnetic parts, scalars and invariants.

Decided statically: both constructions of the Weyl tensor and the E/B formulas are interpreted
symbolically and compared with their definitions; the Riemann symmetries of the result are
verified on the exact componentwise polynomials; the Weyl scalars are compared with the
Newman-Penrose contractions by role on a generic tetrad; the invariants with their
polynomials; the Gram-Schmidt steps of both tetrads have the projection signs required by the
signature of the inner product used; Levi-Civita symbols equal the permutation sign; no
branch writes into the cached Riemann tensor."""
import ast
import itertools

from ..common import AnalysisError, unparse
from ..refdsl import evaluate
from ..tcheck import check_helper, check_keys, cfg_str, diff_summary
from ..tensor import Arr, Interp, NeedConfig, PathEnds, Unsupported
from ..tpoly import P

LEVEL = "other"
CORE = "core.py"
KEYS = """st_Weyl_down4 eweyl_u_down4 eweyl_n_down3 bweyl_u_down4 bweyl_n_down3 st_Ricci_down4
 st_RicciS Kup3 Ktrace gdet gammadet nup4 ndown4""".split()

NP_REF = (
    "k[A] = (e0[A] + e1[A])/sqrt(2); l[A] = (e0[A] - e1[A])/sqrt(2);"
    "m[A] = (e2[A] + I*e3[A])/sqrt(2); mb[A] = (e2[A] - I*e3[A])/sqrt(2);"
    "W[A,B,C,D] = st_Weyl_down4[A,B,C,D];"
    "psi0 = W[A,B,C,D]*k[A]*m[B]*k[C]*m[D];"
    "psi1 = W[A,B,C,D]*k[A]*l[B]*k[C]*m[D];"
    "psi2 = W[A,B,C,D]*k[A]*m[B]*mb[C]*l[D];"
    "psi3 = W[A,B,C,D]*k[A]*l[B]*mb[C]*l[D];"
    "psi4 = W[A,B,C,D]*l[A]*mb[B]*l[C]*mb[D]")
INV_REF = {
    "I": "R = p0*p4 - 4*p1*p3 + 3*p2**2",
    "J": "R = p4*(p2*p0 - p1*p1) - p3*(p3*p0 - p1*p2) + p2*(p3*p1 - p2*p2)",
    "L": "R = p2*p4 - p3**2",
    "K": "R = p1*p4**2 - 3*p4*p3*p2 + 2*p3**3",
    "N": "R = 12*(p2*p4 - p3**2)**2 - p4**2*(p0*p4 - 4*p1*p3 + 3*p2**2)",
}


def weyl_symmetries(rep, results):
    for cfg, C in results.get("st_Weyl_down4", []):
        cs = cfg_str(cfg)
        bad = []
        for a, b, c, d in itertools.product(range(4), repeat=4):
            v = C.get((a, b, c, d))
            if v != -C.get((b, a, c, d)) or v != -C.get((a, b, d, c)) \
                    or v != C.get((c, d, a, b)):
                bad.append((a, b, c, d))
        rep.check(not bad, "weyl-symmetry", f"{CORE}::AurelCore.st_Weyl_down4[{cs}]",
                  f"[{cs}] {len(bad)} components violate C_abcd = -C_bacd = -C_abdc = C_cdab "
                  f"(e.g. {bad[:3]})", file=CORE, detail={"config": cs})
    # (the symmetry of the magnetic parts needs the trace-free and cyclic identities of
    # the Weyl tensor, which are not visible on generic atoms: not demanded)
    for key in ("eweyl_n_down3", "eweyl_u_down4"):
        for cfg, E in results.get(key, []):
            cs = cfg_str(cfg)
            n = E.shape[0]
            bad = [(i, j) for i in range(n) for j in range(n) if E.get((i, j)) != E.get((j, i))]
            rep.check(not bad, "eb-symmetry", f"{CORE}::AurelCore.{key}[{cs}]",
                      f"[{cs}] not symmetric in components {bad[:4]}", file=CORE)


def generic_tetrad():
    return tuple(Arr.atoms(f"e{k}", (4,), ("u",)) for k in range(4))


def weyl_scalars(rep):
    S = rep.sources
    node = S.function(CORE, "AurelCore.Weyl_Psi")
    tet = generic_tetrad()
    extra = {f"e{k}": tet[k] for k in range(4)}
    todo = [{}]
    while todo:
        cfg = todo.pop()
        it = Interp(S, cfg)
        it.overrides = {"tetrad_base": lambda _it: tet}
        try:
            res = it.run_method("Weyl_Psi")
        except NeedConfig as q:
            for a in (True, False):
                c2 = dict(cfg)
                c2[q.q] = a
                todo.append(c2)
            continue
        except (Unsupported, PathEnds) as e:
            rep.unverified("interpret", f"{CORE}::AurelCore.Weyl_Psi[{cfg_str(cfg)}]", str(e))
            continue
        cs = cfg_str(cfg)
        for pr in it.problems:
            rep.violation("index-discipline/" + pr.rule, f"{CORE}::AurelCore.Weyl_Psi::"
                          + pr.rule, f"[{cs}] {pr.message}", node=pr.node or node, file=CORE)
        if not isinstance(res, (list, tuple)) or len(res) != 5:
            rep.violation("np-scalars", f"{CORE}::AurelCore.Weyl_Psi[{cs}]",
                          "must return the five Weyl scalars", node=node, file=CORE)
            continue
        if cfg.get("in:Weyl_Psi4r"):
            ref4 = evaluate("R = Weyl_Psi4r + I*Weyl_Psi4i", "R")
            got = it.to_arr(res[4])
            rep.check(got.get(()) == ref4.get(()) and all(r is None for r in res[:4]),
                      "np-scalars", f"{CORE}::AurelCore.Weyl_Psi[{cs}]",
                      "with Psi4 supplied: Psi4 = Psi4r + i Psi4i and no other scalar",
                      node=node, file=CORE)
            continue
        refs = evaluate  # noqa: F841
        from ..refdsl import RefEval
        table = RefEval(NP_REF, extra).run()
        for n in range(5):
            got = it.to_arr(res[n]).get(())
            want = table[f"psi{n}"].get(())
            d = got - want
            rep.check(d.is_zero(), "np-scalars", f"{CORE}::AurelCore.Weyl_Psi::psi{n}[{cs}]",
                      f"Psi_{n} is not the Newman-Penrose contraction of the Weyl tensor on "
                      f"(k=(e0+e1)/sqrt2, l=(e0-e1)/sqrt2, m=(e2+i e3)/sqrt2, mbar); "
                      f"difference has {len(d.t)} terms, e.g. {repr(d)[:160]}",
                      node=node, file=CORE, detail={"terms": len(got.t)})


def weyl_invariants(rep):
    S = rep.sources
    node = S.function(CORE, "AurelCore.Weyl_invariants")
    it = Interp(S, {})
    try:
        res = it.run_method("Weyl_invariants")
    except (Unsupported, PathEnds, NeedConfig) as e:
        rep.unverified("interpret", f"{CORE}::AurelCore.Weyl_invariants", str(e))
        return
    psi = {f"p{n}": Arr.scalar(P.atom(f"Weyl_Psi[{n}]")) for n in range(5)}
    if not isinstance(res, dict):
        rep.violation("invariants", f"{CORE}::AurelCore.Weyl_invariants", "must return a dict",
                      node=node, file=CORE)
        return
    for name, ref in INV_REF.items():
        if name not in res:
            rep.violation("invariants", f"{CORE}::AurelCore.Weyl_invariants::{name}",
                          f"invariant {name} missing", node=node, file=CORE)
            continue
        got = it.to_arr(res[name]).get(())
        want = evaluate(ref, "R", psi).get(())
        rep.check(got == want, "invariants", f"{CORE}::AurelCore.Weyl_invariants::{name}",
                  f"{name} differs from its polynomial in Psi0..Psi4: code - reference = "
                  f"{repr(got - want)[:200]}", node=node, file=CORE)


# ---------------------------------------------------------------------------------------------
# Gram-Schmidt sign rule
# ---------------------------------------------------------------------------------------------
def additive_terms(node, sign=1):
    if isinstance(node, ast.BinOp) and isinstance(node.op, (ast.Add, ast.Sub)):
        return additive_terms(node.left, sign) + additive_terms(
            node.right, sign if isinstance(node.op, ast.Add) else -sign)
    if isinstance(node, ast.UnaryOp) and isinstance(node.op, ast.USub):
        return additive_terms(node.operand, -sign)
    return [(sign, node)]


def projection_term(node):
    """recognise  ip(X, Y) * Z  ->  (ipname, X, Y, Z) (source text)"""
    if isinstance(node, ast.BinOp) and isinstance(node.op, ast.Mult):
        for call, vec in ((node.left, node.right), (node.right, node.left)):
            if isinstance(call, ast.Call) and unparse(call.func) in (
                    "self.vector_inner_product4", "self.vector_inner_product3") \
                    and len(call.args) == 2:
                return (unparse(call.func)[5:], unparse(call.args[0]), unparse(call.args[1]),
                        unparse(vec))
    return None


def gram_schmidt(rep):
    S = rep.sources
    fn = S.function(CORE, "AurelCore.tetrad_base")
    top = [st for st in fn.body if isinstance(st, ast.If)]
    if not top:
        raise AnalysisError("tetrad_base: branch on self.tetrad not found")
    branch = top[-1]
    count = 0
    for label, body, timelike in (("quasi-Kinnersley", branch.body, set()),
                                  ("fluid", branch.orelse, None)):
        # which names are unit vectors so far; e0 of the fluid branch is the timelike one
        normalised = {}   # name -> True (unit vector)
        tl = set()
        for st in body:
            if not (isinstance(st, ast.Assign) and len(st.targets) == 1
                    and isinstance(st.targets[0], ast.Name)):
                continue
            tgt = st.targets[0].id
            v = st.value
            if unparse(v) == 'self["uup4"]' or unparse(v) == "self['uup4']":
                normalised[tgt] = True
                tl.add(tgt)
                continue
            if isinstance(v, ast.Call) and unparse(v.func) == "maths.safe_division" \
                    and len(v.args) == 2 and isinstance(v.args[1], ast.Call) \
                    and unparse(v.args[1].func) in ("self.norm3", "self.norm4") \
                    and unparse(v.args[1].args[0]) == unparse(v.args[0]):
                normalised[tgt] = True
                continue
            terms = additive_terms(v)
            projs = [(s, projection_term(t)) for s, t in terms]
            if not any(p for _s, p in projs):
                continue
            key = f"{CORE}::AurelCore.tetrad_base::{label}::{tgt}"
            base = [unparse(t) for s, t in terms if projection_term(t) is None]
            ok = len(base) == 1
            msgs = []
            onto = []
            for s, p in projs:
                if p is None:
                    continue
                ip, X, Y, Z = p
                vec = X if X == Z else (Y if Y == Z else None)
                other = Y if vec == X else X
                if vec is None:
                    ok = False
                    msgs.append(f"projection coefficient <{X},{Y}> multiplies {Z}")
                    continue
                onto.append(vec)
                if base and other != base[0]:
                    ok = False
                    msgs.append(f"projection of {other} subtracted from {base[0]}")
                want = 1 if vec in tl else -1
                if s != want:
                    ok = False
                    msgs.append(f"projection on {'timelike' if vec in tl else 'spacelike'} "
                                f"unit vector {vec} enters with sign {'+' if s > 0 else '-'}; "
                                f"g({vec},{vec}) = {-1 if vec in tl else 1} requires "
                                f"{'+' if want > 0 else '-'}")
                if vec not in normalised:
                    ok = False
                    msgs.append(f"{vec} is not a normalised vector at this point")
            count += 1
            rep.check(ok, "gram-schmidt", key, "; ".join(msgs) or "malformed step", node=st,
                      detail={"projects_onto": onto})
    if count < 5:
        raise AnalysisError(f"tetrad_base: only {count} Gram-Schmidt steps recognised")


def levicivita(rep):
    check_helper(rep, "levicivita_symbol_down3", [], "R[i,j,k] = eps3(i,j,k)", {}, "symbol3")
    check_helper(rep, "levicivita_symbol_down4", [], "R[A,B,C,D] = eps4(A,B,C,D)", {},
                 "symbol4")
    check_helper(rep, "levicivita_down3", [], "R[i,j,k] = eps3(i,j,k)*sqrt(gammadet)", {},
                 "tensor3")
    check_helper(rep, "levicivita_down4", [], "R[A,B,C,D] = eps4(A,B,C,D)*sqrt(-gdet)", {},
                 "tensor4")


def run(rep):
    rep.explanation = (
        "Both constructions of st_Weyl_down4 (from the cached Riemann tensor, vacuum and "
        "non-vacuum; from E, B, n and the Levi-Civita tensor) and the four E/B quantities are "
        "interpreted symbolically and compared with their definitions; the Riemann symmetries "
        "are verified on the exact polynomials of all 256 components; Weyl scalars vs the "
        "Newman-Penrose table by role on a generic tetrad; invariants I, J, L, K, N vs their "
        "polynomials; Gram-Schmidt projection signs vs the signature of the inner product; "
        "Levi-Civita symbols vs the permutation sign; in-place writes into cached arrays are "
        "index-discipline violations.")
    rep.assume("numerical orthonormality of the tetrads and tetrad-independence of the "
               "invariants are consequences, not separately decided; convergence not decided")
    results = check_keys(rep, KEYS)
    weyl_symmetries(rep, results)
    weyl_scalars(rep)
    weyl_invariants(rep)
    gram_schmidt(rep)
    levicivita(rep)
    rep.floor("reference-agreement", 15)
    rep.floor("weyl-symmetry", 3)
    rep.floor("np-scalars", 5)
    rep.floor("invariants", 5)
    rep.floor("gram-schmidt", 5)
