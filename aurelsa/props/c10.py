"""C10 -- Weyl tensor, its electric/magnetic parts, scalars and invariants.

Decided statically: both constructions of the Weyl tensor and the E/B formulas are interpreted
symbolically and compared with their definitions; the Riemann symmetries of the result are
verified on the exact componentwise polynomials; the Weyl scalars are compared with the
Newman-Penrose contractions by role on a generic tetrad; the invariants with their
polynomials; the Gram-Schmidt steps of both tetrads have the projection signs required by the
signature of the inner product used; Levi-Civita symbols equal the permutation sign; no
branch writes into the cached Riemann tensor."""
import ast
import itertools

from ..common import AnalysisError, unparse
from ..refdsl import evaluate
from ..tcheck import check_helper, check_keys, cfg_str, diff_summary
from ..tensor import Arr, Interp, NeedConfig, PathEnds, Unsupported
from ..tpoly import P

LEVEL = "other"
CORE = "core.py"
KEYS = """st_Weyl_down4 eweyl_u_down4 eweyl_n_down3 bweyl_u_down4 bweyl_n_down3 st_Ricci_down4
 st_RicciS Kup3 Ktrace gdet gammadet nup4 ndown4""".split()

NP_REF = (
    "k[A] = (e0[A] + e1[A])/sqrt(2); l[A] = (e0[A] - e1[A])/sqrt(2);"
    "m[A] = (e2[A] + I*e3[A])/sqrt(2); mb[A] = (e2[A] - I*e3[A])/sqrt(2);"
    "W[A,B,C,D] = st_Weyl_down4[A,B,C,D];"
    "psi0 = W[A,B,C,D]*k[A]*m[B]*k[C]*m[D];"
    "psi1 = W[A,B,C,D]*k[A]*l[B]*k[C]*m[D];"
    "psi2 = W[A,B,C,D]*k[A]*m[B]*mb[C]*l[D];"
    "psi3 = W[A,B,C,D]*k[A]*l[B]*mb[C]*l[D];"
    "psi4 = W[A,B,C,D]*l[A]*mb[B]*l[C]*mb[D]")
INV_REF = {
    "I": "R = p0*p4 - 4*p1*p3 + 3*p2**2",
    "J": "R = p4*(p2*p0 - p1*p1) - p3*(p3*p0 - p1*p2) + p2*(p3*p1 - p2*p2)",
    "L": "R = p2*p4 - p3**2",
    "K": "R = p1*p4**2 - 3*p4*p3*p2 + 2*p3**3",
    "N": "R = 12*(p2*p4 - p3**2)**2 - p4**2*(p0*p4 - 4*p1*p3 + 3*p2**2)",
}


def weyl_symmetries(rep, results):
    for cfg, C in results.get("st_Weyl_down4", []):
        cs = cfg_str(cfg)
        bad = []
        for a, b, c, d in itertools.product(range(4), repeat=4):
            v = C.get((a, b, c, d))
            if v != -C.get((b, a, c, d)) or v != -C.get((a, b, d, c)) \
                    or v != C.get((c, d, a, b)):
                bad.append((a, b, c, d))
        rep.check(not bad, "weyl-symmetry", f"{CORE}::AurelCore.st_Weyl_down4[{cs}]",
                  f"[{cs}] {len(bad)} components violate C_abcd = -C_bacd = -C_abdc = C_cdab "
                  f"(e.g. {bad[:3]})", file=CORE, detail={"config": cs})
    # (the symmetry of the magnetic parts needs the trace-free and cyclic identities of
    # the Weyl tensor, which are not visible on generic atoms: not demanded)
    for key in ("eweyl_n_down3", "eweyl_u_down4"):
        for cfg, E in results.get(key, []):
            cs = cfg_str(cfg)
            n = E.shape[0]
            bad = [(i, j) for i in range(n) for j in range(n) if E.get((i, j)) != E.get((j, i))]
            rep.check(not bad, "eb-symmetry", f"{CORE}::AurelCore.{key}[{cs}]",
                      f"[{cs}] not symmetric in components {bad[:4]}", file=CORE)


def generic_tetrad():
    return tuple(Arr.atoms(f"e{k}", (4,), ("u",)) for k in range(4))


def weyl_scalars(rep):
    S = rep.sources
    node = S.function(CORE, "AurelCore.Weyl_Psi")
    tet = generic_tetrad()
    extra = {f"e{k}": tet[k] for k in range(4)}
    todo = [{}]
    while todo:
        cfg = todo.pop()
        it = Interp(S, cfg)
        it.overrides = {"tetrad_base": lambda _it: tet}
        try:
            res = it.run_method("Weyl_Psi")
        except NeedConfig as q:
            for a in (True, False):
                c2 = dict(cfg)
                c2[q.q] = a
                todo.append(c2)
            continue
        except (Unsupported, PathEnds) as e:
            rep.unverified("interpret", f"{CORE}::AurelCore.Weyl_Psi[{cfg_str(cfg)}]", str(e))
            continue
        cs = cfg_str(cfg)
        for pr in it.problems:
            rep.violation("index-discipline/" + pr.rule, f"{CORE}::AurelCore.Weyl_Psi::"
                          + pr.rule, f"[{cs}] {pr.message}", node=pr.node or node, file=CORE)
        if not isinstance(res, (list, tuple)) or len(res) != 5:
            rep.violation("np-scalars", f"{CORE}::AurelCore.Weyl_Psi[{cs}]",
                          "must return the five Weyl scalars", node=node, file=CORE)
            continue
        if cfg.get("in:Weyl_Psi4r"):
            ref4 = evaluate("R = Weyl_Psi4r + I*Weyl_Psi4i", "R")
            got = it.to_arr(res[4])
            rep.check(got.get(()) == ref4.get(()) and all(r is None for r in res[:4]),
                      "np-scalars", f"{CORE}::AurelCore.Weyl_Psi[{cs}]",
                      "with Psi4 supplied: Psi4 = Psi4r + i Psi4i and no other scalar",
                      node=node, file=CORE)
            continue
        refs = evaluate  # noqa: F841
        from ..refdsl import RefEval
        table = RefEval(NP_REF, extra).run()
        for n in range(5):
            got = it.to_arr(res[n]).get(())
            want = table[f"psi{n}"].get(())
            d = got - want
            rep.check(d.is_zero(), "np-scalars", f"{CORE}::AurelCore.Weyl_Psi::psi{n}[{cs}]",
                      f"Psi_{n} is not the Newman-Penrose contraction of the Weyl tensor on "
                      f"(k=(e0+e1)/sqrt2, l=(e0-e1)/sqrt2, m=(e2+i e3)/sqrt2, mbar); "
                      f"difference has {len(d.t)} terms, e.g. {repr(d)[:160]}",
                      node=node, file=CORE, detail={"terms": len(got.t)})


def weyl_invariants(rep):
    S = rep.sources
    node = S.function(CORE, "AurelCore.Weyl_invariants")
    it = Interp(S, {})
    try:
        res = it.run_method("Weyl_invariants")
    except (Unsupported, PathEnds, NeedConfig) as e:
        rep.unverified("interpret", f"{CORE}::AurelCore.Weyl_invariants", str(e))
        return
    psi = {f"p{n}": Arr.scalar(P.atom(f"Weyl_Psi[{n}]")) for n in range(5)}
    if not isinstance(res, dict):
        rep.violation("invariants", f"{CORE}::AurelCore.Weyl_invariants", "must return a dict",
                      node=node, file=CORE)
        return
    for name, ref in INV_REF.items():
        if name not in res:
            rep.violation("invariants", f"{CORE}::AurelCore.Weyl_invariants::{name}",
                          f"invariant {name} missing", node=node, file=CORE)
            continue
        got = it.to_arr(res[name]).get(())
        want = evaluate(ref, "R", psi).get(())
        rep.check(got == want, "invariants", f"{CORE}::AurelCore.Weyl_invariants::{name}",
                  f"{name} differs from its polynomial in Psi0..Psi4: code - reference = "
                  f"{repr(got - want)[:200]}", node=node, file=CORE)


# ---------------------------------------------------------------------------------------------
# Gram-Schmidt sign rule (decided on the interpreted tetrad, not on the statement shapes)
# ---------------------------------------------------------------------------------------------
def _coefficient(vec, atom):
    """Split the vector of polynomials `vec` as atom*w + rest; None if the atom occurs with an
    exponent other than 1."""
    w, rest = {}, {}
    for idx, p in vec.c.items():
        wt, rt = {}, {}
        for mono, c in p.t.items():
            e = dict(mono).get(atom)
            if e is None:
                rt[mono] = c
            elif e == 1:
                wt[tuple((a_, x) for a_, x in mono if a_ != atom)] = c
            else:
                return None
        if wt:
            w[idx] = P(wt)
        if rt:
            rest[idx] = P(rt)
    return Arr(vec.shape, vec.var, w), Arr(vec.shape, vec.var, rest)


def _same(a, b):
    return a.shape == b.shape and a.c == b.c


def _neg(a):
    return a.map(lambda p: -p)


def gram_schmidt(rep):
    """tetrad_base is interpreted with the inner products and norms replaced by fresh symbols
    <ip#n>, <norm#n> (arguments recorded).  Every normalised vector u/|u| then reads
    u = seed + sum_n ip#n * w_n; the rule demands, for every projection made while building u:
    w_n = -g(e,e) * e for a leg e already normalised (timelike: +e, spacelike: -e), the other
    argument of ip#n being the seed or the running vector, and that every leg normalised
    before (and the timelike leg when the 4-dimensional product is used) is projected out."""
    S = rep.sources
    fn = S.function(CORE, "AurelCore.tetrad_base")
    count = 0
    for label, tetrad in (("quasi-Kinnersley", "quasi-Kinnersley"), ("fluid", "other")):
        events = []

        def ip(it, a, b, _ev=events, dim=0):
            n = len(_ev)
            _ev.append(("ip", n, it.to_arr(a), it.to_arr(b), dim))
            return Arr.scalar(P.atom(f"ip#{n}"))

        def norm(it, u, _ev=events, dim=0):
            n = len(_ev)
            _ev.append(("norm", n, it.to_arr(u), None, dim))
            return Arr.scalar(P.atom(f"norm#{n}"))
        todo = [{"tetrad": tetrad}]
        res = it = None
        while todo:
            cfg = todo.pop()
            del events[:]
            it = Interp(S, cfg)
            it.overrides = {
                "vector_inner_product3": lambda i_, a, b: ip(i_, a, b, dim=3),
                "vector_inner_product4": lambda i_, a, b: ip(i_, a, b, dim=4),
                "norm3": lambda i_, u: norm(i_, u, dim=3),
                "norm4": lambda i_, u: norm(i_, u, dim=4)}
            try:
                res = it.run_method("tetrad_base")
                break
            except NeedConfig as q:
                for ans in (True, False):
                    c2 = dict(cfg)
                    c2[q.q] = ans
                    todo.append(c2)
            except (Unsupported, PathEnds) as e:
                raise AnalysisError(f"tetrad_base[{label}]: cannot be interpreted: {e}")
        if res is None or not isinstance(res, (list, tuple)) or len(res) != 4:
            raise AnalysisError(f"tetrad_base[{label}]: four vectors expected")
        for pb in it.problems:
            rep.violation(pb.rule, f"{CORE}::AurelCore.tetrad_base[{label}]", pb.message,
                          node=pb.node, file=CORE)
        e0 = it.to_arr(res[0])
        timelike = [e0] if e0.owner is not None or any(
            "uup4" in a_ for p_ in e0.c.values() for a_ in p_.atoms()) else []
        legs = []            # normalised spacelike legs so far: (Arr, event number)
        pending = []
        step = 0
        for ev in events:
            if ev[0] == "ip":
                pending.append(ev)
                continue
            _k, n, u, _x, dim = ev
            step += 1
            key = f"{CORE}::AurelCore.tetrad_base::{label}::leg{step}"
            msgs = []
            rest = u
            partial = []
            projected = []
            for _k2, m, a, b, _d in pending:
                sp = _coefficient(rest, f"ip#{m}")
                if sp is None:
                    msgs.append(f"projection coefficient ip#{m} enters non-linearly")
                    continue
                w, rest = sp
                partial.append((m, a, b, w))
            for m, a, b, w in partial:
                if not w.c:
                    msgs.append("an inner product computed for this leg is not used in it")
                    continue
                vec = other = None
                sign = 0
                for x, y in ((a, b), (b, a)):
                    if _same(w, x):
                        vec, other, sign = x, y, 1
                    elif _same(w, _neg(x)):
                        vec, other, sign = x, y, -1
                    if vec is not None:
                        break
                if vec is None:
                    msgs.append("a projection coefficient <X,Y> multiplies a vector that is "
                                "neither X nor Y")
                    continue
                is_t = any(_same(vec, t) for t in timelike)
                is_s = any(_same(vec, l_) for l_, _n in legs)
                if not (is_t or is_s):
                    msgs.append("projection onto a vector that is not normalised at this "
                                "point")
                    continue
                projected.append(vec)
                want = 1 if is_t else -1
                if sign != want:
                    msgs.append(f"projection on a {'timelike' if is_t else 'spacelike'} unit "
                                f"vector enters with sign {'+' if sign > 0 else '-'}; "
                                f"g(e,e) = {-1 if is_t else 1} requires "
                                f"{'+' if want > 0 else '-'}")
                # the projected vector: the seed or the running (partly orthogonalised) one
                run = rest
                okother = _same(other, rest)
                for m2, _a2, _b2, w2 in partial:
                    if okother:
                        break
                    run = it.add(run, it.mul(Arr.scalar(P.atom(f"ip#{m2}")), w2, None),
                                 False, None)
                    okother = _same(other, run)
                if not okother:
                    msgs.append("the inner product is not taken with the vector being "
                                "orthogonalised")
            need = [l_ for l_, _n in legs] + (timelike if dim == 4 else [])
            missing = [v for v in need if not any(_same(v, q) for q in projected)]
            if missing and not msgs:
                msgs.append(f"{len(missing)} of the {len(need)} legs normalised before are "
                            "not projected out of this one")
            if any(f"ip#{m}" in a_ for p_ in rest.c.values() for a_ in p_.atoms()
                   for m in [q[1] for q in pending]):
                msgs.append("seed still depends on a projection coefficient")
            if pending or legs or timelike:
                count += 1
                rep.check(not msgs, "gram-schmidt", key, "; ".join(msgs) or "malformed step",
                          node=fn, file=CORE, detail={"projections": len(partial)})
            legs.append((it.mul(u, Arr.scalar(P.atom(f"norm#{n}", -1)), None), n))
            pending = []
    if count < 5:
        raise AnalysisError(f"tetrad_base: only {count} Gram-Schmidt steps recognised")


def levicivita(rep):
    check_helper(rep, "levicivita_symbol_down3", [], "R[i,j,k] = eps3(i,j,k)", {}, "symbol3")
    check_helper(rep, "levicivita_symbol_down4", [], "R[A,B,C,D] = eps4(A,B,C,D)", {},
                 "symbol4")
    check_helper(rep, "levicivita_down3", [], "R[i,j,k] = eps3(i,j,k)*sqrt(gammadet)", {},
                 "tensor3")
    check_helper(rep, "levicivita_down4", [], "R[A,B,C,D] = eps4(A,B,C,D)*sqrt(-gdet)", {},
                 "tensor4")


def run(rep):
    rep.explanation = (
        "Both constructions of st_Weyl_down4 (from the cached Riemann tensor, vacuum and "
        "non-vacuum; from E, B, n and the Levi-Civita tensor) and the four E/B quantities are "
        "interpreted symbolically and compared with their definitions; the Riemann symmetries "
        "are verified on the exact polynomials of all 256 components; Weyl scalars vs the "
        "Newman-Penrose table by role on a generic tetrad; invariants I, J, L, K, N vs their "
        "polynomials; Gram-Schmidt projection signs vs the signature of the inner product; "
        "Levi-Civita symbols vs the permutation sign; in-place writes into cached arrays are "
        "index-discipline violations.")
    rep.assume("numerical orthonormality of the tetrads and tetrad-independence of the "
               "invariants are consequences, not separately decided; convergence not decided")
    results = check_keys(rep, KEYS)
    weyl_symmetries(rep, results)
    weyl_scalars(rep)
    weyl_invariants(rep)
    gram_schmidt(rep)
    levicivita(rep)
    rep.floor("reference-agreement", 15)
    rep.floor("weyl-symmetry", 3)
    rep.floor("np-scalars", 5)
    rep.floor("invariants", 5)
    rep.floor("gram-schmidt", 5)
