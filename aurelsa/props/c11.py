"""C11 -- Einstein Toolkit output is read back exactly for any file and process layout:
structural clauses.

  chunk-order / chunk-axis   every multi-chunk concatenation is ordered by a sort of the
                             recorded origins; x/y/z origins join along raw axes 2/1/0
  storage-order              raw arrays are (z, y, x): axis i trimmed by nghostzones[2-i] on
                             both sides, chunks keyed by iorigin, one axis reversal after joining
                             -- in both sibling readers
  restart-selection          latest restart containing the iteration; output in request order;
                             ambiguous keys raise
  name-maps                  aurel<->ET name tables mutually consistent, groups before members
  definite-assignment        no possibly-unassigned / stale loop variable on the read path
Equality of the returned data with the file contents is not decided."""
from .. import reading_rules as R

LEVEL = "other"


def run(rep):
    rep.explanation = (
        "Placement of process chunks by recorded origin (ordering provenance of every "
        "concatenation, component/axis pairing), the storage-order convention at every "
        "trimming and transposition site of both readers, restart selection flow, agreement of "
        "the name tables, and a must-assigned dataflow over the whole read path.")
    rep.assume("ghost widths are >= 1 (a[g:-g] is empty for g = 0)")
    R.chunk_placement(rep)
    R.chunk_coverage(rep)
    R.iteration_coverage(rep)
    R.geometry_per_dataset(rep)
    R.ghost_and_axes(rep)
    R.restart_selection(rep)
    R.iteration_labels(rep)
    R.independent_lists(rep)
    R.cache_fill_provenance(rep)
    R.name_maps(rep)
    R.definite_assignment(rep, ["reading.py"], only=R.SCOPE["C11"])
    rep.floor("chunk-order", 3)
    rep.floor("storage-order", 6)
    rep.floor("name-maps", 15)
