"""C12 -- the per-iteration read cache never changes what read_data returns: structural clauses.

  row-index-provenance   cache writer: row looked up in data['it']; cache filler: source row
                         looked up in data_temp['it'] by iteration value, target row enumerates
                         the list the cache was read with; the ET read covers the union of the
                         iterations missing for the components; writer receives its_missing[av]
  template-agreement     cache reader and writer get the same level and restart; directory,
                         file and dataset-key templates agree
Equality of values across arbitrary call histories is not decided."""
from .. import reading_rules as R

LEVEL = "other"


def run(rep):
    rep.explanation = (
        "The mis-filing clause is decided exactly by def-use provenance: which iteration a "
        "dataset is filed under, and which row of the freshly read data fills which requested "
        "iteration, must be determined by iteration *values* looked up in the 'it' column of "
        "the dictionary being indexed; reader and writer of the cache must address the same "
        "directory, file, dataset key, level and restart.")
    rep.assume("the ET reader (C11) returns the right array for each iteration it is asked for")
    R.row_index_provenance(rep)
    R.cache_fill_provenance(rep)
    R.iteration_labels(rep)
    R.independent_lists(rep)
    R.template_agreement(rep)
    R.dataset_read_key(rep)
    R.separator_guard(rep)
    R.empty_selection_means_all(rep)
    R.one_append_per_column(rep)
    rep.floor("row-index-provenance", 5)
    rep.floor("template-agreement", 9)
