"""C13 -- save_data / read_data round trip in Aurel format: structural clauses.

  row-index-provenance   the row written for iteration i is looked up in data['it']
  none-guard             the None test is applied to the very expression that is written
  dataset-write          delete-then-create; never an in-place write into a stored dataset
  template-agreement     cache directory / file name / dataset key / trailing-slash / iteration
                         normalisation agree between writer and reader
  column-shape           one entry per requested iteration in every column on every path;
                         discovery of variables is not switched off along the way
  no-inplace-on-shared   the caller's arguments are left untouched (alias analysis)
HDF5 fidelity (dtype, shape) is trusted to h5py."""
from .. import reading_rules as R
from . import c02

LEVEL = "other"


def run(rep):
    rep.explanation = (
        "Structural clauses of the save/read round trip decided on save_data and "
        "read_aurel_data: def-use provenance of the row index, guard/use agreement of the None "
        "test, write discipline of datasets, template agreement between writer and reader, "
        "path counting of appends per column, loop-invariance of the discovery flag, and "
        "argument immutability by the alias analysis.")
    rep.assume("h5py stores and returns arrays faithfully")
    R.row_index_provenance(rep)
    R.template_agreement(rep)
    R.dataset_read_key(rep)
    R.separator_guard(rep)
    R.empty_selection_means_all(rep)
    R.one_append_per_column(rep)
    c02.analyse(rep, owner_filter=lambda o: o.startswith(("KW:", "PARAM:")),
                rule="no-inplace-on-shared", rels=["reading.py"], only=R.SCOPE["C13"])
    R.definite_assignment(rep, ["reading.py"], only=R.SCOPE["C13"])
    rep.floor("template-agreement", 7)
    rep.floor("row-index-provenance", 1)
    rep.floor("dataset-write", 2)
    rep.floor("column-shape", 2)
