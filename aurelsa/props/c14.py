"""C14 -- over_time equals independent per-step computation, correctly ordered.

Structural clauses decided on time.py:

  isolation           every per-step calculation runs on an AurelCore instance created in that
                      invocation, which does not escape; no module-level state is written
  freeze-before-use   inputs (and custom variables) are frozen before anything can run (C03)
  install-then-request all custom variables are installed before the first built-in quantity
                      is requested from the per-step instance
  rows-move-together  one sort of whole rows by the temporal key; the output loop copies
                      rows[i][key] for all keys under one i
  estimate-columns    each store data[K + '_' + E] = g(data[K']) has K' = K and g bound to E
  estimator-table     est_functions names agree with their bodies
  skip-present        requested names already present are skipped, nothing is deleted
"""
from __future__ import annotations

import ast
import re

from ..common import AnalysisError, norm_src, unparse
from ..exact import const_value
from . import c02, c03

LEVEL = "other"
TIME = "time.py"


def isolation(rep):
    S = rep.sources
    fn = S.function(TIME, "process_single_timestep")
    creates = [n for n in ast.walk(fn) if isinstance(n, ast.Assign)
               and isinstance(n.value, ast.Call) and unparse(n.value.func).endswith("AurelCore")]
    rep.check(len(creates) == 1 and unparse(creates[0].targets[0]) == "rel", "isolation",
              f"{TIME}::process_single_timestep::fresh-instance",
              "exactly one AurelCore instance must be created per invocation", node=fn)
    if len(creates) != 1:
        return
    create = creates[0]
    blk, k = c03.block_of(create)
    inside = set()
    for st in blk[k:]:
        for n in ast.walk(st):
            inside.add(id(n))
    bad = []
    for n in ast.walk(fn):
        if isinstance(n, ast.Name) and n.id == "rel" and id(n) not in inside:
            bad.append(n)
    rep.check(not bad, "isolation", f"{TIME}::process_single_timestep::dominated",
              "`rel` is used outside the block that creates it (a stale instance of another "
              "step could be read)", node=bad[0] if bad else fn)
    # no escape: rel not returned, not stored
    esc = []
    for n in ast.walk(fn):
        if isinstance(n, ast.Return) and n.value is not None and any(
                isinstance(x, ast.Name) and x.id == "rel" for x in ast.walk(n.value)):
            esc.append(n)
        if isinstance(n, ast.Assign) and isinstance(n.value, ast.Name) and n.value.id == "rel":
            esc.append(n)
        if isinstance(n, ast.Assign) and any(isinstance(x, ast.Name) and x.id == "rel"
                                             for x in ast.walk(n.value)) \
                and not isinstance(n.value, ast.Call) and not isinstance(n.value, ast.Subscript):
            esc.append(n)
    rep.check(not esc, "isolation", f"{TIME}::process_single_timestep::no-escape",
              "the per-step instance escapes its invocation", node=esc[0] if esc else fn)
    # arguments of the constructor: fd and keyword options only
    args = [unparse(a) for a in create.value.args]
    rep.check(args == ["fd"], "isolation", f"{TIME}::process_single_timestep::ctor-args",
              f"AurelCore must be built from the shared fd only, got {args}", node=create)
    # module-level state
    tree = S.module(TIME)
    glob = {t.id for st in tree.body if isinstance(st, ast.Assign) for t in st.targets
            if isinstance(t, ast.Name)}
    bad = []
    for f in [n for n in tree.body if isinstance(n, ast.FunctionDef)]:
        for n in ast.walk(f):
            if isinstance(n, ast.Global):
                bad.append(n)
            if isinstance(n, (ast.Assign, ast.AugAssign)):
                for t in (n.targets if isinstance(n, ast.Assign) else [n.target]):
                    root = t
                    while isinstance(root, (ast.Subscript, ast.Attribute)):
                        root = root.value
                    if isinstance(t, (ast.Subscript, ast.Attribute)) \
                            and isinstance(root, ast.Name) and root.id in glob \
                            and root.id not in {a.arg for a in f.args.args}:
                        local = any(isinstance(x, ast.Assign) and any(
                            isinstance(tt, ast.Name) and tt.id == root.id for tt in x.targets)
                            for x in ast.walk(f))
                        if not local:
                            bad.append(n)
    rep.check(not bad, "isolation", f"{TIME}::module-state",
              "a function writes module-level state (values would leak between steps/calls): "
              + (norm_src(bad[0])[:60] if bad else ""), node=bad[0] if bad else tree)


def install_then_request(rep):
    S = rep.sources
    fn = S.function(TIME, "process_single_timestep")
    create = [n for n in ast.walk(fn) if isinstance(n, ast.Assign)
              and isinstance(n.value, ast.Call) and unparse(n.value.func).endswith("AurelCore")]
    if not create:
        return
    blk, k = c03.block_of(create[0])

    def ev(stmts):
        out = []
        for st in stmts:
            if isinstance(st, (ast.For, ast.While)):
                out.append(("LOOP", ev(st.body)))
            elif isinstance(st, ast.If):
                out.append(("BRANCH", ev(st.body), ev(st.orelse)))
            else:
                for n in ast.walk(st):
                    if isinstance(n, ast.Subscript) and isinstance(n.value, ast.Name) \
                            and n.value.id == "rel" and isinstance(n.ctx, ast.Load):
                        out.append(("REQ", n))
                if isinstance(st, ast.Assign) and any(c03.obj_sub(t, "data") == "rel"
                                                      for t in st.targets):
                    out.append(("STORE", st))
        return out

    found = []

    def sim(evs, requested):
        for e in evs:
            if e[0] == "REQ":
                requested = True
            elif e[0] == "STORE":
                if requested:
                    found.append(e[1])
            elif e[0] == "LOOP":
                r1 = sim(e[1], requested)
                requested = sim(e[1], r1)
            elif e[0] == "BRANCH":
                a = sim(e[1], requested)
                b = sim(e[2], requested)
                requested = a or b
        return requested
    evs = ev(blk[k + 1:])
    sim(evs, False)
    rep.check(not found, "install-then-request",
              f"{TIME}::process_single_timestep::custom-before-builtin",
              "a value is stored into the per-step instance after a quantity has already been "
              "requested from it: built-ins evaluated earlier used the defaults instead of "
              "the custom variable (result depends on the order/split of the requests): "
              + (norm_src(found[0])[:70] if found else ""), node=found[0] if found else fn,
              detail={"events": len(evs)})


def row_coverage(rep):
    """every input row is processed: the first one separately, the others in the sequential
    pass, whose guard must not exclude a non-empty remainder"""
    S = rep.sources
    fn = S.function(TIME, "over_time")
    key = f"{TIME}::over_time::row-coverage"
    full = "input_data_list"
    first = [n for n in ast.walk(fn) if isinstance(n, ast.Call)
             and unparse(n.func) == "process_single_timestep" and n.args
             and unparse(n.args[0]) == f"{full}[0]"]
    comps = [n for n in ast.walk(fn) if isinstance(n, ast.ListComp)
             and "process_single_timestep" in unparse(n.elt)]
    if not first or len(comps) != 1:
        raise AnalysisError("over_time: per-step processing calls not found")
    it = comps[0].generators[0].iter
    src = it.args[0] if isinstance(it, ast.Call) and unparse(it.func) == "tqdm" else it
    rest_names = {a.targets[0].id for a in ast.walk(fn) if isinstance(a, ast.Assign)
                  and isinstance(a.targets[0], ast.Name)
                  and unparse(a.value) == f"{full}[1:]"}
    srct = unparse(src)
    ok_src = srct == f"{full}[1:]" or srct in rest_names
    rep.check(ok_src, "row-coverage", key + "::remaining-rows",
              f"the sequential pass iterates `{srct}`, not all rows after the first", node=src)
    guard = None
    p = getattr(comps[0], "_parent", None)
    while p is not None and p is not fn:
        if isinstance(p, ast.If):
            guard = p
            break
        p = getattr(p, "_parent", None)
    ok = guard is None
    why = ""
    if guard is not None:
        t = guard.test
        tt = unparse(t)
        if isinstance(t, ast.Name) and t.id in rest_names:
            ok = True
        elif isinstance(t, ast.Compare) and len(t.ops) == 1 and isinstance(t.left, ast.Call) \
                and unparse(t.left.func) == "len":
            arg = unparse(t.left.args[0])
            c = const_value(t.comparators[0])
            op = type(t.ops[0]).__name__
            bound = {"Gt": c, "GtE": c - 1 if c is not None else None,
                     "NotEq": c}.get(op)
            if arg == full:
                ok = bound == 1
            elif arg in rest_names or arg == f"{full}[1:]":
                ok = bound == 0
        why = (f"the guard `{tt}` skips the sequential pass although rows remain (e.g. a table "
               "with exactly two time steps loses its second row)")
    rep.check(ok, "row-coverage", key + "::guard", why, node=guard or fn)
    # and the results are all appended
    ok = any(isinstance(n, ast.AugAssign) and unparse(n.target) == "data_list"
             and unparse(n.value) == "results" for n in ast.walk(fn))
    rep.check(ok, "row-coverage", key + "::collected",
              "the results of the sequential pass must all be added to the row list", node=fn)


def rows(rep):
    S = rep.sources
    fn = S.function(TIME, "over_time")
    sorts = [n for n in ast.walk(fn) if isinstance(n, ast.Call)
             and (unparse(n.func) in ("sorted", "np.argsort", "np.sort", "reversed", "np.flip",
                                      "random.shuffle")
                  or (isinstance(n.func, ast.Attribute) and n.func.attr in ("sort",
                                                                            "reverse")))
             and "data_list" in unparse(n)]
    ok = len(sorts) == 1 and unparse(sorts[0].func) == "sorted" \
        and unparse(sorts[0].args[0]) == "data_list"
    if ok:
        kw = {k.arg: k.value for k in sorts[0].keywords}
        key = kw.get("key")
        ok = isinstance(key, ast.Lambda) and len(key.args.args) == 1 \
            and unparse(key.body) == f"{key.args.args[0].arg}[temporal_key]" \
            and "reverse" not in kw
    rep.check(ok, "rows-move-together", f"{TIME}::over_time::sort",
              "the list of per-step rows must be reordered exactly once, by "
              "sorted(data_list, key=lambda x: x[temporal_key])", node=sorts[0] if sorts else fn)
    # output loop
    appends = [n for n in ast.walk(fn) if isinstance(n, ast.Call)
               and isinstance(n.func, ast.Attribute) and n.func.attr == "append"
               and unparse(n.func.value).startswith("data[")]
    ok2 = False
    node = fn
    for a in appends:
        node = a
        loops = []
        p = getattr(a, "_parent", None)
        while p is not None and p is not fn:
            if isinstance(p, ast.For):
                loops.append(p)
            p = getattr(p, "_parent", None)
        if len(loops) == 2:
            inner, outer = loops
            kv, iv = unparse(inner.target), unparse(outer.target)
            ok2 = unparse(a.func.value) == f"data[{kv}]" \
                and unparse(a.args[0]) == f"data_list_sorted[{iv}][{kv}]" \
                and unparse(outer.iter) == "range(len(data_list_sorted))"
    rep.check(ok2, "rows-move-together", f"{TIME}::over_time::output-loop",
              "every output column must receive rows[i][key] for the same i, in row order",
              node=node)
    # dict-of-lists -> list-of-dicts uses keys and values of the same dict
    comp = [n for n in ast.walk(fn) if isinstance(n, ast.ListComp) and "zip(keys, values"
            in unparse(n)]
    ok3 = bool(comp) and "zip(*data.values()" in unparse(comp[0]) and any(
        isinstance(n, ast.Assign) and unparse(n) == "keys = data.keys()" for n in ast.walk(fn))
    rep.check(ok3, "rows-move-together", f"{TIME}::over_time::transpose",
              "rows must be built by zipping data.keys() with the transposed data.values() of "
              "the same dict", node=comp[0] if comp else fn)


BASE = {"max": ("np.max", None), "mean": ("np.mean", None), "min": ("np.min", None),
        "sum": ("np.sum", None), "std": ("np.std", None), "var": ("np.var", None),
        "quartile1": ("np.percentile", 25), "median": ("np.percentile", 50),
        "quartile3": ("np.percentile", 75)}


def estimator_table(rep):
    S = rep.sources
    tree = S.module(TIME)
    table = None
    for st in tree.body:
        if isinstance(st, ast.Assign) and unparse(st.targets[0]) == "est_functions" \
                and isinstance(st.value, ast.Dict):
            table = st.value
    if table is None:
        raise AnalysisError("time.py: est_functions table not found")
    n = 0
    for k, v in zip(table.keys, table.values):
        name = k.value
        key = f"{TIME}::est_functions[{name!r}]"
        n += 1
        m = re.fullmatch(r"x([01])y([01])z([01])", name)
        if m:
            want = ", ".join("0" if b == "0" else "-1" for b in m.groups())
            ok = isinstance(v, ast.Lambda) and isinstance(v.body, ast.Subscript) \
                and unparse(v.body.value) == v.args.args[0].arg \
                and unparse(v.body.slice).replace("(", "").replace(")", "") == want
            rep.check(ok, "estimator-table", key,
                      f"corner '{name}' must be array[{want}] (x, y, z order; 0 = first, 1 = "
                      f"last), got {norm_src(v)[:50]}", node=v)
            continue
        absf = name.endswith("abs")
        base = name[:-3] if absf else name
        if base not in BASE:
            rep.unverified("estimator-table", key, "name not in the naming scheme")
            continue
        fn_name, pct = BASE[base]
        if isinstance(v, ast.Lambda):
            arg = v.args.args[0].arg
            call = v.body
            ok = isinstance(call, ast.Call) and unparse(call.func) == fn_name
            if ok:
                a0 = unparse(call.args[0]) if call.args else ""
                ok = a0 == (f"np.abs({arg})" if absf else arg)
                if pct is not None:
                    ok = ok and len(call.args) == 2 and const_value(call.args[1]) == pct
                else:
                    ok = ok and len(call.args) == 1
                ok = ok and not call.keywords
        else:
            ok = unparse(v) == fn_name and not absf and pct is None
        rep.check(ok, "estimator-table", key,
                  f"'{name}' must be {fn_name}({'|array|' if absf else 'array'}"
                  f"{', ' + str(pct) if pct is not None else ''}) with no other option, got "
                  f"{norm_src(v)[:60]}", node=v)
    if n < 20:
        raise AnalysisError(f"est_functions: only {n} entries")


def estimate_columns(rep):
    S = rep.sources
    fn = S.function(TIME, "process_single_timestep")
    n = 0
    for st in ast.walk(fn):
        if isinstance(st, ast.Assign) and isinstance(st.targets[0], ast.Subscript) \
                and unparse(st.targets[0].value) == "data" \
                and isinstance(st.targets[0].slice, ast.BinOp):
            n += 1
            sl = st.targets[0].slice
            parts = []
            x = sl
            while isinstance(x, ast.BinOp) and isinstance(x.op, ast.Add):
                parts.insert(0, x.right)
                x = x.left
            parts.insert(0, x)
            ptxt = [unparse(p) for p in parts]
            val = st.value
            ok = len(ptxt) == 3 and ptxt[1] == "'_'" and isinstance(val, ast.Call) \
                and len(val.args) == 1 and unparse(val.args[0]) == f"data[{ptxt[0]}]"
            why = f"`{norm_src(st)[:70]}`: the estimated column is not the column named in the key"
            if ok:
                fname = unparse(val.func)
                est = ptxt[2]
                # func must be bound to `est` : func = est_functions[est]  or loop over items()
                bound = False
                for n2 in ast.walk(fn):
                    if isinstance(n2, ast.Assign) and unparse(n2.targets[0]) == fname \
                            and unparse(n2.value) == f"est_functions[{est}]":
                        bound = True
                    if isinstance(n2, ast.For) and unparse(n2.target) == f"({est}, {fname})" \
                            and unparse(n2.iter).endswith(".items()"):
                        bound = True
                    if isinstance(n2, ast.For) and unparse(n2.target) == f"{est}, {fname}":
                        bound = True
                ok = bound
                why = (f"`{norm_src(st)[:70]}`: the function applied is not the one bound to "
                       f"the estimate name `{est}`")
            # guarded by "not already present"
            par = getattr(st, "_parent", None)
            guarded = isinstance(par, ast.If) and "not in" in unparse(par.test) \
                and unparse(sl) in unparse(par.test)
            rep.check(ok and guarded, "estimate-columns",
                      f"{TIME}::process_single_timestep::{norm_src(st.targets[0])[:40]}",
                      why if not ok else "estimate recomputed although already present",
                      node=st)
    if n < 2:
        raise AnalysisError("estimate stores not found")


def skip_present(rep):
    S = rep.sources
    fn = S.function(TIME, "over_time")
    txt = unparse(fn)
    ok = "if v not in data" in txt and "if func_name not in data" in txt
    rep.check(ok, "skip-present", f"{TIME}::over_time::cleaned_vars",
              "variables already present in the table must be skipped (idempotence of "
              "successive calls)", node=fn)
    for q in ("over_time", "process_single_timestep"):
        f = S.function(TIME, q)
        bad = [n for n in ast.walk(f) if (isinstance(n, ast.Delete) and any(
            isinstance(t, ast.Subscript) and unparse(t.value) == "data" for t in n.targets))
            or (isinstance(n, ast.Call) and unparse(n.func) in ("data.pop", "data.clear"))]
        rep.check(not bad, "skip-present", f"{TIME}::{q}::no-delete",
                  "columns of the table are removed", node=bad[0] if bad else f)


def run(rep):
    rep.explanation = (
        "Structural clauses of C14, one rule instance per construct of time.py: per-step "
        "isolation (fresh instance, dominance, no escape, no module state), inputs frozen "
        "before use and customs installed before any request (event simulation over loops and "
        "branches), a single whole-row sort by the temporal key and a row-coherent output "
        "loop, estimate columns keyed and computed from the same column with the function "
        "bound to their name, the 26-entry estimator table agreeing with its names, and the "
        "skip-what-is-present guards.  Equality of the values with a fresh computation follows "
        "from C01-C03 plus isolation; it is not separately decided.")
    rep.assume("user-supplied custom variables/estimators are deterministic functions of "
               "their argument")
    isolation(rep)
    c03.freeze_before_use(rep)
    c03.freeze_rules(rep)
    install_then_request(rep)
    row_coverage(rep)
    rows(rep)
    estimator_table(rep)
    estimate_columns(rep)
    skip_present(rep)
    c02.analyse(rep, rule="no-inplace-on-shared", rels=["time.py"])
    rep.floor("estimator-table", 20)
    rep.floor("isolation", 4)
    rep.floor("rows-move-together", 3)
