"""C14 -- over_time equals independent per-step computation, correctly ordered.

Structural clauses decided on time.py:

  isolation           every per-step calculation runs on an AurelCore instance created in that
                      invocation, which does not escape; no module-level state is written
  freeze-before-use   inputs (and custom variables) are frozen before anything can run (C03)
  install-then-request all custom variables are installed before the first built-in quantity
                      is requested from the per-step instance
  rows-move-together  one sort of whole rows by the temporal key; the output loop copies
                      rows[i][key] for all keys under one i
  estimate-columns    each store data[K + '_' + E] = g(data[K']) has K' = K and g bound to E
  estimator-table     est_functions names agree with their bodies
  skip-present        requested names already present are skipped, nothing is deleted
"""
from __future__ import annotations

import ast
import re

from ..common import AnalysisError, norm_src, unparse
from ..exact import const_value
from . import c02, c03

LEVEL = "other"
TIME = "time.py"


def isolation(rep):
    S = rep.sources
    fn = S.function(TIME, "process_single_timestep")
    creates = [n for n in ast.walk(fn) if isinstance(n, ast.Assign)
               and isinstance(n.value, ast.Call) and unparse(n.value.func).endswith("AurelCore")]
    rep.check(len(creates) == 1 and unparse(creates[0].targets[0]) == "rel", "isolation",
              f"{TIME}::process_single_timestep::fresh-instance",
              "exactly one AurelCore instance must be created per invocation", node=fn)
    if len(creates) != 1:
        return
    create = creates[0]
    blk, k = c03.block_of(create)
    inside = set()
    for st in blk[k:]:
        for n in ast.walk(st):
            inside.add(id(n))
    bad = []
    for n in ast.walk(fn):
        if isinstance(n, ast.Name) and n.id == "rel" and id(n) not in inside:
            bad.append(n)
    rep.check(not bad, "isolation", f"{TIME}::process_single_timestep::dominated",
              "`rel` is used outside the block that creates it (a stale instance of another "
              "step could be read)", node=bad[0] if bad else fn)
    # no escape: rel not returned, not stored
    esc = []
    for n in ast.walk(fn):
        if isinstance(n, ast.Return) and n.value is not None and any(
                isinstance(x, ast.Name) and x.id == "rel" for x in ast.walk(n.value)):
            esc.append(n)
        if isinstance(n, ast.Assign) and isinstance(n.value, ast.Name) and n.value.id == "rel":
            esc.append(n)
        if isinstance(n, ast.Assign) and any(isinstance(x, ast.Name) and x.id == "rel"
                                             for x in ast.walk(n.value)) \
                and not isinstance(n.value, ast.Call) and not isinstance(n.value, ast.Subscript):
            esc.append(n)
    rep.check(not esc, "isolation", f"{TIME}::process_single_timestep::no-escape",
              "the per-step instance escapes its invocation", node=esc[0] if esc else fn)
    # arguments of the constructor: fd and keyword options only
    args = [unparse(a) for a in create.value.args]
    rep.check(args == ["fd"], "isolation", f"{TIME}::process_single_timestep::ctor-args",
              f"AurelCore must be built from the shared fd only, got {args}", node=create)
    # module-level state
    tree = S.module(TIME)
    glob = {t.id for st in tree.body if isinstance(st, ast.Assign) for t in st.targets
            if isinstance(t, ast.Name)}
    bad = []
    for f in [n for n in tree.body if isinstance(n, ast.FunctionDef)]:
        for n in ast.walk(f):
            if isinstance(n, ast.Global):
                bad.append(n)
            if isinstance(n, (ast.Assign, ast.AugAssign)):
                for t in (n.targets if isinstance(n, ast.Assign) else [n.target]):
                    root = t
                    while isinstance(root, (ast.Subscript, ast.Attribute)):
                        root = root.value
                    if isinstance(t, (ast.Subscript, ast.Attribute)) \
                            and isinstance(root, ast.Name) and root.id in glob \
                            and root.id not in {a.arg for a in f.args.args}:
                        local = any(isinstance(x, ast.Assign) and any(
                            isinstance(tt, ast.Name) and tt.id == root.id for tt in x.targets)
                            for x in ast.walk(f))
                        if not local:
                            bad.append(n)
    rep.check(not bad, "isolation", f"{TIME}::module-state",
              "a function writes module-level state (values would leak between steps/calls): "
              + (norm_src(bad[0])[:60] if bad else ""), node=bad[0] if bad else tree)


def install_then_request(rep):
    S = rep.sources
    fn = S.function(TIME, "process_single_timestep")
    create = [n for n in ast.walk(fn) if isinstance(n, ast.Assign)
              and isinstance(n.value, ast.Call) and unparse(n.value.func).endswith("AurelCore")]
    if not create:
        return
    blk, k = c03.block_of(create[0])

    def ev(stmts):
        out = []
        for st in stmts:
            if isinstance(st, (ast.For, ast.While)):
                out.append(("LOOP", ev(st.body)))
            elif isinstance(st, ast.If):
                out.append(("BRANCH", ev(st.body), ev(st.orelse)))
            else:
                for n in ast.walk(st):
                    if isinstance(n, ast.Subscript) and isinstance(n.value, ast.Name) \
                            and n.value.id == "rel" and isinstance(n.ctx, ast.Load):
                        out.append(("REQ", n))
                if isinstance(st, ast.Assign) and any(c03.obj_sub(t, "data") == "rel"
                                                      for t in st.targets):
                    out.append(("STORE", st))
        return out

    found = []

    def sim(evs, requested):
        for e in evs:
            if e[0] == "REQ":
                requested = True
            elif e[0] == "STORE":
                if requested:
                    found.append(e[1])
            elif e[0] == "LOOP":
                r1 = sim(e[1], requested)
                requested = sim(e[1], r1)
            elif e[0] == "BRANCH":
                a = sim(e[1], requested)
                b = sim(e[2], requested)
                requested = a or b
        return requested
    evs = ev(blk[k + 1:])
    sim(evs, False)
    rep.check(not found, "install-then-request",
              f"{TIME}::process_single_timestep::custom-before-builtin",
              "a value is stored into the per-step instance after a quantity has already been "
              "requested from it: built-ins evaluated earlier used the defaults instead of "
              "the custom variable (result depends on the order/split of the requests): "
              + (norm_src(found[0])[:70] if found else ""), node=found[0] if found else fn,
              detail={"events": len(evs)})


def _strip_tqdm(node):
    if isinstance(node, ast.Call) and unparse(node.func).split(".")[-1] == "tqdm" and node.args:
        return node.args[0]
    return node


def row_pipeline(rep):
    """table -> list of per-step rows -> processed rows -> one sort -> table again, decided on
    the data flow with temporaries resolved (names do not matter):
      remaining-rows / guard / collected   every input row is processed exactly once
      sort                                 rows are reordered once, whole, by the temporal key
      output-loop                          column k of the result is [row[k] for row in rows]
      transpose                            rows are built from keys and values of one dict"""
    from ..reading_rules import resolve, rtext
    _r0 = resolve
    S = rep.sources
    fn = S.function(TIME, "over_time")
    base = f"{TIME}::over_time"

    keep = set()

    def R(n):
        return rtext(fn, n, keep)
    # ---- (1) dict of columns -> list of rows
    tr = []
    for n in ast.walk(fn):
        if isinstance(n, ast.ListComp) and len(n.generators) == 1 \
                and isinstance(n.elt, ast.Call) and unparse(n.elt.func) == "dict" \
                and n.elt.args and isinstance(n.elt.args[0], ast.Call) \
                and unparse(n.elt.args[0].func) == "zip":
            tr.append(n)
    if len(tr) != 1:
        raise AnalysisError("over_time: the table -> rows transposition was not found")
    comp = tr[0]
    g = comp.generators[0]
    zargs = comp.elt.args[0].args
    it = _r0(fn, g.iter)
    src = None
    if isinstance(it, ast.Call) and unparse(it.func) == "zip" and it.args \
            and isinstance(it.args[0], ast.Starred):
        m = re.fullmatch(r"(\w+)\.values\(\)", unparse(it.args[0].value))
        src = m.group(1) if m else None
    ktxt = R(zargs[0]) if zargs else ""
    if zargs and isinstance(zargs[0], ast.Name) and ktxt == zargs[0].id:
        # several bindings of that name: the closest one before the transposition counts
        cands = [a for a in ast.walk(fn) if isinstance(a, ast.Assign)
                 and unparse(a.targets[0]) == ktxt and a.lineno <= comp.lineno]
        if cands:
            ktxt = R(max(cands, key=lambda a: a.lineno).value)
    ok3 = src is not None and len(zargs) >= 2 and unparse(zargs[1]) == unparse(g.target) \
        and ktxt in (f"{src}.keys()", f"list({src}.keys())", f"list({src})", src)
    rep.check(ok3, "rows-move-together", f"{base}::transpose",
              "rows must be built by zipping data.keys() with the transposed data.values() of "
              "the same dict", node=comp)
    st = comp
    while not isinstance(st, ast.stmt):
        st = st._parent
    if not (isinstance(st, ast.Assign) and isinstance(st.targets[0], ast.Name)):
        raise AnalysisError("over_time: the list of rows is not bound to a name")
    L = st.targets[0].id
    keep.add(L)
    _resolve = resolve

    def resolve(f, n):      # noqa: F811  (the list of rows stays a name)
        return _resolve(f, n, 0, keep)
    # ---- (2) processing calls
    calls = [n for n in ast.walk(fn) if isinstance(n, ast.Call)
             and unparse(n.func) == "process_single_timestep" and n.args]
    first = [c for c in calls if unparse(c.args[0]) == f"{L}[0]"]
    rest = []
    for c in calls:
        p = c._parent
        if isinstance(p, ast.ListComp) and p.elt is c and len(p.generators) == 1 \
                and unparse(p.generators[0].target) == unparse(c.args[0]):
            rest.append(p)
        # loop form:  for item in L[1:]: rows += [process_single_timestep(item, ...)]
        q = c
        while q is not None and q is not fn and not isinstance(q, ast.For):
            q = getattr(q, "_parent", None)
        if isinstance(q, ast.For) and unparse(q.target) == unparse(c.args[0]) \
                and not isinstance(p, ast.ListComp):
            rest.append(q)
    if len(first) != 1 or len(rest) != 1 or len(calls) != 2:
        raise AnalysisError("over_time: per-step processing calls not found "
                            f"({len(first)} first, {len(rest)} remaining, {len(calls)} calls)")
    rnode = rest[0]
    riter = rnode.generators[0].iter if isinstance(rnode, ast.ListComp) else rnode.iter
    srct = R(_strip_tqdm(resolve(fn, riter)))
    Ltxt = L
    rep.check(srct == f"{Ltxt}[1:]", "row-coverage", f"{base}::row-coverage::remaining-rows",
              f"the sequential pass iterates `{srct}`, not all rows after the first",
              node=riter)
    guard = None
    p = getattr(rnode, "_parent", None)
    while p is not None and p is not fn:
        if isinstance(p, ast.If):
            guard = p
            break
        p = getattr(p, "_parent", None)
    ok, why = guard is None, ""
    if guard is not None:
        t = resolve(fn, guard.test)
        tt = unparse(guard.test)
        if unparse(t) == f"{Ltxt}[1:]":
            ok = True
        elif isinstance(t, ast.Compare) and len(t.ops) == 1 and isinstance(t.left, ast.Call) \
                and unparse(t.left.func) == "len":
            arg = unparse(t.left.args[0])
            c = const_value(t.comparators[0])
            op = type(t.ops[0]).__name__
            bound = {"Gt": c, "GtE": c - 1 if c is not None else None, "NotEq": c}.get(op)
            if arg == Ltxt:
                ok = bound == 1
            elif arg == f"{Ltxt}[1:]":
                ok = bound == 0
        else:
            raise AnalysisError("over_time: guard of the sequential pass not understood: " + tt)
        why = (f"the guard `{tt}` skips the sequential pass although rows remain (e.g. a table "
               "with exactly two time steps loses its second row)")
    rep.check(ok, "row-coverage", f"{base}::row-coverage::guard", why, node=guard or fn)
    # ---- (3) one whole-row sort
    reorder = [n for n in ast.walk(fn) if isinstance(n, ast.Call)
               and (unparse(n.func) in ("sorted", "np.argsort", "np.sort", "reversed", "np.flip",
                                        "random.shuffle")
                    or (isinstance(n.func, ast.Attribute)
                        and n.func.attr in ("sort", "reverse")))]
    # only those acting on row lists: their operand is a list whose elements are step results
    localdefs = {d.name: d for d in ast.walk(fn) if isinstance(d, ast.FunctionDef)
                 and d is not fn}

    def key_body(node):
        """(parameter, returned expression) of a sort key given as a lambda or as a local
        one-line function"""
        if isinstance(node, ast.Lambda) and len(node.args.args) == 1:
            return node.args.args[0].arg, node.body
        if isinstance(node, ast.Name) and node.id in localdefs:
            d = localdefs[node.id]
            body = [x for x in d.body if not (isinstance(x, ast.Expr)
                                               and isinstance(x.value, ast.Constant))]
            if len(d.args.args) == 1 and len(body) == 1 and isinstance(body[0], ast.Return):
                return d.args.args[0].arg, body[0].value
        return None
    rowsort = [n for n in reorder if unparse(n.func) == "sorted" and n.args
               and isinstance(n.args[0], ast.Name)
               and any(k.arg == "key" and key_body(k.value) is not None for k in n.keywords)]
    if len(rowsort) != 1:
        raise AnalysisError("over_time: the sort of the per-step rows was not found")
    srt = rowsort[0]
    N = srt.args[0].id
    others = [n for n in reorder if n is not srt and N in unparse(n)]
    kw = {k.arg: k.value for k in srt.keywords}
    kb = key_body(kw.get("key"))
    ok = kb is not None and unparse(kb[1]) == f"{kb[0]}[temporal_key]" \
        and "reverse" not in kw and not others
    rep.check(ok, "rows-move-together", f"{base}::sort",
              "the list of per-step rows must be reordered exactly once, by "
              "sorted(rows, key=lambda x: x[temporal_key])", node=srt)
    # ---- (4) every processed row reaches the list that is sorted
    init = [a for a in ast.walk(fn) if isinstance(a, ast.Assign)
            and unparse(a.targets[0]) == N]
    first_st = first[0]
    while not isinstance(first_st, ast.stmt):
        first_st = first_st._parent
    fnames = set()
    if isinstance(first_st, ast.Assign):
        t0 = first_st.targets[0]
        fnames = {unparse(t0.elts[0])} if isinstance(t0, ast.Tuple) else {unparse(t0)}
    ok_first = any(isinstance(a.value, ast.List) and len(a.value.elts) == 1
                   and (unparse(a.value.elts[0]) in fnames
                        or R(a.value.elts[0]).startswith("process_single_timestep("))
                   for a in init)
    ok_rest = False
    for n in ast.walk(fn):
        val = None
        if isinstance(n, ast.AugAssign) and isinstance(n.op, ast.Add) \
                and unparse(n.target) == N:
            val = n.value
        elif isinstance(n, ast.Call) and unparse(n.func) == f"{N}.extend" and n.args:
            val = n.args[0]
        elif isinstance(n, ast.Assign) and unparse(n.targets[0]) == N \
                and isinstance(n.value, ast.BinOp) and isinstance(n.value.op, ast.Add) \
                and unparse(n.value.left) == N:
            val = n.value.right
        if val is None:
            continue
        v = resolve(fn, val)
        if isinstance(rnode, ast.ListComp) and isinstance(v, ast.ListComp) \
                and unparse(v) == R(rnode):
            ok_rest = True
        if isinstance(rnode, ast.For) and any(n is x for x in ast.walk(rnode)) \
                and isinstance(v, ast.List) and len(v.elts) == 1 \
                and unparse(v.elts[0]).startswith("process_single_timestep("):
            ok_rest = True
    rep.check(ok_first and ok_rest, "row-coverage", f"{base}::row-coverage::collected",
              "the result of the first step and the results of the sequential pass must all be "
              "added to the list of rows that is sorted", node=fn)
    # ---- (5) rows -> columns: column k is [row[k] for row in sorted rows], in row order
    st = srt
    while not isinstance(st, ast.stmt):
        st = st._parent
    if not (isinstance(st, ast.Assign) and isinstance(st.targets[0], ast.Name)):
        raise AnalysisError("over_time: the sorted rows are not bound to a name")
    SR = st.targets[0].id
    cells = []
    for n in ast.walk(fn):
        if isinstance(n, ast.Subscript) and isinstance(n.ctx, ast.Load):
            rowexpr = n.value
            # rows[i][k]
            if isinstance(rowexpr, ast.Subscript) and unparse(rowexpr.value) == SR:
                cells.append((n, "index", rowexpr.slice, n.slice))
            elif isinstance(rowexpr, ast.Name):
                # row variable of a loop / comprehension over the sorted rows
                q = n
                while q is not None and q is not fn:
                    gens = q.generators if isinstance(q, (ast.ListComp, ast.GeneratorExp)) else []
                    for gg in gens:
                        if unparse(gg.target) == rowexpr.id and unparse(gg.iter) == SR:
                            cells.append((n, "direct", gg, n.slice))
                    if isinstance(q, ast.For) and unparse(q.target) == rowexpr.id \
                            and unparse(q.iter) == SR:
                        cells.append((n, "direct", q, n.slice))
                    q = getattr(q, "_parent", None)
    cells = [c for c in cells if "keys" not in unparse(c[0]) or True]
    # the cell reads that feed the output (not `rows[0].keys()`)
    cells = [c for c in cells if not (isinstance(c[0]._parent, ast.Attribute))]
    if not cells:
        raise AnalysisError("over_time: the rows -> columns loop was not found")
    ok2, node = True, cells[0][0]
    for cell, kind, rowref, kslice in cells:
        node = cell
        kv = unparse(kslice)
        # the row index / row variable runs over the sorted rows in their order
        if kind == "index":
            iv = unparse(rowref)
            q, found = cell, None
            while q is not None and q is not fn:
                gens = q.generators if isinstance(q, (ast.ListComp, ast.GeneratorExp)) else []
                for gg in gens:
                    if unparse(gg.target) == iv:
                        found = unparse(gg.iter) == f"range(len({SR}))"
                if isinstance(q, ast.For) and unparse(q.target) == iv:
                    found = unparse(q.iter) == f"range(len({SR}))"
                q = getattr(q, "_parent", None)
            if found is None:
                raise AnalysisError("over_time: the loop binding the row index of `"
                                    + unparse(cell) + "` was not found")
            ok2 = ok2 and found
        # the value lands in the column of the same key
        q, landed = cell, None
        while q is not None and q is not fn and landed is None:
            par = getattr(q, "_parent", None)
            if isinstance(par, ast.AugAssign) and isinstance(par.target, ast.Subscript):
                landed = unparse(par.target.slice)
            elif isinstance(par, ast.Assign) and isinstance(par.targets[0], ast.Subscript) \
                    and par.value is q:
                landed = unparse(par.targets[0].slice)
            elif isinstance(par, ast.DictComp) and par.value is q:
                landed = unparse(par.key)
            elif isinstance(par, ast.Call) and isinstance(par.func, ast.Attribute) \
                    and par.func.attr == "append" and isinstance(par.func.value, ast.Subscript) \
                    and par.args and par.args[0] is q:
                landed = unparse(par.func.value.slice)
            elif (isinstance(par, ast.AugAssign) and isinstance(par.target, ast.Name)) or (
                    isinstance(par, ast.Assign) and isinstance(par.targets[0], ast.Name)):
                # collected in a local list first: where does that list land?
                acc = par.target.id if isinstance(par, ast.AugAssign) else par.targets[0].id
                dests = [a for a in ast.walk(fn) if isinstance(a, ast.Assign)
                         and isinstance(a.targets[0], ast.Subscript)
                         and any(isinstance(x, ast.Name) and x.id == acc
                                 for x in ast.walk(a.value))]
                if len(dests) == 1:
                    landed = unparse(dests[0].targets[0].slice)
                break
            q = par
        if landed is None:
            raise AnalysisError("over_time: where the cell `" + unparse(cell)
                                + "` lands in the output table was not understood")
        ok2 = ok2 and landed == kv
    rep.check(ok2, "rows-move-together", f"{base}::output-loop",
              "every output column must receive rows[i][key] for the same key, in row order",
              node=node)


BASE = {"max": ("np.max", None), "mean": ("np.mean", None), "min": ("np.min", None),
        "sum": ("np.sum", None), "std": ("np.std", None), "var": ("np.var", None),
        "quartile1": ("np.percentile", 25), "median": ("np.percentile", 50),
        "quartile3": ("np.percentile", 75)}


def estimator_table(rep):
    """The table of predefined estimators is *evaluated* (module-level display, `**` merges,
    comprehensions, lambdas with python's late binding of loop variables -- aurelsa.fdpe) and
    every entry applied to a symbolic array: the value must be the one its name announces."""
    from ..fdpe import FDPE, Sym, SymbolicBranch, to_term
    from ..tensor import NeedConfig, PathEnds, Unsupported
    from ..exact import Aff
    S = rep.sources
    tree = S.module(TIME)
    node = None
    for st in tree.body:
        if isinstance(st, ast.Assign) and unparse(st.targets[0]) == "est_functions":
            node = st
    if node is None:
        raise AnalysisError("time.py: est_functions table not found")
    it = FDPE(S, rel=TIME, cls="<none>")
    try:
        table = it.module_value(TIME, "est_functions")
    except KeyError:
        raise AnalysisError("time.py: est_functions table not found")
    except (Unsupported, PathEnds, NeedConfig) as e:
        raise AnalysisError(f"time.py: est_functions cannot be evaluated: {e}")
    if not isinstance(table, dict):
        raise AnalysisError("time.py: est_functions is not a dictionary")
    A = ("param", "array")
    n = 0
    for name, f in table.items():
        key = f"{TIME}::est_functions[{name!r}]"
        n += 1
        try:
            got = to_term(it.apply(f, [Sym(A)], node))
        except SymbolicBranch as e:
            rep.violation("estimator-table", key, f"'{name}' depends on the data: {e}", node=node)
            continue
        except (Unsupported, PathEnds, NeedConfig) as e:
            raise AnalysisError(f"est_functions[{name!r}] cannot be evaluated: {e}")
        m = re.fullmatch(r"x([01])y([01])z([01])", str(name))
        if m:
            want_idx = tuple(Aff(0 if b_ == "0" else -1) for b_ in m.groups())
            txt = ", ".join("0" if b_ == "0" else "-1" for b_ in m.groups())
            rep.check(got == ("idx", A, want_idx), "estimator-table", key,
                      f"corner '{name}' must be array[{txt}] (x, y, z order; 0 = first, 1 = "
                      f"last), got {got!r}"[:300], node=node)
            continue
        absf = str(name).endswith("abs")
        base = str(name)[:-3] if absf else str(name)
        if base not in BASE:
            rep.unverified("estimator-table", key, "name not in the naming scheme")
            continue
        fn_name, pct = BASE[base]
        arg = ("call", ("global", "np.abs"), (A,)) if absf else A
        want = ("call", ("global", fn_name), (arg,) + ((Aff(pct),) if pct is not None else ()))
        rep.check(got == want, "estimator-table", key,
                  f"'{name}' must be {fn_name}({'|array|' if absf else 'array'}"
                  f"{', ' + str(pct) if pct is not None else ''}) with no other option, got "
                  f"{got!r}"[:300], node=node)
    if n < 20:
        raise AnalysisError(f"est_functions: only {n} entries")


from ..reading_rules import local_value as _local_value  # noqa: E402


def estimate_columns(rep):
    S = rep.sources
    fn = S.function(TIME, "process_single_timestep")
    n = 0
    for st in ast.walk(fn):
        if not (isinstance(st, ast.Assign) and isinstance(st.targets[0], ast.Subscript)
                and unparse(st.targets[0].value) == "data"):
            continue
        sl0 = st.targets[0].slice
        if isinstance(sl0, ast.Name):
            # the column name computed once and used for the test and for the store
            v_ = _local_value(st, sl0.id, fn)
            sl0 = v_ if isinstance(v_, ast.AST) else sl0
        if isinstance(sl0, ast.BinOp):
            n += 1
            sl = sl0
            parts = []
            x = sl
            while isinstance(x, ast.BinOp) and isinstance(x.op, ast.Add):
                parts.insert(0, x.right)
                x = x.left
            parts.insert(0, x)
            ptxt = [unparse(p) for p in parts]
            val = st.value
            ok = len(ptxt) == 3 and ptxt[1] == "'_'" and isinstance(val, ast.Call) \
                and len(val.args) == 1 and unparse(val.args[0]) == f"data[{ptxt[0]}]"
            why = f"`{norm_src(st)[:70]}`: the estimated column is not the column named in the key"
            if ok:
                est_c = {ptxt[2]}
                if isinstance(parts[2], ast.Name):
                    ev_ = _local_value(st, parts[2].id, fn)
                    if isinstance(ev_, ast.AST):
                        est_c.add(unparse(ev_))
                cands = [val.func]
                if isinstance(val.func, ast.Name):
                    from ..reading_rules import local_values
                    cands = local_values(st, val.func.id, fn) or []
                verdicts = []
                for fexpr in cands:
                    b_ = None
                    if isinstance(fexpr, tuple):
                        # for <name>, <function> in <dict>.items()
                        t = fexpr[1].target
                        if isinstance(t, ast.Tuple) and len(t.elts) == 2 \
                                and unparse(t.elts[1]) == unparse(val.func):
                            b_ = unparse(t.elts[0]) in est_c
                    elif isinstance(fexpr, ast.Subscript):
                        D, X = unparse(fexpr.value), unparse(fexpr.slice)
                        if D == "est_functions":
                            b_ = X in est_c
                        else:
                            # D[est] inside  for est in D  (a dict of custom estimators)
                            q = st
                            while q is not None and q is not fn:
                                if isinstance(q, ast.For) and unparse(q.iter) in (
                                        D, D + ".keys()") and unparse(q.target) == X:
                                    b_ = X in est_c
                                q = getattr(q, "_parent", None)
                    verdicts.append(b_)
                bound = None
                if verdicts and all(v is not None for v in verdicts):
                    bound = all(verdicts)
                elif any(v is False for v in verdicts):
                    bound = False
                if bound is None:
                    raise AnalysisError(
                        f"process_single_timestep: `{norm_src(st)[:70]}`: which function is "
                        "applied could not be established")
                ok = bound
                why = (f"`{norm_src(st)[:70]}`: the function applied is not the one bound to "
                       f"the estimate name `{ptxt[2]}`")
            # guarded by "not already present"
            par = getattr(st, "_parent", None)
            guarded = isinstance(par, ast.If) and "not in" in unparse(par.test) \
                and (unparse(sl) in unparse(par.test)
                     or unparse(st.targets[0].slice) in unparse(par.test))
            rep.check(ok and guarded, "estimate-columns",
                      f"{TIME}::process_single_timestep::{norm_src(st.targets[0])[:40]}",
                      why if not ok else "estimate recomputed although already present",
                      node=st)
    if n < 2:
        raise AnalysisError("estimate stores not found")


def skip_present(rep):
    """Idempotence of successive calls: which requests are dropped because their result is
    already in the table.  Decided on canonical quantifier forms of the gating conditions
    (boolnorm): a variable is (re)computed iff it is not in the table; when new variables are
    computed every estimate is applied; in an estimates-only call an estimate is kept iff
    *some* scalar column lacks it."""
    from .. import boolnorm as B
    S = rep.sources
    fn = S.function(TIME, "over_time")
    B.FUNCS.clear()
    B.FUNCS.update({f.name: f for f in S.module(TIME).body if isinstance(f, ast.FunctionDef)})
    key = f"{TIME}::over_time"

    def appended(node, lst):
        """node appends one element to list `lst` -> element expression"""
        if isinstance(node, ast.AugAssign) and isinstance(node.op, ast.Add) \
                and unparse(node.target) == lst and isinstance(node.value, ast.List) \
                and len(node.value.elts) == 1:
            return node.value.elts[0]
        if isinstance(node, ast.Expr) and isinstance(node.value, ast.Call) \
                and unparse(node.value.func) == lst + ".append" and len(node.value.args) == 1:
            return node.value.args[0]
        return None

    def req_name(el):
        if isinstance(el, ast.Name):
            return el.id
        if isinstance(el, ast.Dict) and len(el.keys) == 1 and isinstance(el.keys[0], ast.Name):
            return el.keys[0].id
        raise AnalysisError("over_time: appended request not understood: " + unparse(el))

    def cleaned_list(param):
        """the list that replaces the request parameter: `param = <list name>`"""
        names = [n.value.id for n in ast.walk(fn) if isinstance(n, ast.Assign)
                 and len(n.targets) == 1 and unparse(n.targets[0]) == param
                 and isinstance(n.value, ast.Name) and n.value.id != param]
        return names[-1] if names else "cleaned_" + param

    lv, le = cleaned_list("vars"), cleaned_list("estimates")
    sites_v = [(n, appended(n, lv)) for n in ast.walk(fn)]
    sites_v = [(n, e) for n, e in sites_v if e is not None]
    sites_e = [(n, appended(n, le)) for n in ast.walk(fn)]
    sites_e = [(n, e) for n, e in sites_e if e is not None]
    if len(sites_v) < 2 or len(sites_e) < 4:
        raise AnalysisError("over_time: the request-cleaning appends were not found")
    for n, e in sites_v:
        nm = req_name(e)
        conds = [f for f, _ in B.path_conditions(n)]
        want = ("not", ("in", (("v", nm),), "data"))
        rep.check(want in conds, "skip-present", f"{key}::vars::{nm}",
                  f"the requested variable `{nm}` must be computed iff it is not yet in the "
                  f"table; conditions on the way to `{norm_src(n)}`: "
                  + "; ".join(repr(c) for c in conds if B.mentions(c, "data")), node=n)
    for n, e in sites_e:
        nm = req_name(e)
        conds = [f for f, _ in B.path_conditions(n)]
        vnames = ("vars", lv)          # the cleaned list and the parameter it replaces
        newvars = any(("nonempty", v) in conds or ("truthy", v) in conds for v in vnames)
        estonly = any(("not", ("nonempty", v)) in conds or ("not", ("truthy", v)) in conds
                      for v in vnames)
        if newvars == estonly:
            raise AnalysisError("over_time: cannot tell whether `" + norm_src(n)
                                + "` is on the new-variables or the estimates-only path")
        about_data = [c for c in conds if B.mentions(c, "data")]
        if newvars:
            rep.check(not about_data, "skip-present", f"{key}::estimates(new vars)::{nm}",
                      "when new variables are computed every requested estimate must be "
                      "applied to them; this one is filtered by the table's contents: "
                      + "; ".join(map(repr, about_data)), node=n)
        else:
            want = ("exists", "$v", "scalarkeys",
                    ("not", ("in", (("v", "$v"), ("s", "_"), ("v", nm)), "data")))
            rep.check(about_data == [want], "skip-present",
                      f"{key}::estimates(only)::{nm}",
                      f"in an estimates-only call `{nm}` must be kept iff some scalar column "
                      f"lacks `<scalar>_{nm}`; found: "
                      + ("; ".join(map(repr, about_data)) or "no condition on the table"),
                      node=n)
    # scalarkeys of the estimates-only path: the columns holding 3D arrays
    for q in ("over_time", "process_single_timestep"):
        f = S.function(TIME, q)
        bad = [n for n in ast.walk(f) if (isinstance(n, ast.Delete) and any(
            isinstance(t, ast.Subscript) and unparse(t.value) == "data" for t in n.targets))
            or (isinstance(n, ast.Call) and unparse(n.func) in ("data.pop", "data.clear"))]
        rep.check(not bad, "skip-present", f"{TIME}::{q}::no-delete",
                  "columns of the table are removed", node=bad[0] if bad else f)


def run(rep):
    rep.explanation = (
        "Structural clauses of C14, one rule instance per construct of time.py: per-step "
        "isolation (fresh instance, dominance, no escape, no module state), inputs frozen "
        "before use and customs installed before any request (event simulation over loops and "
        "branches), a single whole-row sort by the temporal key and a row-coherent output "
        "loop, estimate columns keyed and computed from the same column with the function "
        "bound to their name, the 26-entry estimator table agreeing with its names, and the "
        "skip-what-is-present guards.  Equality of the values with a fresh computation follows "
        "from C01-C03 plus isolation; it is not separately decided.")
    rep.assume("user-supplied custom variables/estimators are deterministic functions of "
               "their argument")
    isolation(rep)
    c03.freeze_before_use(rep)
    c03.freeze_rules(rep)
    install_then_request(rep)
    row_pipeline(rep)
    estimator_table(rep)
    estimate_columns(rep)
    skip_present(rep)
    c02.analyse(rep, rule="no-inplace-on-shared", rels=["time.py"])
    # what is stored for a step must not be rewritten by a later request of the same step
    # (and the caller's input arrays are handed to the per-step instance by reference)
    c02.analyse(rep, owner_filter=lambda o: o.startswith("CACHE"),
                rule="no-inplace-on-cached", rels=["core.py", "maths.py", "numerical.py",
                                                   "finitedifference.py"])
    rep.floor("estimator-table", 20)
    rep.floor("isolation", 4)
    rep.floor("rows-move-together", 3)
