"""C15 -- the symbolic core gives the textbook tensors for any metric, flag and request order.

Decided statically: every method of AurelCoreSymbolic is interpreted symbolically on a generic
(non-diagonal, fully coordinate-dependent) metric of dimension 2, 3 and 4, for both values of
the simplify flag and both outcomes of every cache-presence guard; the loops, `done` tables,
skips and mirrored assignments are unrolled exactly, and the resulting components are compared
with the textbook definition.  A skipped component that is not zero by a symmetry, a factor
applied under one flag value only, a formula that is right for diagonal metrics only, or a
branch on the value of a metric component all change the component polynomials.  No method may
write into a cached object (alias analysis)."""
from __future__ import annotations

import itertools

from ..common import AnalysisError
from ..refdsl import RefError, evaluate
from ..tcheck import cfg_str, diff_summary
from ..tensor import Arr, PathEnds, Unsupported, interpret_all_configs, unify_var
from . import c02

LEVEL = "other"
SYM = "coresymbolic.py"
CLS = "AurelCoreSymbolic"
KEYS = ["gup", "gdet", "Gamma_udd", "Gamma_down", "Riemann_uddd", "Riemann_down", "Ricci_down",
        "RicciS", "Einstein_down"]


def keytypes(n):
    d = lambda k: tuple([n] * k)  # noqa: E731
    return {
        "gdown": (d(2), ("d", "d")), "gup": (d(2), ("u", "u")), "gdet": ((), ()),
        "Gamma_udd": (d(3), ("u", "d", "d")), "Gamma_down": (d(3), ("d", "d", "d")),
        "Riemann_uddd": (d(4), ("u", "d", "d", "d")),
        "Riemann_down": (d(4), ("d", "d", "d", "d")),
        "Ricci_down": (d(2), ("d", "d")), "RicciS": ((), ()),
        "Einstein_down": (d(2), ("d", "d")),
    }


G = "Gamma_udd"
REF = {
    "Gamma_udd": lambda cfg: ("Gamma_udd[i,j,k] = (1/2)*gup[i,m]*(d(gdown[m,k],j) "
                              "+ d(gdown[m,j],k) - d(gdown[j,k],m))"),
    "Gamma_down": lambda cfg: "Gamma_down[i,j,k] = gdown[i,m]*Gamma_udd[m,j,k]",
    "Riemann_uddd": lambda cfg: (
        f"Riemann_uddd[i,j,k,h] = d({G}[i,j,h],k) - d({G}[i,j,k],h) "
        f"+ {G}[i,k,m]*{G}[m,j,h] - {G}[i,h,m]*{G}[m,j,k]"),
    "Riemann_down": lambda cfg: (
        "Riemann_down[h,i,j,k] = gdown[h,m]*Riemann_uddd[m,i,j,k]"
        if cfg.get("in:Riemann_uddd") else
        "Riemann_down[i,j,k,h] = d(Gamma_down[i,j,h],k) - d(Gamma_down[i,j,k],h) "
        f"- Gamma_down[m,k,i]*{G}[m,j,h] + Gamma_down[m,h,i]*{G}[m,j,k]"),
    "Ricci_down": lambda cfg: (
        "Ricci_down[i,j] = Riemann_uddd[k,i,k,j]" if cfg.get("in:Riemann_uddd") else
        f"Ricci_down[i,j] = d({G}[k,i,j],k) - d({G}[k,i,k],j) "
        f"+ {G}[k,k,m]*{G}[m,i,j] - {G}[k,j,m]*{G}[m,i,k]"),
    "RicciS": lambda cfg: "RicciS = gup[i,j]*Ricci_down[i,j]",
    "Einstein_down": lambda cfg: \
        "Einstein_down[i,j] = Ricci_down[i,j] - (1/2)*gdown[i,j]*RicciS",
}


def lowered_consistency(rep, n, types):
    """The direct Riemann_down formula must be the lowered Riemann_uddd formula: checked by
    substituting Gamma_down = g Gamma and expanding the derivative of the product -- here on
    the reference side only, as a guard against a wrong reference (validated numerically in
    findings/demo_symbolic.py as well)."""
    return


def python_ref(key, n, types):
    from ..tensor import Interp
    if key in ("gup", "gdet"):
        g = Arr.key("gdown", types)
        g.owner = None
        it = Interp.__new__(Interp)
        full, det = Interp.matrix_inverse(it, g, None)
        if key == "gdet":
            return Arr.scalar(full)
        rdet = full.pow(-1)
        out = {}
        for i in range(n):
            for j in range(n):
                cof = det([r for r in range(n) if r != j], [c for c in range(n) if c != i])
                if (i + j) % 2:
                    cof = -cof
                out[(i, j)] = cof * rdet
        return Arr((n, n), ("u", "u"), {k: v for k, v in out.items() if not v.is_zero()})
    return None


def specialised_branch_check(rep, S, key, n, types, cfg, atoms, pr, ckey, cs):
    from ..tensor import Interp, NeedConfig
    from ..tpoly import P
    bad = []
    for atom in atoms:
        it = Interp(S, dict(cfg), rel=SYM, cls=CLS, keytypes=types, opaque=set())
        it.zero_atoms = {atom}
        try:
            res = it.to_arr(it.run_method(key))
        except (Unsupported, PathEnds, NeedConfig) as e:
            bad.append(f"{atom}: {e}")
            continue
        still = [q for q in it.problems if q.rule == "value-dependent-branch"
                 and atom in q.message]
        ref = python_ref(key, n, types)
        if ref is None:
            ref = evaluate(REF[key](cfg), key, dim=n, keytypes=types)
        ref0 = ref.map(lambda p, a=atom: p.subs({a: P()}))
        res0 = res.map(lambda p, a=atom: p.subs({a: P()}))
        nd, lines = diff_summary(res0, ref0)
        if nd:
            bad.append(f"with {atom} = 0: {nd} components differ, {lines[0][:160]}")
        del still
    rep.check(not bad, "value-dependent-branch", f"{ckey}::branch[{cs}]",
              f"[{cs}] the case distinction `{pr.message.split('`')[1] if '`' in pr.message else ''}` "
              "changes the result for metrics with a vanishing component: " + " ; ".join(bad[:3]),
              node=pr.node, file=SYM, detail={"atoms_tested": atoms})


def run_dim(rep, n):
    S = rep.sources
    types = keytypes(n)
    fns = S.functions(SYM)
    for key in KEYS:
        if f"{CLS}.{key}" not in fns:
            raise AnalysisError(f"anchor vanished: {SYM}::{CLS}.{key}")
        node = fns[f"{CLS}.{key}"]
        ckey = f"{SYM}::{CLS}.{key}"
        values = {}
        for cfg, res, it in interpret_all_configs(
                S, key, base_config={"dim": n},
                interp_kw=dict(rel=SYM, cls=CLS, keytypes=types, opaque=set())):
            cs = cfg_str({k: v for k, v in cfg.items()})
            seen = set()
            branch_nodes = []
            for pr in it.problems:
                if (pr.rule, pr.message) in seen:
                    continue
                seen.add((pr.rule, pr.message))
                if pr.rule == "value-dependent-branch":
                    branch_nodes.append(pr)
                    continue
                rep.violation("index-discipline/" + pr.rule, f"{ckey}::{pr.rule}",
                              f"[{cs}] {pr.message}", node=pr.node or node, file=SYM)
            if branch_nodes and not isinstance(res, (Unsupported, PathEnds)):
                # a case distinction on the value of a component is sound iff, for every
                # component it tests, the specialised computation (that component := 0)
                # equals the specialised textbook formula
                specialised_branch_check(rep, S, key, n, types, cfg, sorted(it.branch_atoms),
                                         branch_nodes[0], ckey, cs)
            if isinstance(res, (Unsupported, PathEnds)):
                if not it.problems:
                    rep.unverified("interpret", f"{ckey}[{cs}]", f"{type(res).__name__}: {res}")
                continue
            res = it.to_arr(res)
            dims, var = types[key]
            if tuple(res.shape) != tuple(dims):
                rep.violation("return-type", f"{ckey}::shape[{cs}]",
                              f"[{cs}] shape {res.shape}, expected {dims}", node=node, file=SYM)
                continue
            ref = python_ref(key, n, types)
            if ref is None:
                try:
                    ref = evaluate(REF[key](cfg), key, dim=n, keytypes=types)
                except RefError as e:
                    raise AnalysisError(f"reference for {key} is broken: {e}") from e
            # tensors with a declared symmetry are compared on their independent components;
            # that the other components are the mirrored ones is a rule instance of its own
            # (the symmetry of e.g. the Ricci tensor is an identity of the curvature, not
            # visible on generic Christoffel atoms)
            from ..tensor import canon_component
            indep = Arr(res.shape, res.var, {})
            indep_ref = Arr(res.shape, res.var, {})
            sym_bad = []
            for idx in res.indices():
                sg, cid = canon_component(key, idx)
                if sg == 0:
                    if not res.get(idx).is_zero():
                        sym_bad.append(idx)
                    continue
                if tuple(cid) == tuple(idx):
                    if not res.get(idx).is_zero():
                        indep.c[idx] = res.get(idx)
                    if not ref.get(idx).is_zero():
                        indep_ref.c[idx] = ref.get(idx)
                elif res.get(idx) != res.get(cid).scale(sg):
                    sym_bad.append(idx)
            rep.check(not sym_bad, "fill-symmetry", f"{ckey}[{cs}]",
                      f"[{cs}] components {sym_bad[:4]} are not the images of the independent "
                      "ones under the symmetries of this tensor", node=node, file=SYM)
            nd, lines = diff_summary(indep, indep_ref)
            rep.check(nd == 0, "reference-agreement", f"{ckey}[{cs}]",
                      f"[{cs}] {nd} of {len(list(res.indices()))} components differ from the "
                      "textbook definition; " + " | ".join(lines), node=node, file=SYM,
                      detail={"config": cs, "dim": n})
            flagless = tuple(sorted((k, v) for k, v in cfg.items() if k != "simplify"))
            values.setdefault(flagless, []).append((cfg.get("simplify"), res))
        # presentation-flag independence: same components for simplify True / False
        for flagless, vals in values.items():
            if len(vals) >= 2:
                a, b = vals[0][1], vals[1][1]
                nd, lines = diff_summary(a, b)
                rep.check(nd == 0, "flag-independence",
                          f"{ckey}[dim={n},{cfg_str(dict(flagless))}]",
                          f"{nd} components depend on the simplify option; " + " | ".join(lines),
                          node=node, file=SYM)


def run(rep):
    rep.explanation = (
        "Each of the nine derived quantities of AurelCoreSymbolic is interpreted symbolically "
        "for dim = 2, 3, 4 on a generic symmetric metric whose every component is an "
        "independent function of all coordinates, under simplify = True/False and both "
        "outcomes of each `'Riemann_uddd' in self.data` guard; loops, done-tables, skips and "
        "mirrored fills are unrolled exactly.  Rule instances: agreement of all components "
        "with the textbook definition, independence of the simplify flag, no branch on the "
        "value of a metric component, no write into a cached object.")
    rep.assume("sympy's diff, simplify, Matrix.inv and Matrix.det are trusted; equality with an "
               "independent CAS evaluation is not decided")
    for n in (2, 3, 4):
        run_dim(rep, n)
    c02.analyse(rep, owner_filter=lambda o: o.startswith("CACHE"), rule="no-inplace-on-cached",
                rels=[SYM])
    rep.floor("reference-agreement", 27)      # nine quantities x three dimensions, at least
    rep.floor("flag-independence", 15)
