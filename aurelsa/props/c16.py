"""C16 -- the grid object describes exactly the grid the parameters specify.

Count / position / extent / shape clauses decided on the syntax tree of finitedifference.py
and of the consumers in core.py and time.py:

  coordinate-array    each coordinate array is  min_a + arange(N_a) * d_a  (exact polynomial
                      identity; count fixed by an integer, never by a float division)
  arange-count        no np.arange with a non-integer step anywhere in the package
  extent-provenance   a_max is the last element of its own coordinate array, N_a its length
                      (or the parameter), a_min the parameter
  axis-siblings       the y and z statements are the x statement under x -> y, z
  meshgrid            3D coordinates from meshgrid(x, y, z, indexing='ij'), unpacked in order
  axis-index-pairing  wherever an axis-lettered fd attribute meets center[i] / a position in a
                      shape tuple, letter and index agree (x0, y1, z2)
  symmetric-trim      cutoffmask{,2}: per rank branch, the same slice k*mask_len : -k*mask_len
                      on every axis, no other path
  spherical-order     cartesian_to_spherical returns (r, theta, phi) and is unpacked so
"""
from __future__ import annotations

import ast
import re
from fractions import Fraction

from ..common import AnalysisError, norm_src, unparse
from ..exact import Poly, const_value, poly_eval

LEVEL = "other"
FD = "finitedifference.py"
AX = "xyz"


def is_self_attr(node, name=None):
    return isinstance(node, ast.Attribute) and isinstance(node.value, ast.Name) \
        and node.value.id == "self" and (name is None or node.attr == name)


def init_assigns(fn):
    out = {}
    for st in fn.body:
        if isinstance(st, ast.Assign):
            for t in st.targets:
                if is_self_attr(t):
                    out.setdefault(t.attr, []).append(st)
                elif isinstance(t, ast.Tuple):
                    for e in t.elts:
                        if is_self_attr(e):
                            out.setdefault(e.attr, []).append(st)
    return out


def coord_atomiser(ax):
    def f(node):
        s = unparse(node)
        if s in (f"self.param['{ax}min']", f"self.{ax}min"):
            return "min"
        if s in (f"self.param['d{ax}']", f"self.d{ax}"):
            return "d"
        if s in (f"np.arange(self.param['N{ax}'])", f"np.arange(self.N{ax})",
                 f"np.arange(0, self.param['N{ax}'])"):
            return "I"
        return None
    return f


def coordinate_arrays(rep, init):
    asg = init_assigns(init)
    for ax in AX:
        name = f"{ax}array"
        sts = asg.get(name)
        if not sts or len(sts) != 1:
            raise AnalysisError(f"__init__: self.{name} must be assigned exactly once")
        v = sts[0].value
        key = f"{FD}::FiniteDifference.__init__::{name}"
        ok, why = False, ""
        if isinstance(v, ast.Call) and unparse(v.func) == "np.linspace":
            # linspace(min, min + (N-1)*d, N)
            a = [unparse(x) for x in v.args]
            ok = len(a) >= 3 and a[2] in (f"self.param['N{ax}']",)
            why = "np.linspace form not recognised as min + i*d with N points"
            if ok:
                try:
                    at = coord_atomiser(ax)

                    def at2(n, ax=ax, at=at):
                        if unparse(n) == f"self.param['N{ax}']":
                            return "N"
                        return at(n)
                    lo = poly_eval(v.args[0], {}, at2)
                    hi = poly_eval(v.args[1], {}, at2)
                    ok = lo == Poly.atom("min") and hi == Poly.atom("min") + (
                        Poly.atom("N") - 1) * Poly.atom("d")
                except AnalysisError:
                    ok = False
        else:
            try:
                p = poly_eval(v, {}, coord_atomiser(ax))
                ok = p == Poly.atom("min") + Poly.atom("I") * Poly.atom("d")
                why = (f"self.{name} = {norm_src(v)[:70]} is not {ax}min + arange(N{ax})*d{ax}")
            except AnalysisError as e:
                why = (f"self.{name} = {norm_src(v)[:70]}: the number of points is not fixed by "
                       f"the integer N{ax} ({e})")
        rep.check(ok, "coordinate-array", key, why, node=sts[0])


def arange_lint(rep):
    S = rep.sources
    n = 0
    for rel in S.all_py():
        for node in ast.walk(S.module(rel)):
            if isinstance(node, ast.Call) and unparse(node.func) in ("np.arange",
                                                                    "numpy.arange"):
                n += 1
                fn = node
                while fn is not None and not isinstance(fn, ast.FunctionDef):
                    fn = getattr(fn, "_parent", None)
                key = f"{rel}::{fn.name if fn else '<module>'}::{norm_src(node)[:50]}"
                step = None
                if len(node.args) >= 3:
                    step = node.args[2]
                for k in node.keywords:
                    if k.arg == "step":
                        step = k.value
                if step is None:
                    rep.ok("arange-count", key)
                    continue
                c = const_value(step)
                rep.check(c is not None and c.denominator == 1 and c != 0, "arange-count", key,
                          f"np.arange with step `{unparse(step)}`: its length depends on the "
                          "rounding of (stop - start)/step (e.g. N=3, d=0.1 gives 4 points)",
                          node=node)
    if n < 3:
        raise AnalysisError("fewer than 3 np.arange calls found")


def extents(rep, init):
    asg = init_assigns(init)
    for ax in AX:
        for attr, want, what in (
                (f"{ax}max", [f"self.{ax}array[-1]"], "the last grid point"),
                (f"N{ax}", [f"len(self.{ax}array)", f"self.param['N{ax}']",
                            f"self.{ax}array.shape[0]", f"self.{ax}array.size"],
                 "the number of grid points"),
                (f"{ax}min", [f"self.param['{ax}min']", f"self.{ax}array[0]"],
                 "the first grid point")):
            sts = asg.get(attr)
            if not sts:
                raise AnalysisError(f"__init__: self.{attr} not assigned")
            for st in sts:
                rep.check(unparse(st.value) in want, "extent-provenance",
                          f"{FD}::FiniteDifference.__init__::{attr}",
                          f"self.{attr} = {norm_src(st.value)[:60]} is not {what} of the "
                          f"coordinate array ({' or '.join(want)})", node=st)


TOK = re.compile(r"\b(i?)(x|y|z)(min|max|array|center)\b|\b(inverse_d|d|N)(x|y|z)\b|"
                 r"(?<=self\.)(x|y|z)\b")


def relabel(text, src, dst):
    def sub(m):
        s = m.group(0)
        if m.group(2) == src:
            return m.group(1) + dst + m.group(3)
        if m.group(5) == src:
            return m.group(4) + dst
        if m.group(6) == src:
            return dst
        return s
    return TOK.sub(sub, text)


def siblings(rep, init):
    stmts = [norm_src(st) for st in init.body if isinstance(st, ast.Assign)]
    sset = set(stmts)
    n = 0
    for st in init.body:
        if not isinstance(st, ast.Assign):
            continue
        t = norm_src(st)
        if relabel(t, "x", "y") == t:
            continue        # no x-axis token
        if "meshgrid" in t or "cartesian" in t or "spherical" in t:
            continue
        for dst in "yz":
            n += 1
            twin = relabel(t, "x", dst)
            rep.check(twin in sset, "axis-siblings",
                      f"{FD}::FiniteDifference.__init__::{t[:40]}->{dst}",
                      f"the {dst} counterpart of `{t[:70]}` is missing or different "
                      f"(expected `{twin[:70]}`)", node=st)
    if n < 12:
        raise AnalysisError(f"axis-siblings: only {n} x-axis statements found")


def meshgrid(rep, init):
    ok = False
    node = init
    for st in init.body:
        if isinstance(st, ast.Assign) and isinstance(st.value, ast.Call) \
                and unparse(st.value.func) == "np.meshgrid":
            node = st
            c = st.value
            args = [unparse(a) for a in c.args]
            kw = {k.arg: (k.value.value if isinstance(k.value, ast.Constant) else None)
                  for k in c.keywords}
            tg = [unparse(e) for e in st.targets[0].elts] \
                if isinstance(st.targets[0], ast.Tuple) else []
            ok = args == ["self.xarray", "self.yarray", "self.zarray"] \
                and kw.get("indexing") == "ij" and tg == ["self.x", "self.y", "self.z"]
    rep.check(ok, "meshgrid", f"{FD}::FiniteDifference.__init__::meshgrid",
              "3D coordinates must be self.x, self.y, self.z = np.meshgrid(self.xarray, "
              "self.yarray, self.zarray, indexing='ij') so that every array has shape "
              "(Nx, Ny, Nz)", node=node)
    asg = init_assigns(init)
    st = (asg.get("cartesian_coords") or [None])[0]
    rep.check(st is not None and unparse(st.value) == "np.array([self.x, self.y, self.z])",
              "meshgrid", f"{FD}::FiniteDifference.__init__::cartesian_coords",
              "cartesian_coords must stack (x, y, z) in order", node=st or init)
    # spherical
    S = rep.sources
    c2s = S.function(FD, "FiniteDifference.cartesian_to_spherical")
    ret = [s for s in c2s.body if isinstance(s, ast.Return)][-1]
    names = [unparse(e) for e in ret.value.elts] if isinstance(ret.value, ast.Tuple) else []
    st = None
    for s in init.body:
        if isinstance(s, ast.Assign) and "cartesian_to_spherical" in unparse(s.value):
            st = s
    tg = [unparse(e).replace("self.", "") for e in st.targets[0].elts] \
        if st is not None and isinstance(st.targets[0], ast.Tuple) else None
    # (which returned element is the radius / inclination / azimuth is decided by value in
    #  spherical_formulas; here: three values, unpacked into the attributes in that order)
    rep.check(len(names) == 3 and tg == ["r", "theta", "phi"] and st is not None
              and [unparse(a) for a in st.value.args] == ["self.x", "self.y", "self.z"],
              "spherical-order", f"{FD}::FiniteDifference.__init__::spherical",
              f"cartesian_to_spherical returns {names}; it is unpacked into {tg}", node=st
              or init)


def axis_index_pairing(rep):
    S = rep.sources
    n = 0
    for rel in ("core.py", "time.py", "finitedifference.py"):
        for node in ast.walk(S.module(rel)):
            # self.fd.<a...> - self.center[i]
            if isinstance(node, ast.BinOp) and isinstance(node.op, ast.Sub):
                ls, rs = unparse(node.left), unparse(node.right)
                m = re.match(r"(?:self\.)?fd\.(x|y|z)(min|max|array)?$", ls)
                m2 = re.match(r"self\.center\[(\d)\]$", rs)
                if m and m2:
                    n += 1
                    rep.check(AX.index(m.group(1)) == int(m2.group(1)), "axis-index-pairing",
                              f"{rel}::{ls} - {rs}",
                              f"`{ls} - {rs}` pairs the {m.group(1)} axis with centre "
                              f"component {m2.group(1)}", node=node)
            # shape tuples (.. Nx, .. Ny, .. Nz)
            if isinstance(node, ast.Tuple) and len(node.elts) >= 3:
                toks = []
                for e in node.elts:
                    m = re.search(r"N(x|y|z)\b", unparse(e))
                    toks.append(m.group(1) if m else None)
                letters = [t for t in toks if t]
                if len(letters) == 3 and len(set(letters)) == 3 and toks[-3:] == letters:
                    n += 1
                    rep.check(letters == list(AX), "axis-index-pairing",
                              f"{rel}::shape({norm_src(node)[:50]})",
                              f"grid shape written in order {letters}, must be x, y, z",
                              node=node)
    if n < 8:
        raise AnalysisError(f"axis-index-pairing: only {n} sites found")


def trims(rep):
    S = rep.sources
    for name, k in (("cutoffmask", 1), ("cutoffmask2", 2)):
        fn = S.function(FD, "FiniteDifference." + name)
        arg = fn.args.args[1].arg
        body = [st for st in fn.body if not (isinstance(st, ast.Expr)
                                             and isinstance(st.value, ast.Constant))]
        key = f"{FD}::FiniteDifference.{name}"
        ok = len(body) == 1 and isinstance(body[0], ast.If)
        rep.check(ok, "symmetric-trim", key + "::shape",
                  "the helper must consist of one if/elif chain on the rank of its argument "
                  "(no mode-dependent early return)", node=fn)
        if not ok:
            continue
        node = body[0]
        ranks = []
        while isinstance(node, ast.If):
            t = node.test
            r = None
            if isinstance(t, ast.Compare) and unparse(t.left) in (f"len({arg}.shape)",
                                                                  f"{arg}.ndim") \
                    and isinstance(t.ops[0], ast.Eq):
                c = const_value(t.comparators[0])
                r = int(c) if c is not None else None
            ret = node.body[0] if len(node.body) == 1 and isinstance(node.body[0], ast.Return) \
                else None
            good = False
            if r is not None and ret is not None and isinstance(ret.value, ast.Subscript) \
                    and unparse(ret.value.value) == arg:
                sl = ret.value.slice
                sls = list(sl.elts) if isinstance(sl, ast.Tuple) else [sl]
                good = len(sls) == r and all(isinstance(x, ast.Slice) for x in sls)
                for x in sls:
                    if not good:
                        break
                    lo = _mult_of_mask(x.lower)
                    hi = _mult_of_mask(x.upper)
                    good = lo == k and hi == -k and x.step is None
            ranks.append(r)
            rep.check(good, "symmetric-trim", f"{key}::rank{r}",
                      f"rank-{r} branch must return {arg}[{k}*mask_len:-{k}*mask_len] on each "
                      f"of its {r} axes", node=node)
            if len(node.orelse) == 1 and isinstance(node.orelse[0], ast.If):
                node = node.orelse[0]
            else:
                tail = [x for x in node.orelse if not isinstance(x, ast.Pass)]
                none_ret = len(tail) == 1 and isinstance(tail[0], ast.Return) and (
                    tail[0].value is None or (isinstance(tail[0].value, ast.Constant)
                                              and tail[0].value.value is None))
                rep.check(not tail or none_ret, "symmetric-trim", key + "::else",
                          "unexpected fall-through branch", node=node)
                break
        rep.check(ranks == [1, 2, 3], "symmetric-trim", key + "::ranks",
                  f"ranks handled: {ranks}", node=fn)


def _mult_of_mask(node):
    """node == c * self.mask_len  ->  c (int), else None"""
    if node is None:
        return None

    def at(n):
        return "m" if unparse(n) == "self.mask_len" else None
    try:
        p = poly_eval(node, {}, at)
    except AnalysisError:
        return None
    if set(p.m) == {("m",)}:
        c = p.m[("m",)]
        return int(c) if c.denominator == 1 else None
    return None


def spherical_formulas(rep):
    """The written form of the Cartesian -> spherical map: r = sqrt(x^2+y^2+z^2), the
    inclination is the angle from the +z axis over its full range [0, pi] (arccos(z/r) or
    arctan2(rho, z)), the azimuth sign(y) arccos(x/rho).  (The numerical round trip itself is
    trigonometry and is not decided; an inclination computed through arcsin(rho/r), which only
    covers [0, pi/2], is a different function, not a rounding matter.)"""
    from .. import symdiff
    from ..tpoly import P, asP
    S = rep.sources
    fn = S.function(FD, "FiniteDifference.cartesian_to_spherical")
    env = {a.arg: P.atom(a.arg) for a in fn.args.args[1:]}

    def ev(node):
        c = const_value(node)
        if c is not None:
            return asP(c)
        if isinstance(node, ast.Name):
            if node.id not in env:
                raise AnalysisError("cartesian_to_spherical: unbound " + node.id)
            return env[node.id]
        if isinstance(node, ast.UnaryOp) and isinstance(node.op, ast.USub):
            return -ev(node.operand)
        if isinstance(node, ast.BinOp):
            a, b = ev(node.left), ev(node.right)
            if isinstance(node.op, ast.Add):
                return a + b
            if isinstance(node.op, ast.Sub):
                return a - b
            if isinstance(node.op, ast.Mult):
                return a * b
            if isinstance(node.op, ast.Div):
                return a * b.pow(-1)
            if isinstance(node.op, ast.Pow):
                return symdiff.power(a, b)
        if isinstance(node, ast.Call):
            f = unparse(node.func)
            args = [ev(a) for a in node.args]
            if f == "maths.safe_division":
                return args[0] * args[1].pow(-1)
            if f.startswith("np."):
                return symdiff.fn_atom(f[3:], args)
        if isinstance(node, ast.Attribute) and unparse(node) == "np.pi":
            return P.atom("pi")
        raise AnalysisError("cartesian_to_spherical: expression not understood: "
                            + unparse(node)[:60])
    for st in fn.body:
        if isinstance(st, ast.Assign) and isinstance(st.targets[0], ast.Name):
            try:
                env[st.targets[0].id] = ev(st.value)
            except AnalysisError:
                if st.targets[0].id in ("r", "theta", "phi"):
                    raise
    rets = [st for st in ast.walk(fn) if isinstance(st, ast.Return)]
    if len(rets) != 1 or not isinstance(rets[0].value, ast.Tuple) \
            or len(rets[0].value.elts) != 3:
        raise AnalysisError("cartesian_to_spherical: a single `return r, theta, phi` expected")
    for nm, e in zip(("r", "theta", "phi"), rets[0].value.elts):
        env[nm] = ev(e)       # by position: the order of the returned values is the contract
    x, y, z = (P.atom(a.arg) for a in fn.args.args[1:])
    r2 = x * x + y * y + z * z
    rho2 = x * x + y * y
    key = f"{FD}::FiniteDifference.cartesian_to_spherical"
    rep.check(env.get("r") == r2.pow(Fraction(1, 2)), "spherical-formulas", key + "::r",
              f"r is {env.get('r')!r}, expected sqrt(x^2+y^2+z^2)", node=fn)
    r = r2.pow(Fraction(1, 2))
    rho = rho2.pow(Fraction(1, 2))
    ok_theta = env.get("theta") in (symdiff.fn_atom("arccos", [z * r.pow(-1)]),
                                    symdiff.fn_atom("arctan2", [rho, z]))
    rep.check(ok_theta, "spherical-formulas", key + "::theta",
              f"the inclination is {env.get('theta')!r}; it must be the angle from the +z axis "
              "over [0, pi]: arccos(z/r) (or arctan2(rho, z)); e.g. arcsin(rho/r) folds the "
              "lower hemisphere onto the upper one", node=fn)
    want_phi = symdiff.fn_atom("sign", [y]) * symdiff.fn_atom("arccos", [x * rho.pow(-1)])
    ok_phi = env.get("phi") in (want_phi, symdiff.fn_atom("arctan2", [y, x]))
    rep.check(ok_phi, "spherical-formulas", key + "::phi",
              f"the azimuth is {env.get('phi')!r}, expected sign(y) arccos(x/rho) (or "
              "arctan2(y, x))", node=fn)


def run(rep):
    rep.explanation = (
        "Structural decision of the count/position/extent/shape clauses of C16 for all "
        "parameters: the coordinate arrays are min + arange(N)*d as exact polynomials (N "
        "points, whatever the rounding of N*d), extents and sizes derive from the arrays, the "
        "three axes are treated identically, meshgrid uses 'ij', axis letters pair with indices "
        "in every consumer, the trimming helpers cut the same multiple of mask_len on both "
        "sides of every axis on their only path.  The Cartesian<->spherical round trip "
        "(trigonometry) is not decided.")
    rep.assume("mask_len >= 1 for every order (C07 dispatch rule)")
    S = rep.sources
    init = S.function(FD, "FiniteDifference.__init__")
    coordinate_arrays(rep, init)
    arange_lint(rep)
    extents(rep, init)
    siblings(rep, init)
    meshgrid(rep, init)
    axis_index_pairing(rep)
    trims(rep)
    spherical_formulas(rep)
    # ... for the lifetime of the object: no in-place sink reaches an attribute of the shared
    # FiniteDifference object outside its constructor (ownership analysis of C02, owner FD)
    from . import c02
    c02.analyse(rep, owner_filter=lambda o: o.startswith("FD"), rule="grid-immutable",
                rels=["core.py", "maths.py", "numerical.py", "finitedifference.py", "time.py"])
    rep.floor("coordinate-array", 3)
    rep.floor("extent-provenance", 9)
    rep.floor("axis-siblings", 12)
    rep.floor("symmetric-trim", 8)
