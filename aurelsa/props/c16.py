"""C16 -- the grid object describes exactly the grid the parameters specify.

Count / position / extent / shape clauses decided on a partial evaluation of
finitedifference.py (aurelsa.fdpe: the constructor and the helpers are executed on a symbolic
parameter table, so the rules read the *values* of the attributes) and on the syntax tree of
the consumers in core.py and time.py:

  coordinate-array    each coordinate array is  min_a + arange(N_a) * d_a  (exact polynomial
                      identity; count fixed by an integer, never by a float division)
  arange-count        no np.arange with a non-integer step anywhere in the package
  extent-provenance   a_max is the last element of its own coordinate array, N_a its length
                      (or the parameter), a_min the parameter
  axis-siblings       the value of every y / z attribute is the value of the x attribute under
                      x -> y, z in the names of the parameters it is built from
  meshgrid            3D coordinates from meshgrid(x, y, z, indexing='ij'), unpacked in order
  axis-index-pairing  wherever an axis-lettered fd attribute meets center[i] / a position in a
                      shape tuple, letter and index agree (x0, y1, z2)
  symmetric-trim      cutoffmask{,2} evaluated on an array of each rank: the same cut
                      k*mask_len : -k*mask_len on every axis, whatever the mode of the object
  spherical-formulas  both directions of the Cartesian <-> spherical map as closed forms over
                      function atoms (r, inclination from +z over [0, pi], azimuth; and
                      r sin cos, r sin sin, r cos with no tolerance or clipping)
  grid-immutable      no in-place sink reaches an attribute of the shared grid object
"""
from __future__ import annotations

import ast
import re
from fractions import Fraction

from ..common import AnalysisError, norm_src, unparse
from ..exact import Poly, const_value, poly_eval

LEVEL = "other"
FD = "finitedifference.py"
AX = "xyz"


# ---------------------------------------------------------------------------------------------
# The constructor is partially evaluated (aurelsa.fdpe): the rules read the *values* of the
# attributes (terms over the parameter table), however the statements are organised.
# ---------------------------------------------------------------------------------------------
from ..fdpe import FDPE, Sym, SymbolicBranch, term_to_P, to_term  # noqa: E402
from ..tensor import NeedConfig, PathEnds, Unsupported  # noqa: E402
from ..exact import Aff  # noqa: E402

PARAM = ("param", "param")


def entry(name):
    return ("idx", PARAM, (("const", name),))


def init_terms(rep):
    """attribute -> term, after FiniteDifference.__init__(param, fd_order=4)."""
    fn = rep.sources.function(FD, "FiniteDifference.__init__")
    names = [a.arg for a in fn.args.args][1:]
    rep.require(bool(names) and names[0] == "param", "__init__: (param, ...) expected")
    it = FDPE(rep.sources)
    kwargs = {n: False for n in names if n in ("verbose", "veryverbose")}
    if "fd_order" in names:
        kwargs["fd_order"] = 4
    try:
        it.call_function(fn, [Sym(PARAM)], kwargs, "__init__", True, rel=FD)
    except SymbolicBranch as e:
        raise AnalysisError(f"FiniteDifference.__init__: {e}")
    except (Unsupported, PathEnds, NeedConfig) as e:
        raise AnalysisError(f"FiniteDifference.__init__: cannot be evaluated: {e}")
    out = {}
    for k, v in it.attrs.items():
        try:
            out[k] = to_term(v)
        except Unsupported:
            out[k] = ("opaque", k)
    return fn, out


def coordinate_arrays(rep, init, T):
    for ax in AX:
        name = f"{ax}array"
        t = T.get(name)
        if t is None:
            raise AnalysisError(f"__init__: self.{name} is not assigned")
        key = f"{FD}::FiniteDifference.__init__::{name}"

        def atom(x, ax=ax):
            if x == entry(f"{ax}min"):
                return "min"
            if x == entry(f"d{ax}"):
                return "d"
            if x == entry(f"N{ax}"):
                return "N"
            if x == ("range", Aff(0), entry(f"N{ax}")):
                return "I"
            return None
        ok, why = False, ""
        if t[0] == "call" and t[1] == ("global", "np.linspace"):
            # linspace(min, min + (N-1)*d, N)
            args = [x for x in t[2] if not (isinstance(x, tuple) and x and x[0] == "kw")]
            why = "np.linspace form not recognised as min + i*d with N points"
            if len(args) >= 3 and args[2] == entry(f"N{ax}"):
                try:
                    from ..tpoly import P
                    lo = term_to_P(args[0], atom)
                    hi = term_to_P(args[1], atom)
                    ok = lo == P.atom("min") and hi == P.atom("min") + (
                        P.atom("N") - 1) * P.atom("d")
                except AnalysisError:
                    ok = False
        else:
            try:
                from ..tpoly import P
                p = term_to_P(t, atom)
                ok = p == P.atom("min") + P.atom("I") * P.atom("d")
                why = f"self.{name} = {t!r} is not {ax}min + arange(N{ax})*d{ax}"[:300]
            except AnalysisError as e:
                why = (f"self.{name}: the number of points is not fixed by the integer "
                       f"N{ax} ({e})")[:300]
        rep.check(ok, "coordinate-array", key, why, node=init)


def arange_lint(rep):
    S = rep.sources
    n = 0
    for rel in S.all_py():
        for node in ast.walk(S.module(rel)):
            if isinstance(node, ast.Call) and unparse(node.func) in ("np.arange",
                                                                    "numpy.arange"):
                n += 1
                fn = node
                while fn is not None and not isinstance(fn, ast.FunctionDef):
                    fn = getattr(fn, "_parent", None)
                key = f"{rel}::{fn.name if fn else '<module>'}::{norm_src(node)[:50]}"
                step = None
                if len(node.args) >= 3:
                    step = node.args[2]
                for k in node.keywords:
                    if k.arg == "step":
                        step = k.value
                if step is None:
                    rep.ok("arange-count", key)
                    continue
                c = const_value(step)
                rep.check(c is not None and c.denominator == 1 and c != 0, "arange-count", key,
                          f"np.arange with step `{unparse(step)}`: its length depends on the "
                          "rounding of (stop - start)/step (e.g. N=3, d=0.1 gives 4 points)",
                          node=node)
    if n < 3:
        raise AnalysisError("fewer than 3 np.arange calls found")


def extents(rep, init, T):
    for ax in AX:
        arr = T.get(f"{ax}array")
        for attr, want, what in (
                (f"{ax}max", [("idx", arr, (Aff(-1),))], "the last grid point"),
                (f"N{ax}", [("shape", arr, 0), entry(f"N{ax}"),
                            ("idx", ("shape0", arr), (Aff(0),)), ("getattr", arr, "size")],
                 "the number of grid points"),
                (f"{ax}min", [entry(f"{ax}min"), ("idx", arr, (Aff(0),))],
                 "the first grid point")):
            if attr not in T:
                raise AnalysisError(f"__init__: self.{attr} not assigned")
            rep.check(T[attr] in want, "extent-provenance",
                      f"{FD}::FiniteDifference.__init__::{attr}",
                      f"self.{attr} = {T[attr]!r} is not {what} of the coordinate array"[:300],
                      node=init)


TOK = re.compile(r"\b(i?)(x|y|z)(min|max|array|center)\b|\b(inverse_d|d|N)(x|y|z)\b|"
                 r"(?<=self\.)(x|y|z)\b")


def relabel(text, src, dst):
    def sub(m):
        s = m.group(0)
        if m.group(2) == src:
            return m.group(1) + dst + m.group(3)
        if m.group(5) == src:
            return m.group(4) + dst
        if m.group(6) == src:
            return dst
        return s
    return TOK.sub(sub, text)


def relabel_term(t, src, dst):
    if isinstance(t, str):
        return relabel(t, src, dst)
    if isinstance(t, tuple):
        return tuple(relabel_term(x, src, dst) for x in t)
    return t


def _mentions(t, words):
    if isinstance(t, str):
        return any(w in t for w in words)
    if isinstance(t, tuple):
        return any(_mentions(x, words) for x in t)
    return False


def siblings(rep, init, T):
    """The three axes are treated identically: the value of every x-attribute, with x
    replaced by y (z) in the names of the parameters it is built from, is the value of the
    y (z) attribute."""
    n = 0
    for name, t in sorted(T.items()):
        if relabel("self." + name, "x", "y") == "self." + name:
            continue        # no x-axis token in the attribute name
        if _mentions(t, ("meshgrid", "cartesian", "spherical")):
            continue
        for dst in "yz":
            n += 1
            other = relabel("self." + name, "x", dst)[5:]
            want = relabel_term(t, "x", dst)
            rep.check(T.get(other) == want, "axis-siblings",
                      f"{FD}::FiniteDifference.__init__::{name}->{dst}",
                      f"self.{other} is not the {dst} counterpart of self.{name}: "
                      f"{T.get(other)!r} instead of {want!r}"[:400], node=init)
    if n < 12:
        raise AnalysisError(f"axis-siblings: only {n} x-axis attributes found")


def meshgrid(rep, init, T):
    arrs = tuple(T.get(f"{ax}array") for ax in AX)
    M = ("call", ("global", "np.meshgrid"), arrs + (("kw", "indexing", ("const", "ij")),))
    ok = all(T.get(ax) == ("idx", M, (Aff(k),)) for k, ax in enumerate(AX))
    rep.check(ok, "meshgrid", f"{FD}::FiniteDifference.__init__::meshgrid",
              "3D coordinates must be self.x, self.y, self.z = np.meshgrid(self.xarray, "
              "self.yarray, self.zarray, indexing='ij') so that every array has shape "
              f"(Nx, Ny, Nz); self.x = {T.get('x')!r}"[:400], node=init)
    xyz = tuple(T.get(ax) for ax in AX)
    rep.check(T.get("cartesian_coords") == ("arr", ("tuple", xyz)),
              "meshgrid", f"{FD}::FiniteDifference.__init__::cartesian_coords",
              "cartesian_coords must stack (x, y, z) in order", node=init)
    # spherical: three values, computed from (x, y, z), unpacked into r, theta, phi in that
    # order (which returned element is the radius / inclination / azimuth is decided by value
    # in spherical_formulas)
    call = ("mcall", "cartesian_to_spherical", xyz)
    got = [T.get(nm) for nm in ("r", "theta", "phi")]
    rep.check(got == [("idx", call, (Aff(k),)) for k in range(3)],
              "spherical-order", f"{FD}::FiniteDifference.__init__::spherical",
              "self.r, self.theta, self.phi must be the three values returned by "
              f"cartesian_to_spherical(self.x, self.y, self.z), in that order; got {got!r}"[:400],
              node=init)


def axis_index_pairing(rep):
    S = rep.sources
    n = 0
    for rel in ("core.py", "time.py", "finitedifference.py"):
        for node in ast.walk(S.module(rel)):
            # self.fd.<a...> - self.center[i]
            if isinstance(node, ast.BinOp) and isinstance(node.op, ast.Sub):
                ls, rs = unparse(node.left), unparse(node.right)
                m = re.match(r"(?:self\.)?fd\.(x|y|z)(min|max|array)?$", ls)
                m2 = re.match(r"self\.center\[(\d)\]$", rs)
                if m and m2:
                    n += 1
                    rep.check(AX.index(m.group(1)) == int(m2.group(1)), "axis-index-pairing",
                              f"{rel}::{ls} - {rs}",
                              f"`{ls} - {rs}` pairs the {m.group(1)} axis with centre "
                              f"component {m2.group(1)}", node=node)
            # shape tuples (.. Nx, .. Ny, .. Nz)
            if isinstance(node, ast.Tuple) and len(node.elts) >= 3:
                toks = []
                for e in node.elts:
                    m = re.search(r"N(x|y|z)\b", unparse(e))
                    toks.append(m.group(1) if m else None)
                letters = [t for t in toks if t]
                if len(letters) == 3 and len(set(letters)) == 3 and toks[-3:] == letters:
                    n += 1
                    rep.check(letters == list(AX), "axis-index-pairing",
                              f"{rel}::shape({norm_src(node)[:50]})",
                              f"grid shape written in order {letters}, must be x, y, z",
                              node=node)
    # (a count of hand-written pairings: a refactoring that builds them in a loop over the axes
    #  legitimately has fewer; only their complete disappearance is suspicious)
    if n < 3:
        raise AnalysisError(f"axis-index-pairing: only {n} sites found")


def trims(rep):
    """cutoffmask{,2} are evaluated on an array of each rank: the result must be the argument
    cut by k*mask_len on both sides of every axis, whatever the mode of the object."""
    S = rep.sources
    m = Aff.sym("m")
    for name, k in (("cutoffmask", 1), ("cutoffmask2", 2)):
        fn = S.function(FD, "FiniteDifference." + name)
        arg = fn.args.args[1].arg
        key = f"{FD}::FiniteDifference.{name}"
        F = ("param", arg)
        handled = []
        shape_ok = True
        for r in (1, 2, 3, 4, 0):
            it = FDPE(S, attrs={"mask_len": m, "verbose": False})
            it.ranks[F] = r
            why = ""
            v = None
            try:
                v = it.run("FiniteDifference." + name, [Sym(F)])
            except SymbolicBranch as e:
                why = str(e)
            except NeedConfig as q:
                why = f"the path taken depends on self.{q.q}"
            except PathEnds as e:
                why = f"raises: {e}"
            except Unsupported as e:
                raise AnalysisError(f"{name}: cannot be evaluated: {e}")
            if why:
                shape_ok = False
                rep.violation("symmetric-trim", key + "::shape",
                              f"the helper must only depend on the rank of its argument: {why}",
                              node=fn)
                break
            t = to_term(v) if v is not None else None
            if r not in (1, 2, 3):
                rep.check(t is None or t == ("const", None), "symmetric-trim", key + "::else",
                          f"unexpected result for an array of rank {r}: {t!r}"[:300], node=fn)
                continue
            cuts = None
            if t is not None and t[0] == "slice" and t[1] == F and t[4] == 1:
                cuts = [(t[2], t[3])]
            elif t is not None and t[0] == "idx" and t[1] == F and all(
                    isinstance(x, tuple) and x and x[0] == "sliceobj" and x[3] is None
                    for x in t[2]):
                cuts = [(x[1], x[2]) for x in t[2]]
            good = cuts is not None and len(cuts) == r and all(
                lo == m.scale(k) and hi == m.scale(-k) for lo, hi in cuts)
            if t is not None:
                handled.append(r)
            rep.check(good, "symmetric-trim", f"{key}::rank{r}",
                      f"for a rank-{r} array the helper must return {arg}[{k}*mask_len:"
                      f"-{k}*mask_len] on each of its {r} axes; got {t!r}"[:400], node=fn)
        if shape_ok:
            rep.ok("symmetric-trim", key + "::shape")
            rep.check(handled == [1, 2, 3], "symmetric-trim", key + "::ranks",
                      f"ranks handled: {handled}", node=fn)


def spherical_formulas(rep):
    """The Cartesian -> spherical map, by value: r = sqrt(x^2+y^2+z^2), the inclination is
    the angle from the +z axis over its full range [0, pi] (arccos(z/r) or arctan2(rho, z)),
    the azimuth sign(y) arccos(x/rho).  (The numerical round trip itself is trigonometry and
    is not decided; an inclination computed through arcsin(rho/r), which only covers
    [0, pi/2], is a different function, not a rounding matter.)"""
    from .. import symdiff
    from ..tpoly import P
    S = rep.sources
    fn = S.function(FD, "FiniteDifference.cartesian_to_spherical")
    names = [a.arg for a in fn.args.args[1:]]
    rep.require(len(names) == 3, "cartesian_to_spherical: (x, y, z) expected")
    it = FDPE(S, attrs={"verbose": False})
    try:
        v = it.run("FiniteDifference.cartesian_to_spherical",
                   [Sym(("param", n)) for n in names])
    except (SymbolicBranch, NeedConfig, Unsupported, PathEnds) as e:
        raise AnalysisError(f"cartesian_to_spherical: cannot be evaluated: {e}")
    if not isinstance(v, (tuple, list)) or len(v) != 3:
        raise AnalysisError("cartesian_to_spherical: three returned values expected")

    def atom(t):
        if isinstance(t, tuple) and len(t) == 2 and t[0] == "param" and t[1] in names:
            return "xyz"[names.index(t[1])]
        return None
    env = {}
    for nm, e in zip(("r", "theta", "phi"), v):
        # by position: the order of the returned values is the contract
        t = to_term(e)
        while t[0] == "masked":
            t = t[1]          # fix-ups on the half-line y = 0, x < 0 (a set of measure zero)
        env[nm] = term_to_P(t, atom)
    x, y, z = P.atom("x"), P.atom("y"), P.atom("z")
    r2 = x * x + y * y + z * z
    rho2 = x * x + y * y
    key = f"{FD}::FiniteDifference.cartesian_to_spherical"
    rep.check(env.get("r") == r2.pow(Fraction(1, 2)), "spherical-formulas", key + "::r",
              f"r is {env.get('r')!r}, expected sqrt(x^2+y^2+z^2)", node=fn)
    r = r2.pow(Fraction(1, 2))
    rho = rho2.pow(Fraction(1, 2))
    ok_theta = env.get("theta") in (symdiff.fn_atom("arccos", [z * r.pow(-1)]),
                                    symdiff.fn_atom("arctan2", [rho, z]))
    rep.check(ok_theta, "spherical-formulas", key + "::theta",
              f"the inclination is {env.get('theta')!r}; it must be the angle from the +z axis "
              "over [0, pi]: arccos(z/r) (or arctan2(rho, z)); e.g. arcsin(rho/r) folds the "
              "lower hemisphere onto the upper one", node=fn)
    want_phi = symdiff.fn_atom("sign", [y]) * symdiff.fn_atom("arccos", [x * rho.pow(-1)])
    ok_phi = env.get("phi") in (want_phi, symdiff.fn_atom("arctan2", [y, x]))
    rep.check(ok_phi, "spherical-formulas", key + "::phi",
              f"the azimuth is {env.get('phi')!r}, expected sign(y) arccos(x/rho) (or "
              "arctan2(y, x))", node=fn)


def spherical_inverse(rep):
    """The spherical -> Cartesian map, by value: x = r sin(theta) cos(phi),
    y = r sin(theta) sin(phi), z = r cos(theta), and nothing else (no clipping, rounding or
    tolerance: the map is scale-free, so an absolute tolerance breaks the round trip for small
    coordinates).  With spherical_formulas this is the written form of both directions; that
    their composition is the identity is trigonometry and is not decided."""
    from .. import symdiff
    from ..tpoly import P
    S = rep.sources
    fn = S.function(FD, "FiniteDifference.spherical_to_cartesian")
    names = [a.arg for a in fn.args.args[1:]]
    rep.require(len(names) == 3, "spherical_to_cartesian: (r, theta, phi) expected")
    it = FDPE(S, attrs={"verbose": False})
    key = f"{FD}::FiniteDifference.spherical_to_cartesian"
    try:
        v = it.run("FiniteDifference.spherical_to_cartesian",
                   [Sym(("param", n)) for n in names])
    except (SymbolicBranch, NeedConfig) as e:
        rep.violation("spherical-formulas", key + "::branch-free",
                      f"the conversion depends on a test of its data or of the object: {e}",
                      node=fn)
        return
    except (Unsupported, PathEnds) as e:
        raise AnalysisError(f"spherical_to_cartesian: cannot be evaluated: {e}")
    if isinstance(v, Sym) and v.t[0] in ("list", "tuple"):
        v = None
    if not isinstance(v, (tuple, list)) or len(v) != 3:
        raise AnalysisError("spherical_to_cartesian: three returned values expected")

    def atom(t):
        if isinstance(t, tuple) and len(t) == 2 and t[0] == "param" and t[1] in names:
            return ("r", "theta", "phi")[names.index(t[1])]
        return None
    r, th, ph = P.atom("r"), P.atom("theta"), P.atom("phi")
    sin, cos = (lambda a: symdiff.fn_atom("sin", [a])), (lambda a: symdiff.fn_atom("cos", [a]))
    want = {"x": r * sin(th) * cos(ph), "y": r * sin(th) * sin(ph), "z": r * cos(th)}
    for nm, e in zip("xyz", v):
        try:
            got = term_to_P(to_term(e), atom)
        except (AnalysisError, Unsupported) as exc:
            got = None
            why = str(exc)
        rep.check(got is not None and got == want[nm], "spherical-formulas", f"{key}::{nm}",
                  f"{nm} is {got!r}" if got is not None else f"{nm} is not a closed form of "
                  f"(r, theta, phi): {why}"[:300], node=fn)


def trim_width(rep):
    """The width the trimming helpers cut (mask_len) is the reach of the centred stencil the
    constructor installed, for every order it accepts -- the supported ones and those it
    normalises to a default.  Constructor executed by the partial evaluator, stencil reach
    from the extracted linear form."""
    from . import c07
    from ..tensor import _Closure
    fns = rep.sources.functions(c07.FD)
    for order in list(c07.ORDERS) + list(c07.UNSUPPORTED_ORDERS):
        fn, attrs = c07.init_state(rep, order)
        cen = attrs.get("centered")
        if not isinstance(cen, _Closure) or cen.name not in fns:
            raise AnalysisError(f"FiniteDifference(fd_order={order}): the centred stencil "
                                f"installed ({cen!r}) is not a function of the module")
        lin = c07.extract_stencil(rep, fns[cen.name])
        half = max(abs(k) for k in lin.w)
        m = attrs.get("mask_len")
        rep.check(isinstance(m, int) and not isinstance(m, bool) and m == half, "trim-width",
                  f"{c07.FD}::FiniteDifference.__init__::mask_len(fd_order={order})",
                  f"constructed with fd_order={order} the object uses {cen.name} (reach {half} "
                  f"points) but mask_len is {m!r}: cutoffmask/cutoffmask2 do not remove the "
                  "stencil half-width", node=fn)


def run(rep):
    rep.explanation = (
        "Structural decision of the count/position/extent/shape clauses of C16 for all "
        "parameters: the coordinate arrays are min + arange(N)*d as exact polynomials (N "
        "points, whatever the rounding of N*d), extents and sizes derive from the arrays, the "
        "three axes are treated identically, meshgrid uses 'ij', axis letters pair with indices "
        "in every consumer, the trimming helpers cut the same multiple of mask_len on both "
        "sides of every axis on their only path.  The Cartesian<->spherical round trip "
        "(trigonometry) is not decided.")
    S = rep.sources
    init, T = init_terms(rep)
    coordinate_arrays(rep, init, T)
    arange_lint(rep)
    extents(rep, init, T)
    siblings(rep, init, T)
    meshgrid(rep, init, T)
    axis_index_pairing(rep)
    trims(rep)
    trim_width(rep)
    spherical_formulas(rep)
    spherical_inverse(rep)
    # ... for the lifetime of the object: no in-place sink reaches an attribute of the shared
    # FiniteDifference object outside its constructor (ownership analysis of C02, owner FD)
    from . import c02
    c02.analyse(rep, owner_filter=lambda o: o.startswith("FD"), rule="grid-immutable",
                rels=["core.py", "maths.py", "numerical.py", "finitedifference.py", "time.py"])
    rep.floor("coordinate-array", 3)
    rep.floor("extent-provenance", 9)
    rep.floor("axis-siblings", 12)
    rep.floor("symmetric-trim", 8)
    rep.floor("trim-width", 7)
