"""C17 -- bundled analytic spacetimes: the clauses visible in the shape of the code.

Decided statically:
  two-forms-agree   every function with an `analytical` switch is evaluated symbolically under
                    both values of the switch (numpy and sympy spelling mapped onto the same
                    atoms; module functions inlined) and the two results must be the same
                    exact polynomial, entry by entry
  component-axes    in the perturbed-FLRW initial data every component named ..ab is built
                    from the second derivative along exactly the axes a and b, and the
                    components are each other's images under relabelling of the axes
  static-K          with zero shift, a solution whose spatial metric does not depend on t has
                    K = 0, and one whose metric depends on t does not return zeros
  K-from-metric     K_ij = -(1/(2 alpha)) d_t gamma_ij (zero shift) on exact normal forms after
                    *syntactic* differentiation of the module's own gammadown3 (chain, product
                    and power rules on the expression tree; nothing is evaluated), with two
                    declared facts about functions written elsewhere in the modules
NOT decided: Einstein's equations for the matter content and the published closed-form scalars
-- these need second derivatives, inverse metrics and algebraic simplification of
transcendental expressions, which is computer algebra, not static analysis.
"""
from __future__ import annotations

import ast
import re
from fractions import Fraction

from ..common import AnalysisError, norm_src, unparse
from ..exact import const_value
from .. import symdiff
from ..tpoly import P, asP

LEVEL = "other"
SOL = "solutions"
LIBS = {"np", "sp", "sc", "pac", "maths"}


class Unsup(Exception):
    pass


class SolEval:
    def __init__(self, sources, rel, analytical):
        self.S = sources
        self.rel = rel
        self.analytical = analytical
        self.tree = sources.module(rel)
        self.fns = {n.name: n for n in self.tree.body if isinstance(n, ast.FunctionDef)}
        self.consts = {n.targets[0].id: n.value for n in self.tree.body
                       if isinstance(n, ast.Assign) and isinstance(n.targets[0], ast.Name)}
        self._cval = {}
        self.overrides = {}      # function name -> value returned instead of interpreting it
        self.imports = {}
        for n in self.tree.body:
            if isinstance(n, ast.ImportFrom) and n.level == 1 and n.module is None:
                for a in n.names:
                    self.imports[a.asname or a.name] = a.name
        self.depth = 0

    def call(self, fname, args, kwargs):
        fn = self.fns[fname]
        if self.depth > 8:
            raise Unsup("depth")
        params = [a.arg for a in fn.args.args]
        env = {}
        defaults = fn.args.defaults
        for i, p in enumerate(params):
            if i < len(args):
                env[p] = args[i]
            elif p in kwargs:
                env[p] = kwargs[p]
            else:
                di = i - (len(params) - len(defaults))
                if di < 0:
                    raise Unsup(f"missing argument {p}")
                env[p] = self.ev(defaults[di], {})
        self.depth += 1
        try:
            return self.block(fn.body, env)
        finally:
            self.depth -= 1

    def block(self, stmts, env):
        for st in stmts:
            if isinstance(st, ast.Expr) and isinstance(st.value, ast.Constant):
                continue
            if isinstance(st, ast.Return):
                return ("ret", self.ev(st.value, env))
            if isinstance(st, ast.Assign):
                v = self.ev(st.value, env)
                self.bind(st.targets[0], v, env)
                continue
            if isinstance(st, ast.AugAssign) and isinstance(st.target, ast.Name):
                cur = env[st.target.id]
                env[st.target.id] = self.binop(st.op, cur, self.ev(st.value, env))
                continue
            if isinstance(st, ast.AugAssign) and isinstance(st.target, ast.Subscript) \
                    and isinstance(st.target.value, ast.Name):
                base = env[st.target.value.id]
                sl = st.target.slice
                idxs = [int(const_value(i)) for i in (sl.elts if isinstance(sl, ast.Tuple)
                                                     else [sl])]
                import copy
                base = copy.deepcopy(base) if isinstance(base, list) else base
                cur = base
                for i in idxs[:-1]:
                    cur = cur[i]
                cur[idxs[-1]] = self.binop(st.op, cur[idxs[-1]], self.ev(st.value, env))
                env[st.target.value.id] = base
                continue
            if isinstance(st, ast.If):
                c = self.ev(st.test, env)
                if not isinstance(c, bool):
                    raise Unsup("branch on a non-constant")
                r = self.block(st.body if c else st.orelse, env)
                if r is not None:
                    return r
                continue
            if isinstance(st, ast.For) and not st.orelse:
                it = self.ev(st.iter, env)
                if not isinstance(it, (list, tuple, range)) or len(it) > 256:
                    raise Unsup("loop over a non-sequence")
                for x in it:
                    self.bind(st.target, x, env)
                    r = self.block(st.body, env)
                    if r is not None:
                        return r
                continue
            if isinstance(st, ast.Pass):
                continue
            raise Unsup("statement " + type(st).__name__)
        return None

    def bind(self, target, value, env):
        if isinstance(target, ast.Name):
            env[target.id] = value
        elif isinstance(target, (ast.Tuple, ast.List)):
            if not isinstance(value, (tuple, list)) or len(value) != len(target.elts):
                raise Unsup("unpack")
            for t, v in zip(target.elts, value):
                self.bind(t, v, env)
        elif isinstance(target, ast.Subscript):
            base = self.ev(target.value, env)
            k = self.key(self.ev(target.slice, env))
            if isinstance(base, dict):
                base[k] = value
            elif isinstance(base, list) and isinstance(k, int):
                base[k] = value
            else:
                raise Unsup("store target")
        else:
            raise Unsup("assignment target")

    @staticmethod
    def key(v):
        """python value of an index: integers for constant polynomials, tuples of those"""
        if isinstance(v, P):
            if v.is_const() and v.cval().denominator == 1:
                return int(v.cval())
            raise Unsup("symbolic index")
        if isinstance(v, (list, tuple)):
            return tuple(SolEval.key(x) for x in v)
        if isinstance(v, (int, str)):
            return v
        raise Unsup("index")

    # ---------------------------------------------------------------------------------------
    def ev(self, node, env):
        c = const_value(node)
        if c is not None and not isinstance(node, ast.Name):
            return asP(c)
        if isinstance(node, ast.Constant):
            return node.value
        if isinstance(node, ast.Name):
            if node.id in env:
                return env[node.id]
            if node.id in LIBS or node.id in self.imports:
                return ("lib", node.id)
            if node.id in self.consts:
                if node.id not in self._cval:
                    self._cval[node.id] = P.atom("const:" + node.id)   # recursion guard
                    try:
                        v = self.ev(self.consts[node.id], {})
                        if isinstance(v, (P, list, tuple, dict)):
                            self._cval[node.id] = v
                    except Unsup:
                        pass
                return self._cval[node.id]
            if node.id in ("range", "len", "min", "max", "tuple", "list", "enumerate", "zip",
                           "dict", "int", "float", "abs"):
                return ("builtin", node.id)
            if node.id in self.fns:
                return ("fn", node.id)
            raise Unsup("name " + node.id)
        if isinstance(node, ast.Dict):
            return {self.key(self.ev(k, env)): self.ev(v, env)
                    for k, v in zip(node.keys, node.values)}
        if isinstance(node, (ast.ListComp, ast.GeneratorExp)):
            out = []

            def rec(k, sub):
                if k == len(node.generators):
                    out.append(self.ev(node.elt, sub))
                    return
                g = node.generators[k]
                it = self.ev(g.iter, sub)
                if not isinstance(it, (list, tuple, range)) or len(it) > 256:
                    raise Unsup("comprehension over a non-sequence")
                for x in it:
                    sub2 = dict(sub)
                    self.bind(g.target, x if not isinstance(x, int) else asP(x), sub2)
                    ok = True
                    for c_ in g.ifs:
                        t = self.ev(c_, sub2)
                        if not isinstance(t, bool):
                            raise Unsup("filter on a non-constant")
                        ok = ok and t
                    if ok:
                        rec(k + 1, sub2)
            rec(0, dict(env))
            return out
        if isinstance(node, ast.Compare) and len(node.ops) == 1:
            a = self.ev(node.left, env)
            b = self.ev(node.comparators[0], env)
            try:
                a, b = self.key(a), self.key(b)
            except Unsup:
                raise Unsup("comparison of non-constants")
            op = node.ops[0]
            if isinstance(op, ast.Eq):
                return a == b
            if isinstance(op, ast.NotEq):
                return a != b
            if isinstance(op, ast.Lt):
                return a < b
            if isinstance(op, ast.LtE):
                return a <= b
            if isinstance(op, ast.Gt):
                return a > b
            if isinstance(op, ast.GtE):
                return a >= b
            raise Unsup("comparison")
        if isinstance(node, (ast.Tuple, ast.List)):
            return [self.ev(e, env) for e in node.elts]
        if isinstance(node, ast.UnaryOp):
            v = self.ev(node.operand, env)
            if isinstance(node.op, ast.USub):
                return self.neg(v)
            if isinstance(node.op, ast.Not):
                return not v
            return v
        if isinstance(node, ast.BinOp):
            return self.binop(node.op, self.ev(node.left, env), self.ev(node.right, env))
        if isinstance(node, ast.Attribute):
            base = self.ev(node.value, env)
            if isinstance(base, P) and len(base.atoms()) == 1 and base == P.atom(
                    next(iter(base.atoms()))):
                # attribute of an opaque object handed in (sol.a, fd.d3x): a function symbol
                return ("meth", next(iter(base.atoms())) + "." + node.attr)
            if isinstance(base, tuple) and base and base[0] == "lib":
                if node.attr == "pi":
                    return P.atom("pi")
                if base[1] in self.imports:
                    other = self.sibling(base[1])
                    if node.attr in other.consts:
                        return other.ev(ast.Name(id=node.attr, ctx=ast.Load()), {})
                    return P.atom(f"const:{base[1]}.{node.attr}")
                return ("libfn", node.attr)
            raise Unsup("attribute " + unparse(node))
        if isinstance(node, ast.Subscript):
            base = self.ev(node.value, env)
            idx = node.slice
            idxs = idx.elts if isinstance(idx, ast.Tuple) else [idx]
            if isinstance(base, dict):
                k = self.key(self.ev(idx, env))
                if k not in base:
                    raise Unsup(f"key {k!r}")
                return base[k]
            for i in idxs:
                c = const_value(i)
                if c is None:
                    try:
                        c = self.key(self.ev(i, env))
                    except Unsup:
                        c = None
                if c is None or not isinstance(base, (list, tuple)) or isinstance(c, tuple):
                    raise Unsup("subscript")
                base = base[int(c)]
            return base
        if isinstance(node, ast.Call):
            return self.ev_call(node, env)
        if isinstance(node, ast.Compare):
            raise Unsup("comparison")
        raise Unsup("expression " + type(node).__name__)

    def sibling(self, lib):
        key = "_sib_" + lib
        if not hasattr(self, key):
            o = SolEval(self.S, f"{SOL}/{self.imports[lib]}.py", self.analytical)
            o.overrides = {k[len(lib) + 1:]: v for k, v in self.overrides.items()
                           if k.startswith(lib + ".")}
            setattr(self, key, o)
        return getattr(self, key)

    def neg(self, v):
        if isinstance(v, list):
            return [self.neg(x) for x in v]
        return -asP(v)

    def binop(self, op, a, b):
        if isinstance(a, list) or isinstance(b, list):
            if isinstance(a, list) and isinstance(b, list):
                if len(a) != len(b):
                    raise Unsup("shape")
                return [self.binop(op, x, y) for x, y in zip(a, b)]
            if isinstance(a, list):
                return [self.binop(op, x, b) for x in a]
            return [self.binop(op, a, y) for y in b]
        a, b = asP(a), asP(b)
        if isinstance(op, ast.Add):
            return a + b
        if isinstance(op, ast.Sub):
            return a - b
        if isinstance(op, ast.Mult):
            return a * b
        if isinstance(op, ast.Div):
            return a * b.pow(-1)
        if isinstance(op, ast.Pow):
            return symdiff.power(a, b)
        raise Unsup("operator")

    def fn_atom(self, name, args):
        if any(isinstance(a, list) for a in args):
            if name in ("sqrt", "exp", "sin", "cos", "sinh", "cosh", "log", "abs") \
                    and len(args) == 1:
                return [self.fn_atom(name, [x]) for x in args[0]]
            raise Unsup("function of an array")
        return symdiff.fn_atom(name, args)

    def ev_call(self, node, env):
        f = node.func
        fsrc = unparse(f)
        args = [self.ev(a, env) for a in node.args]
        kwargs = {k.arg: self.ev(k.value, env) for k in node.keywords if k.arg}
        if not (isinstance(f, ast.Name) and (f.id in self.overrides or f.id in self.fns)) \
                and not (isinstance(f, ast.Attribute) and isinstance(f.value, ast.Name)
                         and (f.value.id in LIBS or f.value.id in self.imports)):
            fv = self.ev(f, env)
            if isinstance(fv, tuple) and fv and fv[0] == "meth":
                return self.fn_atom(fv[1], args)
            if isinstance(fv, tuple) and fv and fv[0] == "fn":
                r = self.call(fv[1], args, kwargs)
                return r[1] if r else None
            if isinstance(fv, tuple) and fv and fv[0] == "builtin":
                name = fv[1]
                if name == "range":
                    return [asP(i) for i in range(*[self.key(a) for a in args])]
                if name == "len":
                    return asP(len(args[0]))
                if name in ("min", "max"):
                    vals = [self.key(a) for a in (args[0] if len(args) == 1 else args)]
                    return asP(min(vals) if name == "min" else max(vals))
                if name in ("tuple", "list"):
                    return list(args[0])
                if name == "enumerate":
                    return [[asP(i), x] for i, x in enumerate(args[0])]
                if name == "zip":
                    return [list(t) for t in zip(*args)]
                if name == "dict" and not args:
                    return dict(kwargs)
                if name in ("int", "float"):
                    return args[0]
                if name == "abs":
                    return self.fn_atom("abs", args)
                raise Unsup("builtin " + name)
        if isinstance(f, ast.Name) and f.id in self.overrides:
            return self.overrides[f.id]
        if isinstance(f, ast.Name) and f.id in self.fns:
            r = self.call(f.id, args, kwargs)
            return r[1] if r else None
        if isinstance(f, ast.Attribute):
            base = self.ev(f.value, env)
            if isinstance(base, tuple) and base[0] == "lib":
                lib, name = base[1], f.attr
                if lib in self.imports:
                    # function of a sibling solution module
                    other = self.sibling(lib)
                    if name in other.overrides:
                        return other.overrides[name]
                    if name not in other.fns:
                        raise Unsup("sibling function " + fsrc)
                    r = other.call(name, args, kwargs)
                    return r[1] if r else None
                if name in ("array", "Matrix"):
                    return args[0]
                if name in ("ones", "ones_like"):
                    return P.const(1)
                if name in ("zeros", "zeros_like"):
                    return P()
                if name == "shape":
                    return None
                if name == "safe_division":
                    return self.binop(ast.Div(), args[0], args[1])
                if name == "hyper":
                    return self.fn_atom("hyp2f1", list(args[0]) + list(args[1]) + [args[2]])
                if name == "hyp2f1":
                    return self.fn_atom("hyp2f1", args)
                if name == "einsum":
                    spec = args[0] if args and isinstance(args[0], str) else ""
                    m = re.fullmatch(r"(\w)\.\.\.,(\w)\.\.\.->(\w)(\w)\.\.\.",
                                     spec.replace(" ", ""))
                    if m and len(args) == 3 and isinstance(args[1], list) \
                            and isinstance(args[2], list) and {m.group(3), m.group(4)} == \
                            {m.group(1), m.group(2)} and m.group(1) != m.group(2):
                        u, v = args[1], args[2]
                        if m.group(3) == m.group(1):
                            return [[asP(x) * asP(y) for y in v] for x in u]
                        return [[asP(x) * asP(y) for x in u] for y in v]
                    raise Unsup("einsum")
                return self.fn_atom(name, args)
        raise Unsup("call " + fsrc)


def flatten(v, prefix=()):
    if isinstance(v, (list, tuple)):
        for i, x in enumerate(v):
            yield from flatten(x, prefix + (i,))
    else:
        yield prefix, v


def two_forms(rep):
    S = rep.sources
    n = 0
    for rel in S.all_py():
        if not rel.startswith(SOL + "/") or rel.endswith("__init__.py"):
            continue
        tree = S.module(rel)
        for fn in [x for x in tree.body if isinstance(x, ast.FunctionDef)]:
            params = [a.arg for a in fn.args.args]
            if "analytical" not in params:
                continue
            n += 1
            key = f"{rel}::{fn.name}"
            res = {}
            err = None
            for flag in (True, False):
                ev = SolEval(S, rel, flag)
                env_args = [P.atom(p) for p in params if p != "analytical"]
                try:
                    r = ev.call(fn.name, env_args, {"analytical": flag})
                    res[flag] = r[1] if r else None
                except Unsup as e:
                    err = str(e)
            if err:
                rep.unverified("two-forms-agree", key, "not interpreted: " + err)
                continue
            a = dict(flatten(res[True]))
            b = dict(flatten(res[False]))
            bad = [k for k in sorted(set(a) | set(b), key=str)
                   if k not in a or k not in b or asP(a[k]) != asP(b[k])]
            detail = ""
            if bad:
                k0 = bad[0]
                detail = (f"entry {list(k0)}: symbolic {a.get(k0)!r} vs numerical "
                          f"{b.get(k0)!r}")[:300]
            rep.check(not bad, "two-forms-agree", key,
                      f"the symbolic and the numerical form differ in {len(bad)} entr"
                      f"{'y' if len(bad) == 1 else 'ies'}: {detail}", node=fn, file=rel,
                      detail={"entries": len(a)})
    if n < 15:
        raise AnalysisError(f"only {n} functions with an `analytical` switch found")


def component_axes(rep):
    """Position-based, on values: the function is evaluated (helpers, loops and tables
    executed; sol.*, fd.d3* kept as function symbols); entry (i, j) of the returned 3x3 array
    must contain the second derivative of the perturbation along exactly the axes (i, j) --
    and nothing else distinguishes it from the other diagonal (resp. off-diagonal) entries:
    replacing d_a d_b by one symbol makes all diagonal entries one polynomial and all
    off-diagonal entries another; the matrix is symmetric."""
    S = rep.sources
    rel = f"{SOL}/ICPertFLRW.py"
    dd_rx = re.compile(r"^fd\.d3([xyz])\(fd\.d3([xyz])\((.*)\)\)$")
    for q in ("gammadown3", "Kdown3"):
        fn = S.function(rel, q)
        params = [a.arg for a in fn.args.args]
        ev = SolEval(S, rel, False)
        try:
            r = ev.call(q, [P.atom(p_) for p_ in params], {})
        except Unsup as e:
            raise AnalysisError(f"{rel}::{q}: cannot be evaluated: {e}")
        mat = r[1] if r else None
        if not (isinstance(mat, list) and len(mat) == 3
                and all(isinstance(row, list) and len(row) == 3 for row in mat)):
            raise AnalysisError(f"{rel}::{q}: the returned 3x3 array was not found")
        vals = {}
        shapes = {"diag": set(), "off": set()}
        for i, a in enumerate("xyz"):
            for j, b in enumerate("xyz"):
                e = asP(mat[i][j])
                dd = []
                for at in sorted(e.atoms()):
                    m = dd_rx.match(at)
                    if m:
                        dd.append((m.group(1), m.group(2), at))
                ok = len(dd) == 1 and sorted(dd[0][:2]) == sorted((a, b))
                rep.check(ok, "component-axes", f"{rel}::{q}::[{a}{b}]",
                          f"entry ({a}, {b}) is built from the second derivative along "
                          f"{[d[:2] for d in dd]}, it must be along ({a}, {b})", node=fn,
                          file=rel)
                # the same formula up to the axes: evaluate with d_a d_b -> DD
                v = e.subs({d[2]: P.atom("DD") for d in dd}) if dd else None
                if v is not None and any(x.startswith("fd.d3") for x in v.atoms()):
                    v = None
                vals[(i, j)] = v
                shapes["diag" if i == j else "off"].add(v)
        rep.check(all(len(v) == 1 and None not in v for v in shapes.values()), "component-axes",
                  f"{rel}::{q}::siblings",
                  "the diagonal (resp. off-diagonal) entries are not the same formula "
                  "under relabelling of the axes", node=fn, file=rel)
        sym = all(asP(mat[i][j]) == asP(mat[j][i]) or (
            vals[(i, j)] is not None and vals[(i, j)] == vals[(j, i)])
            for i in range(3) for j in range(3))
        rep.check(sym, "component-axes", f"{rel}::{q}::assembly",
                  "the matrix must be assembled symmetrically in (x, y, z) order",
                  node=fn, file=rel)


def static_k(rep):
    S = rep.sources
    n = 0
    for rel in S.all_py():
        if not rel.startswith(SOL + "/") or rel.endswith("__init__.py"):
            continue
        fns = {x.name: x for x in S.module(rel).body if isinstance(x, ast.FunctionDef)}
        if "gammadown3" not in fns or "Kdown3" not in fns:
            continue
        if [a.arg for a in fns["gammadown3"].args.args][:1] != ["t"]:
            continue
        if "betaup3" in fns and "np.zeros" not in unparse(fns["betaup3"]):
            continue
        ev = SolEval(S, rel, False)
        try:
            g = ev.call("gammadown3", [P.atom(p) for p in ("t", "x", "y", "z")], {})
        except Unsup:
            continue
        gdep = any("t" in asP(v).atoms() or any(re.search(r"[(,\-+* ]t[),^* +\-]|^t[\^*]",
                                                             a) for a in asP(v).atoms())
                   for _k, v in flatten(g[1]))
        ktxt = unparse(fns["Kdown3"])
        kzero = bool(re.search(r"return np\.zeros\(", ktxt)) and "gammadown3" not in ktxt
        n += 1
        rep.check(gdep != kzero, "static-K", f"{rel}::Kdown3",
                  ("the spatial metric depends on t (zero shift) but Kdown3 returns zeros"
                   if gdep else
                   "the spatial metric does not depend on t (zero shift) but Kdown3 is not "
                   "identically zero"), node=fns["Kdown3"], file=rel,
                  detail={"metric_depends_on_t": gdep})
    if n < 4:
        raise AnalysisError(f"static-K: only {n} modules analysed")


FLRW_FACTS = {
    # module -> (functions treated as opaque functions of t, their declared derivatives)
    "LCDM": {"a": "a", "Hprop": "H"},
}


def k_from_metric(rep):
    """K_ij = -(1/(2 alpha)) d_t gamma_ij for zero shift, decided on normal forms after
    syntactic differentiation.  For LambdaCDM the relation d_t a = a H between its two
    separately written closed forms is a declared fact (a hyperbolic identity, not decided)."""
    S = rep.sources
    n = 0
    for rel in S.all_py():
        if not rel.startswith(SOL + "/") or rel.endswith("__init__.py"):
            continue
        modname = rel.split("/")[1][:-3]
        fns = {x.name: x for x in S.module(rel).body if isinstance(x, ast.FunctionDef)}
        if "gammadown3" not in fns or "Kdown3" not in fns:
            continue
        if [a.arg for a in fns["Kdown3"].args.args][:4] != ["t", "x", "y", "z"]:
            continue
        if "betaup3" in fns and "np.zeros" not in unparse(fns["betaup3"]):
            rep.unverified("K-from-metric", f"{rel}::Kdown3", "non-zero shift")
            continue
        ev = SolEval(S, rel, False)
        facts = {}
        a_at, H_at = P.atom("fn:a(t)"), P.atom("fn:Hprop(t)")
        if modname == "LCDM":
            ev.overrides = {"a": a_at, "Hprop": H_at}
            facts = {"fn:a(t)": a_at * H_at}
        if modname == "Szekeres":
            Z, dtZ, F = P.atom("fn:Z"), P.atom("fn:dtZ"), P.atom("fn:F")
            ev.overrides = {"Z_terms": [F, Z, dtZ], "LCDM.a": a_at, "LCDM.Hprop": H_at}
            facts = {"fn:a(t)": a_at * H_at, "fn:Z": dtZ}
        args = [P.atom(p) for p in ("t", "x", "y", "z")]
        key = f"{rel}::Kdown3"
        try:
            g = ev.call("gammadown3", args, {})[1]
            K = ev.call("Kdown3", args, {})[1]
            al = ev.call("alpha", args, {})[1] if "alpha" in fns else P.const(1)
            bad = []
            entries = 0
            for (ka, gv), (kb, kv) in zip(flatten(g), flatten(K)):
                entries += 1
                want = symdiff.diff(asP(gv), "t", facts) * asP(al).pow(-1) * Fraction(-1, 2)
                if asP(kv) != want:
                    bad.append((ka, asP(kv), want))
        except (Unsup, symdiff.CannotDifferentiate) as e:
            rep.unverified("K-from-metric", key, f"not decided: {e}")
            continue
        n += 1
        detail = ""
        if bad:
            ka, kv, want = bad[0]
            detail = (f"K{list(ka)} is {kv!r}, -(1/2 alpha) d_t gamma{list(ka)} is "
                      f"{want!r}")[:400]
        rep.check(not bad, "K-from-metric", key,
                  f"{len(bad)} component(s) of Kdown3 are not -(1/(2 alpha)) d_t gamma_ij of "
                  f"the module's own spatial metric: {detail}", node=fns["Kdown3"], file=rel,
                  detail={"entries": entries, "declared_facts": sorted(facts)})
    if n < 5:
        raise AnalysisError(f"K-from-metric: only {n} modules decided")


# ---------------------------------------------------------------------------------------------
# scaling weights (dimensional homogeneity): a type system over the closed forms
# ---------------------------------------------------------------------------------------------
class Inhomogeneous(Exception):
    pass


TRANSCENDENTAL = {"exp", "sin", "cos", "tan", "sinh", "cosh", "tanh", "log", "arcsin", "arccos",
                  "arctan", "hyp2f1"}

# module -> weights of its symbolic constants (length = 1).  Constants not listed keep their
# numerical value.  One line of reason each.
SCALING = {
    "Schwarzschild_isotropic": {"M": 1},        # the mass is a length (G = c = 1)
    "Rosquist_Jantzen": {"s": 0, "q": 0, "k": 0, "m": 0},   # pure numbers fixed by gamma
    "Collins_Stewart": {},                      # exponents are exact rationals of gamma
    "Harvey_Tsoubelis": {},
    "Conformally_flat": {"eps": -2},            # Omega = 1 + eps x^2 is a pure number
}
# expected weight of what a function returns: number, or a rule name
EXPECTED = {"rho": -2, "press": -2, "Kretschmann": -4, "null_ray_exp_out": -1,
            "null_ray_exp_in": -1, "st_RicciS": -2, "alpha": "lapse",
            "gammadown3": "metric3", "gdown4": "metric4", "Kdown3": "K", "Tdown4": "T"}


def weight_of(p, w):
    """scaling weight (a P, linear in the symbolic exponents) of a homogeneous polynomial;
    None for the zero polynomial; raises Inhomogeneous"""
    from .. import tpoly
    p = asP(p)
    if p.is_zero():
        return None
    seen = None
    for mono in p.t:
        tot = P()
        for atom, e in mono:
            tot = tot + atom_weight(atom, w).scale(e)
        if seen is None:
            seen = tot
        elif seen != tot:
            raise Inhomogeneous(f"terms of weight {seen!r} and {tot!r} are added")
    return seen


def atom_weight(atom, w):
    from .. import tpoly
    if atom in w:
        return asP(w[atom])
    if atom.startswith("#") or atom in ("pi", "I"):
        return P()
    if atom in symdiff.REG:
        r = symdiff.REG[atom]
        if r[0] == "fn":
            if r[1] in TRANSCENDENTAL:
                for a in r[2]:
                    wa = weight_of(a, w)
                    if wa is not None and not wa.is_zero():
                        raise Inhomogeneous(f"{r[1]}() of a quantity of weight {wa!r}")
                return P()
            ws = [weight_of(a, w) for a in r[2]]
            ws = [x for x in ws if x is not None]
            return ws[0] if ws else P()        # abs, sign, ...: weight of the argument
        if r[0] == "pow":
            wb = weight_of(r[1], w)
            return P() if wb is None else wb * r[2]
    if atom in tpoly.OPAQUE:
        wb = weight_of(tpoly.OPAQUE[atom], w)
        return P() if wb is None else wb
    return P()          # an unlisted plain atom: a pure number


def scaling(rep):
    """Scaling weights as a type system.  With lengths of weight 1 (G = c = 1) the line element
    has weight 2, so a metric component g_ab has weight 2 - d_a - d_b where d_a is the weight
    of the coordinate x^a; then K_ab has 1 - d_a - d_b, T_ab (= G_ab / kappa) has -d_a - d_b,
    densities and the Ricci scalar -2, the Kretschmann scalar -4, expansions -1.  The
    coordinate weights are *inferred* from the module's own metric (0 for a coordinate inside
    exp/sin, otherwise from the diagonal entry), everything else is checked against them.
    A closed form with a power of t, r or M slipped is ill-typed; a consistent formula is
    well-typed whatever its spelling.  Modules whose closed forms contain dimensionful
    numbers are not typable and are listed as such."""
    S = rep.sources
    n_ok = 0
    for mod, consts in SCALING.items():
        rel = f"{SOL}/{mod}.py"
        ev = SolEval(S, rel, False)
        for c in consts:
            if c not in ev.consts:
                raise AnalysisError(f"{rel}: constant `{c}` of the scaling table not found")
            ev._cval[c] = P.atom(c)
        coords = ["t", "x", "y", "z"]
        C = [P.atom(c) for c in coords]

        def value(fname):
            fn = ev.fns[fname]
            params = [a.arg for a in fn.args.args if a.arg != "analytical"]
            args = [P.atom(p_) for p_ in params]
            r = ev.call(fname, args, {"analytical": False} if any(
                a.arg == "analytical" for a in fn.args.args) else {})
            return r[1] if r else None
        # ---- metric and coordinate weights
        try:
            g3 = value("gammadown3")
            al = value("alpha") if "alpha" in ev.fns else P.const(1)
        except Unsup as e:
            rep.unverified("scaling", f"{rel}::metric", "not interpreted: " + str(e))
            continue
        base_w = dict(consts)
        inside = set()          # coordinates inside a transcendental function
        for _k, v in flatten(g3):
            for atom in asP(v).atoms():
                r = symdiff.REG.get(atom)
                if r and r[0] == "fn" and r[1] in TRANSCENDENTAL:
                    for a in r[2]:
                        inside |= asP(a).atoms() & set(coords)
        found = None
        import itertools
        for combo in itertools.product(("D", 1, 0), repeat=3):
            w = dict(base_w)
            w["t"] = 1
            unresolved = []
            for c, choice in zip("xyz", combo):
                if c in inside and choice != 0:
                    break
                if choice == "D":
                    unresolved.append(c)
                else:
                    w[c] = choice
            else:
                try:
                    progress = True
                    while unresolved and progress:
                        progress = False
                        for c in list(unresolved):
                            i = "xyz".index(c)
                            gcc = asP(g3[i][i])
                            if gcc.atoms() & set(unresolved):
                                continue
                            wg = weight_of(gcc, w)
                            if wg is None:
                                break
                            w[c] = (P.const(2) - wg).scale(Fraction(1, 2))
                            unresolved.remove(c)
                            progress = True
                    if unresolved:
                        continue
                    ok = True
                    for i, a in enumerate("xyz"):
                        for j, b in enumerate("xyz"):
                            wg = weight_of(g3[i][j], w)
                            if wg is not None and wg != P.const(2) - asP(w[a]) - asP(w[b]):
                                ok = False
                    wa = weight_of(al, w)
                    if ok and (wa is None or wa.is_zero()):
                        found = w
                        break
                except Inhomogeneous:
                    continue
        if found is None:
            rep.unverified("scaling", f"{rel}::metric",
                           "no assignment of coordinate weights makes the metric homogeneous "
                           "(closed forms with dimensionful numbers): not typable")
            continue
        w = found
        d = {"t": P.const(1), "x": asP(w["x"]), "y": asP(w["y"]), "z": asP(w["z"])}
        rep.ok("scaling", f"{rel}::metric", detail={"coordinate_weights": {k: repr(v) for k, v
                                                                            in d.items()}})
        n_ok += 1
        # ---- everything else against the inferred weights
        for fname, exp in EXPECTED.items():
            if fname not in ev.fns or fname in ("gammadown3", "alpha"):
                continue
            key = f"{rel}::{fname}"
            try:
                v = value(fname)
            except Unsup as e:
                rep.unverified("scaling", key, "not interpreted: " + str(e))
                continue
            bad = []
            try:
                if isinstance(exp, int):
                    ws = weight_of(v, w) if not isinstance(v, list) else None
                    if isinstance(v, list):
                        raise Unsup("array where a scalar was expected")
                    if ws is not None and ws != P.const(exp):
                        bad.append(f"weight {ws!r}, expected {exp}")
                else:
                    names = "txyz" if exp in ("metric4", "T") else "xyz"
                    off = {"metric3": 2, "metric4": 2, "K": 1, "T": 0}[exp]
                    for i, a in enumerate(names):
                        for j, b in enumerate(names):
                            ws = weight_of(v[i][j], w)
                            want = P.const(off) - d[a] - d[b]
                            if ws is not None and ws != want:
                                bad.append(f"[{a}{b}] has weight {ws!r}, expected {want!r}")
            except Inhomogeneous as e:
                bad.append(str(e))
            except Unsup as e:
                rep.unverified("scaling", key, "not interpreted: " + str(e))
                continue
            rep.check(not bad, "scaling", key,
                      f"{fname} is not homogeneous of the weight its role requires (lengths 1, "
                      f"coordinates {dict((k, repr(x)) for k, x in d.items())}): "
                      + "; ".join(bad[:3]), node=ev.fns[fname], file=rel)
    if n_ok < 3:
        raise AnalysisError(f"scaling: only {n_ok} modules typable")


def purity_of_solutions(rep):
    """The functions of a solution module are functions of (t, x, y, z): nothing may be
    remembered between calls (memoising decorators, module-level tables written at call time)
    and what they return must be theirs to give away -- a cached array handed out twice is
    scaled twice by a caller that fills it in place (Szekeres builds on LCDM's metric that
    way)."""
    S = rep.sources
    n = 0
    for rel in S.all_py():
        if not rel.startswith(SOL + "/") or rel.endswith("__init__.py"):
            continue
        tree = S.module(rel)
        tables = {t.id for st in tree.body if isinstance(st, ast.Assign)
                  and isinstance(st.value, (ast.Dict, ast.List, ast.Set))
                  for t in st.targets if isinstance(t, ast.Name)}
        for fn in [x for x in ast.walk(tree) if isinstance(x, ast.FunctionDef)]:
            n += 1
            key = f"{rel}::{fn.name}"
            memo = [d for d in fn.decorator_list
                    if any(w in unparse(d) for w in ("lru_cache", "cache", "memoize", "memoise"))]
            glob = {g for x in ast.walk(fn) if isinstance(x, ast.Global) for g in x.names}
            locs = {t.id for x in ast.walk(fn) if isinstance(x, ast.Assign) for t in x.targets
                    if isinstance(t, ast.Name)} | {a.arg for a in fn.args.args}
            stores = []
            for x in ast.walk(fn):
                tg = x.targets if isinstance(x, ast.Assign) else (
                    [x.target] if isinstance(x, ast.AugAssign) else [])
                for t in tg:
                    root = t
                    while isinstance(root, (ast.Subscript, ast.Attribute)):
                        root = root.value
                    if isinstance(root, ast.Name) and root is not t and root.id in tables \
                            and root.id not in locs:
                        stores.append(x)
                    if isinstance(t, ast.Name) and t.id in glob:
                        stores.append(x)
            why = ""
            if memo:
                why = f"`{fn.name}` is memoised ({unparse(memo[0])}): the array it returns is " \
                      "shared between calls, and callers that fill the returned metric in " \
                      "place change what every later call gets"
            elif stores:
                why = f"`{fn.name}` writes module-level state at call time: " \
                      + norm_src(stores[0])[:60]
            rep.check(not why, "solution-purity", key, why, node=fn, file=rel)
    if n < 60:
        raise AnalysisError(f"solution modules: only {n} functions found")


def pointwise(rep):
    """`at every ... position`: the value a solution function returns at a point is computed
    from the coordinates of that point.  Necessary structural condition, for every function of
    a solution module that takes position arguments: a coordinate argument is never rebound,
    and neither the coordinate arrays nor the constant arrays shaped like them (np.zeros /
    np.ones of their shape, aliases, slices) are subscripted, rolled, flipped or transposed --
    each of those makes a value depend on the position of the point in the array or on the
    layout of the input instead of its coordinates."""
    S = rep.sources
    n = 0
    COORD = ("x", "y", "z")
    MOVE = ("roll", "flip", "transpose", "swapaxes", "moveaxis", "flipud", "fliplr", "rot90")
    for rel in S.all_py():
        if not rel.startswith(SOL + "/") or rel.endswith("__init__.py"):
            continue
        tree = S.module(rel)
        for fn in [x for x in ast.walk(tree) if isinstance(x, ast.FunctionDef)]:
            params = [a.arg for a in fn.args.args]
            coords = [p_ for p_ in params if p_ in COORD]
            if not coords:
                continue
            n += 1
            key = f"{rel}::{fn.name}"
            pa = set(coords)
            changed = True
            while changed:
                changed = False
                for a in ast.walk(fn):
                    if not (isinstance(a, ast.Assign) and len(a.targets) == 1
                            and isinstance(a.targets[0], ast.Name)):
                        continue
                    v, t = a.value, a.targets[0].id
                    like = isinstance(v, ast.Call) and unparse(v.func).rsplit(".", 1)[-1] in (
                        "zeros", "ones", "zeros_like", "ones_like", "full", "full_like",
                        "empty", "empty_like") and any(
                            isinstance(y, ast.Name) and y.id in pa for y in ast.walk(v))
                    root = v
                    while isinstance(root, ast.Subscript):
                        root = root.value
                    alias = isinstance(root, ast.Name) and root.id in pa
                    if (like or alias) and t not in pa:
                        pa.add(t)
                        changed = True
            bad = None
            for x in ast.walk(fn):
                if isinstance(x, ast.Name) and isinstance(x.ctx, (ast.Store, ast.Del)) \
                        and x.id in coords + ["t"] and x.id in params:
                    bad = (x, f"the coordinate argument `{x.id}` is rebound")
                elif isinstance(x, ast.Subscript) and isinstance(x.value, ast.Name) \
                        and x.value.id in pa:
                    bad = (x, f"`{unparse(x)}` takes part of the point array `{x.value.id}`")
                elif isinstance(x, ast.Call) and unparse(x.func).rsplit(".", 1)[-1] in MOVE \
                        and any(isinstance(y, ast.Name) and y.id in pa
                                for y in ast.walk(x)):
                    bad = (x, f"`{unparse(x)[:50]}` moves the entries of a point array")
                elif isinstance(x, ast.Attribute) and x.attr == "T" \
                        and isinstance(x.value, ast.Name) and x.value.id in pa:
                    bad = (x, f"`{unparse(x)}` transposes a point array")
                if bad:
                    break
            rep.check(bad is None, "pointwise", key,
                      (bad[1] if bad else "") + ": what is returned at a point then depends on "
                      "where the point sits in the input arrays (their layout), not on its "
                      "coordinates alone", node=bad[0] if bad else fn, file=rel)
    if n < 40:
        raise AnalysisError(f"solution modules: only {n} functions of position found")


def run(rep):
    rep.explanation = (
        "Clause 1 of C17 (the numerical and the symbolic form of each bundled metric agree) is "
        "decided exactly: both branches of every `analytical` switch are evaluated "
        "symbolically with numpy/sympy spellings mapped to the same atoms and compared as "
        "exact polynomials, entry by entry.  Two further structural necessary conditions: "
        "axis agreement of the second-derivative components of the perturbed-FLRW data, and "
        "static metric <=> zero K for zero shift.")
    rep.assume("K = -(1/2 alpha) d_t gamma in general, Einstein's equations for the matter "
               "content and the published closed-form scalars are NOT decided by this check")
    two_forms(rep)
    component_axes(rep)
    static_k(rep)
    k_from_metric(rep)
    scaling(rep)
    purity_of_solutions(rep)
    pointwise(rep)
    rep.floor("two-forms-agree", 12)
    rep.floor("component-axes", 12)
