"""C18 -- simulation catalogues and name parsing: format-level clauses.

  token-collision      no parser guard (substring test) can fire on a line meant for another
                       guard or for none, given the alphabets of the free holes (paths and
                       simulation names, variable lists, numbers)
  protocol-order       the restart header is the first line written for a restart
  regex-groups         every group used exists, int() only on \\d+ groups, optional groups
                       tested first; restart directory naming inverts
  separator            content.txt key join/split and JSON dump/load pair
  module-state         nothing found by a scan is remembered in module-level tables
  level-representative the process component that represents a refinement level in the
                       iteration scan is chosen among that level's own datasets
  no-inplace-on-shared per-restart entries are never updated through the merged overview
  definite-assignment  no stale/unassigned variable across restarts
That a scan reports what is on disk is not decided."""
from .. import reading_rules as R
from . import c02

LEVEL = "other"


def run(rep):
    rep.explanation = (
        "Catalogue format analysis: writer templates are extracted from the saveprint calls of "
        "iterations(), parser guards from the if/elif chain of read_iterations() and the "
        "restarts_done scan; a guard token collides with a template if it occurs in its fixed "
        "text or can be spelled in the alphabet of one of its free holes.  Regex group "
        "structure via re._parser; module-state and aliasing by the ownership analysis; "
        "must-assigned dataflow for stale values across restarts.")
    rep.assume("paths and simulation names use [A-Za-z0-9_./-]; variable names those of "
               "rx_h5file / known_groups")
    R.token_collisions(rep)
    R.protocol_order(rep)
    R.regex_users(rep)
    R.content_file(rep)
    R.catalogue_roundtrip(rep)
    R.level_representative(rep)
    R.glob_anchor(rep)
    R.level_coverage(rep)
    R.per_restart_state(rep)
    c02.analyse(rep, owner_filter=lambda o: o.startswith(("GLOBAL:", "PARAM:its_available/")),
                rule="no-inplace-on-shared", rels=["reading.py"], only=R.SCOPE["C18"])
    R.definite_assignment(rep, ["reading.py"], only=R.SCOPE["C18"])
    rep.floor("token-collision", 20)
    rep.floor("regex-groups", 8)
