"""C19 -- kinematics of the default (Eulerian) observers.

Decided statically (necessary conditions): the whole chain from the conserved variables'
time derivatives to the velocity gradient, acceleration, projection, expansion, shear and
vorticity is interpreted symbolically; index discipline, declared index positions and the
written form of each step (in particular: the time derivative handed to the spacetime
covariant derivative is that of the *lower-index* velocity, u_0 = beta^i u_i - alpha W) are
compared with the definitions.  The 4-metric the chain lowers and projects with (gdown4 and
its inverse, assembled from lapse, shift and 3-metric: g_tt = -alpha^2 + beta_i beta^i for any
shift, not only a sub-luminal one) is part of the chain and compared as well.  The identities
theta = -K etc. are not decided."""
from ..tcheck import check_helper, check_keys
from .c05 import STCOVD, generic

LEVEL = "other"
KEYS = """st_covd_udown4 accelerationdown4 accelerationup4 s_covd_udown4 thetadown4 theta
 sheardown4 shear2 omegadown4 omega2 s_RicciS_u hmixed4 hup4 hdown4 udown4 udown3 uup4 uup3
 uup0 dtgammaup3 conserved_D conserved_E conserved_Sdown3 conserved_Sdown4 st_Gamma_udd4
 nup4 ndown4 gtt gtx gty gtz betadown3 betamag gdown4 gup4 gammaup3""".split()


def run(rep):
    rep.explanation = (
        "The kinematics chain is interpreted symbolically; rule instances per (method, "
        "configuration): index discipline, declared index positions, agreement of the exact "
        "componentwise polynomial with the definition (nabla_mu u_nu with the time derivative "
        "of u_nu, a_nu = u^mu nabla_mu u_nu, projection with h^mu_nu, symmetric/antisymmetric "
        "parts, trace-free part with h/3).  st_covd is checked on generic vectors for both "
        "index positions.  dtconserved itself (documented as valid for constant p/rho only) is "
        "type-checked, not compared.")
    rep.assume("dtconserved is taken as given (opaque atoms)")
    check_keys(rep, KEYS)
    check_keys(rep, ["dtconserved"], want_refs=False)
    for pat, ref in STCOVD.items():
        F = generic("F", 4, pat)
        DT = generic("DT", 4, pat)
        check_helper(rep, "st_covd", [F, DT, pat], ref, {"F": F, "DT": DT},
                     f"indexing='{pat}'")
    rep.floor("reference-agreement", 25)
    rep.floor("index-discipline", 25)
