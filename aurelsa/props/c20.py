"""C20 -- spin-weighted harmonics and sphere extraction: the structural clauses.

Decided statically:

  bounds-refusal      the interpolator extrapolates (bounds_error=False, fill_value=None), so
                      every path to it passes the loop that raises when a target coordinate
                      leaves [grid_min, grid_max] of the *paired* grid axis
  analysis-synthesis  sYlm_coefficients and sYlm_reconstruct run over the same (l, m), key
                      alm[l, m], call sYlm with the same arguments; analysis uses the conjugate
                      and the quadrature weight
  angle-roles         inclination-derived values reach only inclination parameters, azimuth
                      values only azimuth parameters, through meshgrid('ij'),
                      spherical_to_cartesian, interpolate and sYlm_coefficients
  per-radius          nothing defined outside the loop over extraction radii is updated in
                      place inside it; the result is stored under the loop's radius
  factorial-domain    no fixed-width integer product in the normalisation (overflow for l > 10)

Orthonormality, normalisation and phase of sYlm, exactness of the interpolation and
convergence of the mode amplitudes are NOT decided."""
from __future__ import annotations

import ast

from ..common import AnalysisError, norm_src, unparse
from ..exact import const_value

LEVEL = "other"
NUM = "numerical.py"
MATHS = "maths.py"
CORE = "core.py"


def bounds_refusal(rep):
    S = rep.sources
    fn = S.function(NUM, "interpolate")
    params = [a.arg for a in fn.args.args]
    grid, target = params[1], params[2]
    body = [st for st in fn.body if not (isinstance(st, ast.Expr)
                                         and isinstance(st.value, ast.Constant))]
    interp_idx = None
    extrap = True
    for i, st in enumerate(body):
        for n in ast.walk(st):
            if isinstance(n, ast.Call) and unparse(n.func).endswith("RegularGridInterpolator"):
                interp_idx = i
                kw = {k.arg: k.value for k in n.keywords}
                be = kw.get("bounds_error")
                if be is None or (isinstance(be, ast.Constant) and be.value is True):
                    extrap = False     # scipy itself refuses
                args = [unparse(a) for a in n.args]
                rep.check(args[:2] == [grid, params[0]], "bounds-refusal",
                          f"{NUM}::interpolate::interpolator-args",
                          f"RegularGridInterpolator must be built from ({grid}, {params[0]})",
                          node=n)
    if interp_idx is None:
        raise AnalysisError("interpolate: RegularGridInterpolator call not found")
    key = f"{NUM}::interpolate"
    if not extrap:
        rep.ok("bounds-refusal", key + "::scipy-refuses")
        return
    # straight-line prefix: no return / branch before the interpolator except the check loop
    loops = []
    for st in body[:interp_idx]:
        if isinstance(st, ast.For):
            loops.append(st)
        elif isinstance(st, (ast.If, ast.While, ast.Try, ast.Return)):
            rep.violation("bounds-refusal", key + "::bypass",
                          f"`{norm_src(st)[:50]}` before the interpolator may bypass the "
                          "bounds check", node=st)
    ok, why, node = False, "no loop over zip(grid_points, target_points) raising on " \
        "out-of-range targets precedes the extrapolating interpolator", fn
    for lp in loops:
        it = unparse(lp.iter)
        if f"zip({grid}, {target}" not in it:
            continue
        # loop variables
        tg = lp.target
        names = [unparse(e) for e in (tg.elts[-1].elts if isinstance(tg, ast.Tuple)
                                      and isinstance(tg.elts[-1], ast.Tuple) else
                                      (tg.elts if isinstance(tg, ast.Tuple) else []))]
        if len(names) != 2:
            continue
        gv, tv = names
        env = {}
        raises = None
        for st in lp.body:
            if isinstance(st, ast.Assign) and isinstance(st.targets[0], ast.Tuple) \
                    and isinstance(st.value, ast.Tuple):
                for t, v in zip(st.targets[0].elts, st.value.elts):
                    env[unparse(t)] = unparse(v)
            elif isinstance(st, ast.Assign):
                env[unparse(st.targets[0])] = unparse(st.value)
            elif isinstance(st, ast.If) and any(isinstance(x, ast.Raise) for x in st.body):
                raises = st
        if raises is None:
            why, node = "the bounds loop does not raise", lp
            continue
        t = raises.test
        conds = t.values if isinstance(t, ast.BoolOp) and isinstance(t.op, ast.Or) else [t]
        got = set()
        from .. import reading_rules as _R
        for c in conds:
            if isinstance(c, ast.Compare) and len(c.ops) == 1:
                left = env.get(unparse(c.left), _R.rtext(fn, c.left, keep=(gv, tv)))
                right = env.get(unparse(c.comparators[0]),
                                _R.rtext(fn, c.comparators[0], keep=(gv, tv)))
                op = type(c.ops[0]).__name__
                if op in ("Gt", "GtE"):      # normalise a > b  to  b < a
                    left, right, op = right, left, {"Gt": "Lt", "GtE": "LtE"}[op]
                got.add((left, op, right))
        want_lo = (f"{tv}.min()", "Lt", f"{gv}.min()")
        want_hi = (f"{gv}.max()", "Lt", f"{tv}.max()")
        ok = want_lo in got and want_hi in got
        why = (f"the refusal condition {sorted(got)} is not "
               f"`{tv}.min() < {gv}.min() or {tv}.max() > {gv}.max()` on the paired "
               "grid/target arrays")
        node = raises
        if ok:
            break
    rep.check(ok, "bounds-refusal", key + "::refuses-outside", why, node=node)


def element_order(rep):
    """interpolate flattens the target arrays, evaluates, and reshapes the values to the target
    shape: value k of the result belongs to target k only if every flattening and the final
    reshape enumerate the elements in the same (C) order.  A flatten/ravel/reshape with an
    `order` other than 'C' ('K', 'A', 'F') enumerates a transposed or sliced target in memory
    order and the values come back at other points."""
    S = rep.sources
    fn = S.function(NUM, "interpolate")
    key = f"{NUM}::interpolate::element-order"
    n = 0
    for c in ast.walk(fn):
        if not isinstance(c, ast.Call):
            continue
        f = unparse(c.func)
        name = f.rsplit(".", 1)[-1]
        if name not in ("flatten", "ravel", "reshape"):
            continue
        n += 1
        order = [k.value for k in c.keywords if k.arg == "order"]
        pos = None
        if name in ("flatten", "ravel"):
            rest = c.args[1:] if f in ("np.ravel", "numpy.ravel") else c.args
            pos = rest[0] if rest else None
        elif f in ("np.reshape", "numpy.reshape") and len(c.args) >= 3:
            pos = c.args[2]
        if pos is not None:
            order.append(pos)
        for o in order:
            if not isinstance(o, ast.Constant):
                raise AnalysisError(f"interpolate: the element order of `{unparse(c)[:60]}` is "
                                    "not a literal")
        bad = [o.value for o in order if o.value != "C"]
        rep.check(not bad, "element-order", f"{key}::{name}#{n}",
                  f"`{unparse(c)[:70]}` enumerates the elements in order {bad}: flattening and "
                  "the final reshape no longer pair value k with target point k for a "
                  "non-contiguous target array", node=c)
    if n < 2:
        raise AnalysisError("interpolate: the flattening of the targets and the reshape of the "
                            "values were not both found")


def loops_lm(fn):
    """[(el var, m var, outer range text, inner range text, inner body)]"""
    out = []
    # one loop over a precomputed list of (l, m) pairs built by a double comprehension
    for n in ast.walk(fn):
        if isinstance(n, ast.For) and isinstance(n.target, ast.Tuple) \
                and len(n.target.elts) == 2:
            it = n.iter
            if isinstance(it, ast.Name):
                defs = [a for a in ast.walk(fn) if isinstance(a, ast.Assign)
                        and unparse(a.targets[0]) == it.id]
                it = defs[0].value if len(defs) == 1 else it
            if isinstance(it, (ast.ListComp, ast.GeneratorExp)) and len(it.generators) == 2 \
                    and isinstance(it.elt, ast.Tuple) and len(it.elt.elts) == 2 \
                    and not it.generators[0].ifs and not it.generators[1].ifs:
                g0, g1 = it.generators
                if [unparse(e) for e in it.elt.elts] == [unparse(g0.target), unparse(g1.target)]:
                    import re as _re

                    def ren(txt):
                        txt = _re.sub(rf"\b{_re.escape(unparse(g0.target))}\b",
                                      unparse(n.target.elts[0]), txt)
                        return _re.sub(rf"\b{_re.escape(unparse(g1.target))}\b",
                                       unparse(n.target.elts[1]), txt)
                    out.append((unparse(n.target.elts[0]), unparse(n.target.elts[1]),
                                ren(unparse(g0.iter)), ren(unparse(g1.iter)), n.body))
    for n in ast.walk(fn):
        if isinstance(n, ast.For) and isinstance(n.iter, ast.Call) \
                and unparse(n.iter.func) == "range":
            for m in n.body:
                if isinstance(m, ast.For) and isinstance(m.iter, ast.Call) \
                        and unparse(m.iter.func) == "range":
                    out.append((unparse(n.target), unparse(m.target), unparse(n.iter),
                                unparse(m.iter), m.body))
    return out


def module_state(rep):
    """No function of maths.py may remember anything between calls in a module-level table:
    the harmonics and the decomposition are functions of their arguments (for every sequence
    of calls).  A memo is accepted only if its key names every parameter of the function."""
    S = rep.sources
    tree = S.module(MATHS)
    tables = set()
    for st in tree.body:
        if isinstance(st, ast.Assign) and isinstance(st.value, (ast.Dict, ast.List, ast.Set)) \
                or isinstance(st, ast.Assign) and isinstance(st.value, ast.Call) \
                and unparse(st.value.func) in ("dict", "list", "set", "collections.defaultdict",
                                               "defaultdict", "OrderedDict"):
            tables |= {t.id for t in st.targets if isinstance(t, ast.Name)}
    n = 0
    for fn in [x for x in ast.walk(tree) if isinstance(x, ast.FunctionDef)]:
        n += 1
        params = {a.arg for a in fn.args.args}
        locs = {t.id for x in ast.walk(fn) if isinstance(x, ast.Assign) for t in x.targets
                if isinstance(t, ast.Name)}
        glob = {g for x in ast.walk(fn) if isinstance(x, ast.Global) for g in x.names}
        bad = None
        for x in ast.walk(fn):
            tgt = None
            if isinstance(x, (ast.Assign, ast.AugAssign)):
                for t in (x.targets if isinstance(x, ast.Assign) else [x.target]):
                    if isinstance(t, ast.Subscript) and isinstance(t.value, ast.Name):
                        tgt = (t.value.id, t.slice)
                    elif isinstance(t, ast.Name) and t.id in glob:
                        tgt = (t.id, None)
            elif isinstance(x, ast.Call) and isinstance(x.func, ast.Attribute) \
                    and isinstance(x.func.value, ast.Name) \
                    and x.func.attr in ("append", "update", "setdefault", "add", "extend",
                                        "insert", "pop", "clear"):
                tgt = (x.func.value.id, x.args[0] if x.args else None)
            if tgt is None:
                continue
            nm, keyexpr = tgt
            if (nm in tables and nm not in locs and nm not in params) or nm in glob:
                # complete memo key: every parameter appears, by itself, in the key
                knames = set()
                if keyexpr is not None:
                    src = keyexpr
                    if isinstance(src, ast.Name):
                        for a in ast.walk(fn):
                            if isinstance(a, ast.Assign) and unparse(a.targets[0]) == src.id:
                                src = a.value
                                break
                    elts = src.elts if isinstance(src, ast.Tuple) else [src]
                    knames = {e.id for e in elts if isinstance(e, ast.Name)}
                if not params or not params <= knames:
                    bad = (x, nm, sorted(params - knames))
        if bad:
            rep.violation("module-state", f"{MATHS}::{fn.name}::{bad[1]}",
                          f"`{fn.name}` stores into the module-level table `{bad[1]}`; its key "
                          f"does not determine the stored value (parameters not in the key: "
                          f"{bad[2]}), so a later call with other arguments gets a stale value",
                          node=bad[0], file=MATHS)
        else:
            rep.ok("module-state", f"{MATHS}::{fn.name}")
    if n < 10:
        raise AnalysisError("maths.py: functions not found")


def analysis_synthesis(rep):
    """Decided on normal forms (symexpr): temporaries, operand order and pure straight-line
    helpers do not matter."""
    from ..symexpr import SymEval
    from ..tpoly import P
    from .. import symdiff
    S = rep.sources
    co = S.function(MATHS, "sYlm_coefficients")
    re_ = S.function(MATHS, "sYlm_reconstruct")
    sy = S.function(MATHS, "sYlm")
    sy_params = [a.arg for a in sy.args.args]
    lc, lr = loops_lm(co), loops_lm(re_)
    key = f"{MATHS}::sYlm_coefficients~sYlm_reconstruct"
    if len(lc) != 1 or len(lr) != 1:
        raise AnalysisError("sYlm analysis/synthesis: (l, m) loops not found")
    (el1, m1, r1, s1, b1), (el2, m2, r2, s2, b2) = lc[0], lr[0]
    if sy_params != ["s", "el", "m", "theta", "phi"]:
        raise AnalysisError("sYlm: parameter list changed: " + str(sy_params))
    funcs = {f.name: f for f in S.module(MATHS).body if isinstance(f, ast.FunctionDef)}

    def rng(fn, outer, inner, el):
        ev = SymEval(funcs, keep=("sYlm",), what=fn.name)
        env = {a.arg: P.atom(a.arg) for a in fn.args.args}
        env[el] = P.atom("L")
        o = ast.parse(outer, mode="eval").body
        i = ast.parse(inner, mode="eval").body
        return ([ev.ev(a, env) for a in o.args], [ev.ev(a, env) for a in i.args])
    lmax_c, lmax_r = P.atom(co.args.args[1].arg), P.atom(re_.args.args[1].arg)
    L = P.atom("L")
    oc, ic = rng(co, r1, s1, el1)
    orr, ir = rng(re_, r2, s2, el2)
    ok = oc in ([lmax_c + 1], [P.const(0), lmax_c + 1]) and \
        orr in ([lmax_r + 1], [P.const(0), lmax_r + 1]) and ic == [-L, L + 1] == ir
    rep.check(ok, "analysis-synthesis", key + "::ranges",
              f"(l, m) ranges differ or are not 0..lmax, -l..l: {r1}/{s1} vs {r2}/{s2}", node=co)

    def body_env(fn, el, m, body, stop):
        ev = SymEval(funcs, keep=("sYlm",), what=fn.name)
        env = {a.arg: P.atom(a.arg) for a in fn.args.args}
        env[el], env[m] = P.atom("L"), P.atom("M")
        for st in body:
            if st is stop:
                break
            if isinstance(st, ast.Assign) and isinstance(st.targets[0], ast.Name):
                env[st.targets[0].id] = ev.ev(st.value, env)
        return ev, env
    M = P.atom("M")
    # analysis: alm[l, m] = sum(conj(sYlm(s, l, m, theta, phi)) * f * dtheta_weight * dphi)
    p1 = [a.arg for a in co.args.args]
    returned = {unparse(r.value) for r in ast.walk(co) if isinstance(r, ast.Return)
                and r.value is not None}
    st = [x for x in b1 if isinstance(x, ast.Assign) and isinstance(x.targets[0], ast.Subscript)
          and unparse(x.targets[0].value) in returned]
    if len(st) != 1:
        raise AnalysisError("sYlm_coefficients: the store into alm[l, m] was not found")
    ev, env = body_env(co, el1, m1, b1, st[0])
    idx = st[0].targets[0].slice
    idx = [ev.ev(i, env) for i in (idx.elts if isinstance(idx, ast.Tuple) else [idx])]
    got = ev.ev(st[0].value, env)
    A = {n: P.atom(n) for n in p1}
    Y = symdiff.fn_atom("sYlm", [A[p1[0]], L, M, A[p1[3]], A[p1[4]]])
    want = symdiff.fn_atom("sum", [symdiff.fn_atom("conj", [Y]) * A[p1[2]] * A[p1[5]] * A[p1[6]]])
    rep.check(idx == [L, M] and p1[3:5] == ["theta", "phi"], "analysis-synthesis",
              key + "::sYlm-args", "the coefficient of (l, m) must be stored under alm[l, m] and "
              "the angles passed in (theta, phi) order", node=st[0])
    rep.check(got == want, "analysis-synthesis", key + "::projection",
              "alm[l, m] must be sum(conj(sYlm(s, l, m, theta, phi)) * f * dtheta_weight * dphi); "
              f"found {got!r}", node=st[0])
    # synthesis: f += alm[l, m] * sYlm(s, l, m, theta, phi)
    p2 = [a.arg for a in re_.args.args]
    adds = [x for x in b2 if isinstance(x, ast.AugAssign) and isinstance(x.op, ast.Add)]
    plain = [x for x in b2 if isinstance(x, ast.Assign) and isinstance(x.value, ast.BinOp)
             and isinstance(x.value.op, ast.Add)
             and unparse(x.targets[0]) == unparse(x.value.left)]
    if len(adds) + len(plain) != 1:
        # ... perhaps it sits under a test inside the (l, m) loops: a mode that is added only
        # when some condition on its coefficient holds is not the synthesis of the property
        deep = [x for st_ in b2 for x in ast.walk(st_)
                if (isinstance(x, ast.AugAssign) and isinstance(x.op, ast.Add))
                or (isinstance(x, ast.Assign) and isinstance(x.value, ast.BinOp)
                    and isinstance(x.value.op, ast.Add)
                    and unparse(x.targets[0]) == unparse(x.value.left))]
        guards = [g for g in b2 if isinstance(g, ast.If)]
        if len(deep) == 1 and guards:
            rep.violation("analysis-synthesis", key + "::synthesis",
                          "the reconstruction adds the (l, m) term only under the test `"
                          + unparse(guards[0].test)[:60] + "`: every mode must be added, "
                          "whatever the value of its coefficient (an absolute tolerance drops "
                          "small-amplitude fields)", node=guards[0])
            return
        raise AnalysisError("sYlm_reconstruct: the accumulation statement was not found")
    stx = (adds + plain)[0]
    ev, env = body_env(re_, el2, m2, b2, stx)
    term = ev.ev(stx.value if adds else stx.value.right, env)
    A = {n: P.atom(n) for n in p2}
    # alm is the third parameter of the reconstruction
    almname = [n for n in p2 if n not in ("s", "lmax", "theta", "phi")]
    Y2 = symdiff.fn_atom("sYlm", [A[p2[0]], L, M, A["theta"], A["phi"]]) \
        if "theta" in A and "phi" in A else None
    ok = Y2 is not None and len(almname) == 1 and \
        term == symdiff.fn_atom("getitem", [P.atom(almname[0]), L, M]) * Y2
    rep.check(ok, "analysis-synthesis", key + "::synthesis",
              "the reconstruction must add alm[l, m] * sYlm(s, l, m, theta, phi); "
              f"found {term!r}", node=stx)


def angle_roles(rep):
    """Decided on values (symexpr normal forms), not on names: the inclination array is the
    one spanning (0, pi), the azimuth array the one spanning (0, 2 pi); what is handed to
    spherical_to_cartesian / sYlm_coefficients in the theta / phi slots and the quadrature
    weights must be built from the array of that role."""
    from fractions import Fraction
    from ..symexpr import SymEval
    from ..tpoly import P
    from .. import symdiff
    S = rep.sources
    fn = S.function(CORE, "AurelCore.Psi4_lm")
    key = f"{CORE}::AurelCore.Psi4_lm"
    ev = SymEval({}, what="Psi4_lm")
    env = {}
    mesh = None
    stmts = []

    def flat(block):
        for st in block:
            stmts.append(st)
            if isinstance(st, (ast.For, ast.If, ast.With)):
                flat(st.body)
    flat(fn.body)
    for st in stmts:
        if isinstance(st, ast.Assign) and len(st.targets) == 1:
            t = st.targets[0]
            if isinstance(t, ast.Tuple) and isinstance(st.value, ast.Call) \
                    and unparse(st.value.func) == "np.meshgrid":
                kw = {k.arg: getattr(k.value, "value", None) for k in st.value.keywords}
                try:
                    args = [ev.ev(a, env) for a in st.value.args]
                except AnalysisError:
                    args = []
                mesh = (st, args, kw)
                for i, e in enumerate(t.elts):
                    if isinstance(e, ast.Name) and len(args) == 2:
                        env[e.id] = symdiff.fn_atom(f"mesh{i}", args)
            elif isinstance(t, ast.Name):
                try:
                    env[t.id] = ev.ev(st.value, env)
                except AnalysisError:
                    env[t.id] = P.atom(t.id)
        elif isinstance(st, ast.For) and isinstance(st.target, ast.Name):
            env[st.target.id] = P.atom(st.target.id)
    if mesh is None:
        raise AnalysisError("Psi4_lm: angular meshgrid not found")

    def role(p):
        """'incl' for pi * (...), 'azim' for 2 pi * (...)"""
        pi = P.atom("pi")
        if p.is_zero() or not all(any(a == "pi" and e == 1 for a, e in k) for k in p.t):
            return None
        q = p * pi.pow(-1)
        # the array is c * arange(..) / (N + 1): compare with the same expression at c = 1
        coefs = set()
        for k, c in q.t.items():
            coefs.add(c)
        for c in (Fraction(1), Fraction(2)):
            if all((x / c).denominator == 1 or True for x in coefs) and \
                    len({x / c for x in coefs}) == 1 and (next(iter(coefs)) / c) == 1:
                return "incl" if c == 1 else "azim"
        return None
    mst, margs, kw = mesh
    roles = [role(a) for a in margs]
    rep.check(kw.get("indexing") == "ij" and roles == ["incl", "azim"],
              "angle-roles", key + "::meshgrid",
              "the angular grid must be meshgrid(inclination in (0, pi), azimuth in (0, 2 pi), "
              f"indexing='ij'); roles found {roles}", node=mst)
    if roles != ["incl", "azim"]:
        return
    TH, PH = symdiff.fn_atom("mesh0", margs), symdiff.fn_atom("mesh1", margs)
    INCL, AZIM = margs

    def spacing_of(p):
        """np.diff(<array>)[0] -> the array, else None"""
        for arr in (INCL, AZIM):
            if p == symdiff.fn_atom("getitem", [symdiff.fn_atom("diff", [arr]), P.const(0)]):
                return arr
        return None
    s2c = S.function("finitedifference.py", "FiniteDifference.spherical_to_cartesian")
    s2c_params = [a.arg for a in s2c.args.args][1:]
    n_s2c = n_co = 0

    class _Ev:
        @staticmethod
        def ev(x, e):
            try:
                return ev0.ev(x, e)
            except AnalysisError:
                return P.atom("<" + unparse(x)[:40] + ">")
    ev0, ev = ev, _Ev
    for n in ast.walk(fn):
        if isinstance(n, ast.Call) and unparse(n.func) == "self.fd.spherical_to_cartesian":
            n_s2c += 1
            a = [ev.ev(x, env) for x in n.args]
            rep.check(s2c_params == ["r", "theta", "phi"] and len(a) == 3 and a[1] == TH
                      and a[2] == PH, "angle-roles", key + "::spherical_to_cartesian",
                      "spherical_to_cartesian(r, theta=inclination grid, phi=azimuth grid): "
                      f"got {[unparse(x) for x in n.args]}", node=n)
        if isinstance(n, ast.Call) and unparse(n.func) == "maths.sYlm_coefficients":
            n_co += 1
            a = [ev.ev(x, env) for x in n.args]
            ok = len(a) == 7 and a[3] == TH and a[4] == PH
            if ok:
                ok = spacing_of(a[6]) == AZIM and any(
                    a[5] == symdiff.fn_atom("sin", [TH]) * d and spacing_of(d) == INCL
                    for d in [symdiff.fn_atom("getitem", [symdiff.fn_atom("diff", [INCL]),
                                                          P.const(0)])])
            rep.check(ok, "angle-roles", key + "::sYlm_coefficients",
                      "sYlm_coefficients(s, lmax, f, theta=inclination grid, phi=azimuth grid, "
                      f"sin(theta)*dtheta, dphi): got {[unparse(x) for x in n.args]}", node=n)
            rep.check(const_value(n.args[0]) == -2 and unparse(n.args[1]) == "self.lmax",
                      "angle-roles", key + "::spin-weight",
                      "Psi4 has spin weight -2 and lmax = self.lmax", node=n)
    if n_s2c != 1 or n_co != 1:
        raise AnalysisError("Psi4_lm: sphere sampling / decomposition calls not found")
    # spherical_to_cartesian body: x = r sin(theta) cos(phi), ...
    ev2 = SymEval({}, what="spherical_to_cartesian")
    env2 = {p_: P.atom(p_) for p_ in s2c_params}
    rets = [st for st in ast.walk(s2c) if isinstance(st, ast.Return)]
    got = None
    if len(rets) == 1 and isinstance(rets[0].value, ast.Tuple):
        for st in s2c.body:
            if isinstance(st, ast.Assign) and isinstance(st.targets[0], ast.Name):
                env2[st.targets[0].id] = ev2.ev(st.value, env2)
        got = [ev2.ev(e, env2) for e in rets[0].value.elts]
    if s2c_params == ["r", "theta", "phi"]:
        r_, th, ph = (P.atom(x) for x in s2c_params)
        sin, cos = (lambda x: symdiff.fn_atom("sin", [x])), (lambda x: symdiff.fn_atom("cos", [x]))
        want = [r_ * sin(th) * cos(ph), r_ * sin(th) * sin(ph), r_ * cos(th)]
    else:
        want = None
    rep.check(got is not None and got == want, "angle-roles",
              "finitedifference.py::spherical_to_cartesian",
              "theta is the inclination and phi the azimuth: expected (r sin(theta) cos(phi), "
              f"r sin(theta) sin(phi), r cos(theta)); got {got}", node=s2c)


def per_radius(rep):
    S = rep.sources
    fn = S.function(CORE, "AurelCore.Psi4_lm")
    loop = None
    for st in fn.body:
        if isinstance(st, ast.For) and "extract_radii" in unparse(st.iter):
            loop = st
    if loop is None:
        raise AnalysisError("Psi4_lm: loop over extraction radii not found")
    lv = unparse(loop.target)
    outer = set()
    for st in fn.body:
        if st is loop:
            break
        for n in ast.walk(st):
            if isinstance(n, ast.Assign):
                for t in n.targets:
                    for x in ast.walk(t):
                        if isinstance(x, ast.Name):
                            outer.add(x.id)
    alias = set(outer)
    bad = []
    stores = []
    for st in loop.body:
        for n in ast.walk(st):
            if isinstance(n, ast.Assign):
                # aliasing of an outer object (bare name or view)
                v = n.value
                root = v
                while isinstance(root, (ast.Subscript, ast.Attribute)):
                    root = root.value
                for t in n.targets:
                    if isinstance(t, ast.Name):
                        if isinstance(root, ast.Name) and root.id in alias \
                                and not isinstance(v, ast.Call):
                            alias.add(t.id)
                        else:
                            alias.discard(t.id) if t.id not in outer else None
                    elif isinstance(t, ast.Subscript):
                        r = t.value
                        while isinstance(r, (ast.Subscript, ast.Attribute)):
                            r = r.value
                        if isinstance(r, ast.Name) and r.id in alias:
                            if unparse(t.slice) == lv and isinstance(t.value, ast.Name):
                                stores.append(n)     # result[radius] = ...
                            else:
                                bad.append(n)
            elif isinstance(n, ast.AugAssign):
                r = n.target
                while isinstance(r, (ast.Subscript, ast.Attribute)):
                    r = r.value
                if isinstance(r, ast.Name) and r.id in alias:
                    bad.append(n)
            elif isinstance(n, ast.Call) and isinstance(n.func, ast.Attribute) \
                    and n.func.attr in ("append", "extend", "fill", "sort", "put", "resize") \
                    and isinstance(n.func.value, ast.Name) and n.func.value.id in alias:
                bad.append(n)
    key = f"{CORE}::AurelCore.Psi4_lm::per-radius"
    rep.check(not bad, "per-radius", key + "::no-carried-state",
              "an object defined before the loop over extraction radii is updated in place "
              "inside it, so one radius' result depends on the radii processed before: "
              + (norm_src(bad[0])[:70] if bad else ""), node=bad[0] if bad else loop)
    rep.check(len(stores) == 1 and "sYlm_coefficients" in unparse(stores[0].value),
              "per-radius", key + "::keyed-by-radius",
              "the mode coefficients must be stored under the loop's own radius", node=loop)
    # each radius uses the loop variable for its sphere
    uses = [n for n in ast.walk(loop) if isinstance(n, ast.Call)
            and unparse(n.func) == "self.fd.spherical_to_cartesian"]
    rep.check(len(uses) == 1 and unparse(uses[0].args[0]) == lv, "per-radius",
              key + "::sphere-radius", "the sampling sphere must have the loop's radius",
              node=loop)


def sphere_centre(rep):
    """Psi4_lm is partially evaluated (aurelsa.fdpe): in every call of numerical.interpolate
    the sampled points, expressed in the coordinates of the data grid, must be
    centre + R n(theta, phi) on each axis -- i.e.  points_k - (grid_k - fd.<k>array) =
    spherical_to_cartesian(R, theta, phi)[k] + center[k]  as exact polynomials, with R the
    radius of the loop."""
    from ..fdpe import FDPE, Sym, SymbolicBranch, term_to_P, to_term
    from ..tensor import NeedConfig, PathEnds, Unsupported
    from ..exact import Aff
    from ..tpoly import P
    S = rep.sources
    fn = S.function(CORE, "AurelCore.Psi4_lm")
    it = FDPE(S, rel=CORE, cls="AurelCore", attrs={
        "center": [Sym(("attr", f"self.center[{k}]")) for k in range(3)], "verbose": False})
    calls = []

    def s2c(args, kw):
        t = ("call", ("global", "self.fd.spherical_to_cartesian"),
             tuple(to_term(a) for a in args))
        calls.append(t)
        return tuple(Sym(("idx", t, (Aff(k),))) for k in range(3))
    it.call_overrides["self.fd.spherical_to_cartesian"] = s2c
    key = f"{CORE}::AurelCore.Psi4_lm::sphere-centre"
    try:
        v = it.run("AurelCore.Psi4_lm", [])
    except (SymbolicBranch, NeedConfig, Unsupported, PathEnds) as e:
        raise AnalysisError(f"Psi4_lm: cannot be evaluated: {e}")
    found = []

    def walk(t):
        if isinstance(t, tuple):
            if len(t) == 3 and t[0] == "call" and t[1] == ("global", "numerical.interpolate"):
                found.append(t)
            for x in t:
                walk(x)
    if isinstance(v, dict):
        for k_, x in v.items():
            walk(to_term(k_))
            walk(to_term(x))
    else:
        walk(to_term(v))
    if not found:
        raise AnalysisError("Psi4_lm: no call of numerical.interpolate in the result")

    def atom(t):
        if isinstance(t, tuple) and t and t[0] == "getattr" and t[1] == ("attr", "self.fd") \
                and t[2] in ("xarray", "yarray", "zarray"):
            return "X" + t[2][0]
        if isinstance(t, tuple) and len(t) == 2 and t[0] == "attr" \
                and t[1].startswith("self.center["):
            return "c" + t[1][12]
        if isinstance(t, tuple) and len(t) == 3 and t[0] == "idx" and t[1] in calls \
                and len(t[2]) == 1 and isinstance(t[2][0], Aff):
            return "S" + str(int(t[2][0].c))
        return None
    n = 0
    for c in found:
        args = [a for a in c[2] if not (isinstance(a, tuple) and a and a[0] == "kw")]
        ok, why = False, ""
        if len(args) >= 3 and args[1][0] == "tuple" and args[2][0] == "tuple" \
                and len(args[1][1]) == 3 and len(args[2][1]) == 3:
            ok = True
            for k, ax in enumerate("xyz"):
                try:
                    g = term_to_P(args[1][1][k], atom)
                    pt = term_to_P(args[2][1][k], atom)
                except AnalysisError as e:
                    ok, why = False, str(e)[:120]
                    break
                pos = pt - g + P.atom("X" + ax)
                want = P.atom(f"S{k}") + P.atom(f"c{k}")
                if pos != want:
                    ok = False
                    why = (f"along {ax} the sampled points sit at {pos!r} in grid coordinates, "
                           f"the sphere around the centre is {want!r}")
                    break
        else:
            why = "grid / points are not 3-tuples"
        n += 1
        rep.check(ok, "per-radius", f"{key}::interpolate#{n}",
                  "the extraction sphere is not centred on self.center: " + why, node=fn)


def factorial_domain(rep):
    S = rep.sources
    for q in ("factorial", "sYlm"):
        fn = S.function(MATHS, q)
        bad = [n for n in ast.walk(fn) if isinstance(n, ast.Call)
               and unparse(n.func) in ("np.prod", "np.cumprod", "np.product", "math.prod")
               and not any(k.arg == "dtype" for k in n.keywords)]
        rep.check(not bad, "factorial-domain", f"{MATHS}::{q}",
                  "a product over an integer range is evaluated in fixed-width integers: it "
                  "overflows silently from 21! on (degrees l > 10): "
                  + (norm_src(bad[0])[:60] if bad else ""), node=bad[0] if bad else fn)
    fn = S.function(MATHS, "factorial")
    rets = [unparse(n.value) for n in ast.walk(fn) if isinstance(n, ast.Return)]
    rep.check(any(r in ("sc.factorial(n)", "math.factorial(n)", "float(math.factorial(n))")
                  for r in rets) and "1" in rets, "factorial-domain",
              f"{MATHS}::factorial::delegates",
              f"factorial must return 1 for n <= 1 and an exact/float library factorial "
              f"otherwise; returns {rets}", node=fn)


class _NotEvaluated(AnalysisError):
    pass


def _eval_sylm(S, fn, funcs, s_, el_, m_, flags):
    """evaluate maths.sYlm with concrete integers (s, l, m) and symbolic angles: the result is
    an exact polynomial in Ch = cos(theta/2), Sh = sin(theta/2), E = exp(i phi), pi and square
    roots of primes.  Nothing numerical is computed on angles."""
    import math
    from fractions import Fraction
    from ..tpoly import P, asP
    num = (int, Fraction)
    params = [a.arg for a in fn.args.args]
    env = dict(zip(params, [s_, el_, m_, P.atom("theta"), P.atom("phi")]))
    HALF = P.atom("theta").scale(Fraction(1, 2))

    def call_py(f, args):
        body = [x for x in f.body if not (isinstance(x, ast.Expr)
                                          and isinstance(x.value, ast.Constant))]
        e2 = dict(zip([a.arg for a in f.args.args], args))
        r = block(body, e2)
        if r is None:
            raise _NotEvaluated("helper without a return")
        return r[1]

    def ev(n, env):
        if isinstance(n, ast.Constant):
            if isinstance(n.value, bool):
                return n.value
            if isinstance(n.value, int):
                return n.value
            if isinstance(n.value, float):
                return Fraction(n.value).limit_denominator(10**12)
            if isinstance(n.value, complex) and n.value.real == 0:
                return P.atom("I").scale(Fraction(n.value.imag).limit_denominator(10**12))
            raise _NotEvaluated("constant " + unparse(n))
        if isinstance(n, ast.Name):
            if n.id in env:
                return env[n.id]
            raise _NotEvaluated("name " + n.id)
        if isinstance(n, ast.Attribute) and unparse(n) in ("np.pi", "math.pi"):
            return P.atom("pi")
        if isinstance(n, ast.UnaryOp) and isinstance(n.op, ast.USub):
            v = ev(n.operand, env)
            return -v
        if isinstance(n, ast.BinOp):
            a, b = ev(n.left, env), ev(n.right, env)
            op = n.op
            if isinstance(a, num) and isinstance(b, num):
                if isinstance(op, ast.Add):
                    return a + b
                if isinstance(op, ast.Sub):
                    return a - b
                if isinstance(op, ast.Mult):
                    return a * b
                if isinstance(op, ast.Div):
                    return Fraction(a) / Fraction(b)
                if isinstance(op, ast.FloorDiv):
                    return a // b
                if isinstance(op, ast.Pow):
                    if isinstance(b, int) or Fraction(b).denominator == 1:
                        return Fraction(a) ** int(b)
            A, B = asP(a), asP(b)
            if isinstance(op, ast.Add):
                return A + B
            if isinstance(op, ast.Sub):
                return A - B
            if isinstance(op, ast.Mult):
                return A * B
            if isinstance(op, ast.Div):
                if not B.is_const():
                    if B.atoms() & {"Ch", "Sh", "Tn", "theta"}:
                        flags.append(("division", unparse(n)[:60]))
                return A * B.pow(-1)
            if isinstance(op, ast.Pow):
                if isinstance(b, num):
                    e = Fraction(b)
                    if e < 0 and A.atoms() & {"Ch", "Sh", "Tn", "theta"}:
                        flags.append(("negative power", unparse(n)[:60]))
                    return A.pow(e)
            raise _NotEvaluated("operator in " + unparse(n)[:50])
        if isinstance(n, ast.Compare) and len(n.ops) == 1:
            a, b = ev(n.left, env), ev(n.comparators[0], env)
            if isinstance(a, num) and isinstance(b, num):
                return {"LtE": a <= b, "Lt": a < b, "GtE": a >= b, "Gt": a > b,
                        "Eq": a == b, "NotEq": a != b}[type(n.ops[0]).__name__]
            raise _NotEvaluated("comparison of angles")
        if isinstance(n, ast.Call):
            f = unparse(n.func)
            args = [ev(a, env) for a in n.args]
            if f in ("max", "min") and all(isinstance(a, num) for a in args):
                return (max if f == "max" else min)(args)
            if f == "range" and all(isinstance(a, int) for a in args):
                return range(*args)
            if f in ("sc.binom", "sc.special.binom", "scipy.special.binom", "math.comb",
                     "sc.comb", "sc.special.comb") and all(isinstance(a, num) for a in args):
                a_, b_ = int(args[0]), int(args[1])
                return math.comb(a_, b_) if 0 <= b_ <= a_ else 0
            if f in ("sc.factorial", "sc.special.factorial", "math.factorial") \
                    and isinstance(args[0], num):
                return math.factorial(int(args[0]))
            if f in ("abs",) and isinstance(args[0], num):
                return abs(args[0])
            if f in ("float", "int", "complex"):
                return args[0]
            if f in ("np.sqrt", "math.sqrt"):
                return asP(args[0]).pow(Fraction(1, 2))
            if f in ("np.cos", "np.sin", "np.tan") and asP(args[0]) == HALF:
                return P.atom({"np.cos": "Ch", "np.sin": "Sh", "np.tan": "Tn"}[f])
            if f == "np.exp":
                a = asP(args[0])
                # exp(i k phi) -> E**k
                if len(a.t) == 1:
                    (mono, c), = a.t.items()
                    if dict(mono) == {"I": Fraction(1), "phi": Fraction(1)} \
                            and c.denominator == 1:
                        return P.atom("E", int(c))
                if a.is_zero():
                    return 1
                raise _NotEvaluated("exponential " + unparse(n)[:50])
            if isinstance(n.func, ast.Name) and n.func.id in funcs:
                return call_py(funcs[n.func.id], args)
            raise _NotEvaluated("call " + f)
        raise _NotEvaluated("expression " + unparse(n)[:50])

    def block(stmts, env):
        for st in stmts:
            if isinstance(st, ast.Expr) and isinstance(st.value, ast.Constant):
                continue
            if isinstance(st, ast.Assign) and isinstance(st.targets[0], ast.Name):
                env[st.targets[0].id] = ev(st.value, env)
            elif isinstance(st, ast.AugAssign) and isinstance(st.target, ast.Name) \
                    and isinstance(st.op, (ast.Add, ast.Sub, ast.Mult)):
                cur, v = env[st.target.id], ev(st.value, env)
                if isinstance(st.op, ast.Add):
                    env[st.target.id] = asP(cur) + asP(v)
                elif isinstance(st.op, ast.Sub):
                    env[st.target.id] = asP(cur) - asP(v)
                else:
                    env[st.target.id] = asP(cur) * asP(v)
            elif isinstance(st, ast.For) and isinstance(st.target, ast.Name):
                it = ev(st.iter, env)
                if not isinstance(it, range):
                    raise _NotEvaluated("loop over " + unparse(st.iter)[:40])
                for x in it:
                    env[st.target.id] = x
                    r = block(st.body, env)
                    if r is not None:
                        return r
            elif isinstance(st, ast.If):
                c = ev(st.test, env)
                if not isinstance(c, bool):
                    raise _NotEvaluated("branch on an angle")
                r = block(st.body if c else st.orelse, env)
                if r is not None:
                    return r
            elif isinstance(st, ast.Return):
                return ("ret", ev(st.value, env))
            else:
                raise _NotEvaluated("statement " + unparse(st)[:50])
        return None
    r = block([x for x in fn.body if not (isinstance(x, ast.Expr)
                                          and isinstance(x.value, ast.Constant))], env)
    if r is None:
        raise _NotEvaluated("no return")
    return asP(r[1])


def _goldberg(s_, el_, m_):
    """Goldberg et al. (1967) Eq. 3.1, written independently of the library:
       sYlm = sqrt[(l+m)!(l-m)!(2l+1) / ((l+s)!(l-s)! 4 pi)] * sum_r C(l-s, r) C(l+s, r+s-m)
              (-1)^(l-r-s) e^{i m phi} cos^(2r+s-m)(theta/2) sin^(2l-2r-s+m)(theta/2)"""
    import math
    from fractions import Fraction
    from ..tpoly import P
    pref = (P.const(Fraction(math.factorial(el_ + m_) * math.factorial(el_ - m_) * (2 * el_ + 1),
                             math.factorial(el_ + s_) * math.factorial(el_ - s_) * 4))
            * P.atom("pi", -1)).pow(Fraction(1, 2))
    tot = P()
    for r in range(max(m_ - s_, 0), min(el_ + m_, el_ - s_) + 1):
        c = math.comb(el_ - s_, r) * math.comb(el_ + s_, r + s_ - m_) * (-1) ** (el_ - r - s_)
        tot = tot + (P.const(c) * P.atom("Ch", 2 * r + s_ - m_)
                     * P.atom("Sh", 2 * el_ - 2 * r - s_ + m_))
    e = P.atom("E", m_) if m_ else P.const(1)
    return pref * tot * e


def harmonics_formula(rep):
    """sYlm equals the Goldberg closed form, as an exact polynomial in cos(theta/2),
    sin(theta/2) and exp(i phi), for every spin |s| <= 2 and every (l, m) with l <= 4 -- the
    function is evaluated with those integers concrete and the angles symbolic (normalisation,
    phase and the m <-> s bookkeeping are all in that polynomial).  It is also regular at the
    poles: no division by, and no negative power of, a function of theta."""
    S = rep.sources
    fn = S.function(MATHS, "sYlm")
    funcs = {f.name: f for f in S.module(MATHS).body if isinstance(f, ast.FunctionDef)}
    key = f"{MATHS}::sYlm"
    bad, n = [], 0
    flags = []
    try:
        for s_ in range(-2, 3):
            for el_ in range(abs(s_), 5):
                for m_ in range(-el_, el_ + 1):
                    got = _eval_sylm(S, fn, funcs, s_, el_, m_, flags)
                    n += 1
                    if got != _goldberg(s_, el_, m_):
                        bad.append((s_, el_, m_))
    except _NotEvaluated as e:
        if flags:
            rep.violation("pole-regularity", key + "::poles",
                          f"sYlm divides by / takes a negative power of a function of theta "
                          f"({flags[0][0]}: `{flags[0][1]}`): at theta = 0 or pi the value is "
                          "inf - inf or nan, although the harmonic is finite there", node=fn,
                          file=MATHS)
            return
        raise AnalysisError(f"sYlm: not evaluated symbolically ({e})")
    rep.check(not flags, "pole-regularity", key + "::poles",
              "sYlm divides by / takes a negative power of a function of theta"
              + (f" ({flags[0][0]}: `{flags[0][1]}`)" if flags else "")
              + ": at a pole the value is inf - inf or nan, although the harmonic is finite "
              "there", node=fn, file=MATHS)
    rep.check(not bad, "harmonics-formula", key + "::goldberg",
              f"sYlm differs from the Goldberg closed form for (s, l, m) in {bad[:6]} "
              f"({len(bad)} of {n} cases)", node=fn, file=MATHS,
              detail={"cases": n, "spins": "-2..2", "lmax": 4})


def run(rep):
    rep.explanation = (
        "Structural clauses only: must-pass-through of the bounds refusal before the "
        "extrapolating interpolator (paired grid/target variables, both inequalities); sibling "
        "agreement of harmonic analysis and synthesis; flow of inclination and azimuth values "
        "into parameters of their role through the whole Psi4_lm pipeline; independence of the "
        "per-radius results; no fixed-width integer factorial.  Orthonormality/normalisation/"
        "phase of sYlm, interpolation exactness and convergence are not decided.")
    rep.assume("scipy.interpolate.RegularGridInterpolator, scipy.special.factorial/binom are "
               "trusted")
    bounds_refusal(rep)
    element_order(rep)
    module_state(rep)
    analysis_synthesis(rep)
    angle_roles(rep)
    per_radius(rep)
    sphere_centre(rep)
    factorial_domain(rep)
    harmonics_formula(rep)
    rep.floor("bounds-refusal", 2)
    rep.floor("analysis-synthesis", 4)
    rep.floor("angle-roles", 4)
    rep.floor("per-radius", 3)
