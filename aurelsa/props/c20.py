"""C20 -- spin-weighted harmonics and sphere extraction: the structural clauses.

Decided statically:

  bounds-refusal      the interpolator extrapolates (bounds_error=False, fill_value=None), so
                      every path to it passes the loop that raises when a target coordinate
                      leaves [grid_min, grid_max] of the *paired* grid axis
  analysis-synthesis  sYlm_coefficients and sYlm_reconstruct run over the same (l, m), key
                      alm[l, m], call sYlm with the same arguments; analysis uses the conjugate
                      and the quadrature weight
  angle-roles         inclination-derived values reach only inclination parameters, azimuth
                      values only azimuth parameters, through meshgrid('ij'),
                      spherical_to_cartesian, interpolate and sYlm_coefficients
  per-radius          nothing defined outside the loop over extraction radii is updated in
                      place inside it; the result is stored under the loop's radius
  factorial-domain    no fixed-width integer product in the normalisation (overflow for l > 10)

Orthonormality, normalisation and phase of sYlm, exactness of the interpolation and
convergence of the mode amplitudes are NOT decided."""
from __future__ import annotations

import ast

from ..common import AnalysisError, norm_src, unparse
from ..exact import const_value

LEVEL = "other"
NUM = "numerical.py"
MATHS = "maths.py"
CORE = "core.py"


def bounds_refusal(rep):
    S = rep.sources
    fn = S.function(NUM, "interpolate")
    params = [a.arg for a in fn.args.args]
    grid, target = params[1], params[2]
    body = [st for st in fn.body if not (isinstance(st, ast.Expr)
                                         and isinstance(st.value, ast.Constant))]
    interp_idx = None
    extrap = True
    for i, st in enumerate(body):
        for n in ast.walk(st):
            if isinstance(n, ast.Call) and unparse(n.func).endswith("RegularGridInterpolator"):
                interp_idx = i
                kw = {k.arg: k.value for k in n.keywords}
                be = kw.get("bounds_error")
                if be is None or (isinstance(be, ast.Constant) and be.value is True):
                    extrap = False     # scipy itself refuses
                args = [unparse(a) for a in n.args]
                rep.check(args[:2] == [grid, params[0]], "bounds-refusal",
                          f"{NUM}::interpolate::interpolator-args",
                          f"RegularGridInterpolator must be built from ({grid}, {params[0]})",
                          node=n)
    if interp_idx is None:
        raise AnalysisError("interpolate: RegularGridInterpolator call not found")
    key = f"{NUM}::interpolate"
    if not extrap:
        rep.ok("bounds-refusal", key + "::scipy-refuses")
        return
    # straight-line prefix: no return / branch before the interpolator except the check loop
    loops = []
    for st in body[:interp_idx]:
        if isinstance(st, ast.For):
            loops.append(st)
        elif isinstance(st, (ast.If, ast.While, ast.Try, ast.Return)):
            rep.violation("bounds-refusal", key + "::bypass",
                          f"`{norm_src(st)[:50]}` before the interpolator may bypass the "
                          "bounds check", node=st)
    ok, why, node = False, "no loop over zip(grid_points, target_points) raising on " \
        "out-of-range targets precedes the extrapolating interpolator", fn
    for lp in loops:
        it = unparse(lp.iter)
        if f"zip({grid}, {target}" not in it:
            continue
        # loop variables
        tg = lp.target
        names = [unparse(e) for e in (tg.elts[-1].elts if isinstance(tg, ast.Tuple)
                                      and isinstance(tg.elts[-1], ast.Tuple) else
                                      (tg.elts if isinstance(tg, ast.Tuple) else []))]
        if len(names) != 2:
            continue
        gv, tv = names
        env = {}
        raises = None
        for st in lp.body:
            if isinstance(st, ast.Assign) and isinstance(st.targets[0], ast.Tuple) \
                    and isinstance(st.value, ast.Tuple):
                for t, v in zip(st.targets[0].elts, st.value.elts):
                    env[unparse(t)] = unparse(v)
            elif isinstance(st, ast.Assign):
                env[unparse(st.targets[0])] = unparse(st.value)
            elif isinstance(st, ast.If) and any(isinstance(x, ast.Raise) for x in st.body):
                raises = st
        if raises is None:
            why, node = "the bounds loop does not raise", lp
            continue
        t = raises.test
        conds = t.values if isinstance(t, ast.BoolOp) and isinstance(t.op, ast.Or) else [t]
        got = set()
        for c in conds:
            if isinstance(c, ast.Compare) and len(c.ops) == 1:
                left = env.get(unparse(c.left), unparse(c.left))
                right = env.get(unparse(c.comparators[0]), unparse(c.comparators[0]))
                op = type(c.ops[0]).__name__
                if op in ("Gt", "GtE"):      # normalise a > b  to  b < a
                    left, right, op = right, left, {"Gt": "Lt", "GtE": "LtE"}[op]
                got.add((left, op, right))
        want_lo = (f"{tv}.min()", "Lt", f"{gv}.min()")
        want_hi = (f"{gv}.max()", "Lt", f"{tv}.max()")
        ok = want_lo in got and want_hi in got
        why = (f"the refusal condition {sorted(got)} is not "
               f"`{tv}.min() < {gv}.min() or {tv}.max() > {gv}.max()` on the paired "
               "grid/target arrays")
        node = raises
        if ok:
            break
    rep.check(ok, "bounds-refusal", key + "::refuses-outside", why, node=node)


def loops_lm(fn):
    """[(el var, m var, outer range text, inner range text, inner body)]"""
    out = []
    for n in ast.walk(fn):
        if isinstance(n, ast.For) and isinstance(n.iter, ast.Call) \
                and unparse(n.iter.func) == "range":
            for m in n.body:
                if isinstance(m, ast.For) and isinstance(m.iter, ast.Call) \
                        and unparse(m.iter.func) == "range":
                    out.append((unparse(n.target), unparse(m.target), unparse(n.iter),
                                unparse(m.iter), m.body))
    return out


def analysis_synthesis(rep):
    S = rep.sources
    co = S.function(MATHS, "sYlm_coefficients")
    re_ = S.function(MATHS, "sYlm_reconstruct")
    sy = S.function(MATHS, "sYlm")
    sy_params = [a.arg for a in sy.args.args]
    lc, lr = loops_lm(co), loops_lm(re_)
    key = f"{MATHS}::sYlm_coefficients~sYlm_reconstruct"
    if len(lc) != 1 or len(lr) != 1:
        raise AnalysisError("sYlm analysis/synthesis: (l, m) loops not found")
    (el1, m1, r1, s1, b1), (el2, m2, r2, s2, b2) = lc[0], lr[0]

    def norm(txt, el, m):
        import re
        txt = re.sub(rf"\b{re.escape(el)}\b", "L", txt)
        return re.sub(rf"\b{re.escape(m)}\b", "M", txt)
    lmax_c, lmax_r = co.args.args[1].arg, re_.args.args[1].arg
    rep.check(norm(r1, el1, m1).replace(lmax_c, "LMAX") == norm(r2, el2, m2).replace(
        lmax_r, "LMAX") == "range(LMAX + 1)" and norm(s1, el1, m1) == norm(s2, el2, m2)
        == "range(-L, L + 1)", "analysis-synthesis", key + "::ranges",
        f"(l, m) ranges differ or are not 0..lmax, -l..l: {r1}/{s1} vs {r2}/{s2}", node=co)

    def sylm_calls(body):
        return [n for st in body for n in ast.walk(st) if isinstance(n, ast.Call)
                and unparse(n.func) == "sYlm"]
    c1, c2 = sylm_calls(b1), sylm_calls(b2)
    ok = len(c1) == 1 and len(c2) == 1
    if ok:
        a1 = [unparse(a) for a in c1[0].args]
        a2 = [unparse(a) for a in c2[0].args]
        p1 = [a.arg for a in co.args.args]
        p2 = [a.arg for a in re_.args.args]
        # (s, el, m, theta, phi) by role
        ok = a1 == [p1[0], el1, m1, p1[3], p1[4]] and a2 == [p2[0], el2, m2, p2[3], p2[4]] \
            and sy_params == ["s", "el", "m", "theta", "phi"] \
            and p1[3:5] == ["theta", "phi"] and p2[3:5] == ["theta", "phi"]
    rep.check(ok, "analysis-synthesis", key + "::sYlm-args",
              "both must call sYlm(s, el, m, theta, phi) with their own parameters in that "
              "role order", node=c1[0] if c1 else co)
    # analysis: alm[el, m] = sum(conj(sYlm) * f * dtheta_weight * dphi)
    st = [x for x in b1 if isinstance(x, ast.Assign)]
    ok = False
    if st and unparse(st[0].targets[0]).replace("(", "").replace(")", "") == f"alm[{el1}, {m1}]":
        v = st[0].value
        if isinstance(v, ast.Call) and unparse(v.func) == "np.sum" and len(v.args) == 1:
            facs = []
            x = v.args[0]
            while isinstance(x, ast.BinOp) and isinstance(x.op, ast.Mult):
                facs.append(unparse(x.right))
                x = x.left
            facs.append(unparse(x))
            p1 = [a.arg for a in co.args.args]
            want = {f"np.conj({unparse(c1[0])})", p1[2], p1[5], p1[6]} if c1 else set()
            ok = set(facs) == want and len(facs) == 4
    rep.check(ok, "analysis-synthesis", key + "::projection",
              "alm[l, m] must be sum(conj(sYlm) * f * dtheta_weight * dphi)", node=co)
    # synthesis: f += alm[el, m] * sYlm(...)
    st = [x for x in b2 if isinstance(x, ast.AugAssign)]
    ok = bool(st) and isinstance(st[0].op, ast.Add) and c2 and \
        unparse(st[0].value).replace("(", "").replace(")", "") in (
            f"alm[{el2}, {m2}] * " + unparse(c2[0]).replace("(", "").replace(")", ""),
            unparse(c2[0]).replace("(", "").replace(")", "") + f" * alm[{el2}, {m2}]")
    rep.check(ok, "analysis-synthesis", key + "::synthesis",
              "the reconstruction must add alm[l, m] * sYlm(s, l, m, theta, phi)", node=re_)


def angle_roles(rep):
    S = rep.sources
    fn = S.function(CORE, "AurelCore.Psi4_lm")
    asg = {}
    for st in ast.walk(fn):
        if isinstance(st, ast.Assign):
            for t in st.targets:
                if isinstance(t, ast.Name):
                    asg.setdefault(t.id, []).append(st.value)
                elif isinstance(t, ast.Tuple):
                    for i, e in enumerate(t.elts):
                        asg.setdefault(unparse(e), []).append(("item", i, st.value))
    key = f"{CORE}::AurelCore.Psi4_lm"

    def role_of_array(name):
        """'incl' if built as pi * arange(...)/(N+1), 'azim' if 2*pi*..."""
        v = (asg.get(name) or [None])[0]
        if v is None or isinstance(v, tuple):
            return None
        txt = unparse(v)
        if txt.startswith("2 * np.pi *"):
            return "azim"
        if txt.startswith("np.pi *"):
            return "incl"
        return None
    mg = None
    for st in ast.walk(fn):
        if isinstance(st, ast.Assign) and isinstance(st.value, ast.Call) \
                and unparse(st.value.func) == "np.meshgrid":
            mg = st
    if mg is None:
        raise AnalysisError("Psi4_lm: angular meshgrid not found")
    args = [unparse(a) for a in mg.value.args]
    tg = [unparse(e) for e in mg.targets[0].elts]
    kw = {k.arg: getattr(k.value, "value", None) for k in mg.value.keywords}
    roles = {}
    for a, t in zip(args, tg):
        roles[t] = role_of_array(a)
    rep.check(kw.get("indexing") == "ij" and len(args) == 2
              and sorted(roles.values(), key=str) == ["azim", "incl"],
              "angle-roles", key + "::meshgrid",
              f"the angular grid must be meshgrid(inclination, azimuth, indexing='ij'); roles "
              f"found {roles}", node=mg)
    incl = [k for k, v in roles.items() if v == "incl"]
    azim = [k for k, v in roles.items() if v == "azim"]
    if not incl or not azim:
        return
    incl, azim = incl[0], azim[0]
    # spacing variables
    dth = [k for k, v in asg.items() if v and not isinstance(v[0], tuple)
           and unparse(v[0]).startswith("np.diff(") and role_of_array(
               unparse(v[0].args[0].args[0]) if isinstance(v[0], ast.Subscript) is False
               and False else "") is None]
    del dth
    spacing = {}
    for k, vs in asg.items():
        v = vs[0]
        if not isinstance(v, tuple) and isinstance(v, ast.Subscript) \
                and isinstance(v.value, ast.Call) and unparse(v.value.func) == "np.diff":
            spacing[k] = role_of_array(unparse(v.value.args[0]))
    # calls
    s2c = S.function("finitedifference.py", "FiniteDifference.spherical_to_cartesian")
    s2c_params = [a.arg for a in s2c.args.args][1:]
    for n in ast.walk(fn):
        if isinstance(n, ast.Call) and unparse(n.func) == "self.fd.spherical_to_cartesian":
            a = [unparse(x) for x in n.args]
            rep.check(s2c_params == ["r", "theta", "phi"] and len(a) == 3 and a[1] == incl
                      and a[2] == azim, "angle-roles", key + "::spherical_to_cartesian",
                      f"spherical_to_cartesian(r, theta=inclination, phi=azimuth): got {a}",
                      node=n)
        if isinstance(n, ast.Call) and unparse(n.func) == "maths.sYlm_coefficients":
            a = [unparse(x) for x in n.args]
            ok = len(a) == 7 and a[3] == incl and a[4] == azim
            if ok:
                w = n.args[5]
                facs = []
                x = w
                while isinstance(x, ast.BinOp) and isinstance(x.op, ast.Mult):
                    facs.append(unparse(x.right))
                    x = x.left
                facs.append(unparse(x))
                sp_incl = [k for k, r in spacing.items() if r == "incl"]
                sp_azim = [k for k, r in spacing.items() if r == "azim"]
                ok = f"np.sin({incl})" in facs and any(s in facs for s in sp_incl) \
                    and len(facs) == 2 and a[6] in sp_azim
            rep.check(ok, "angle-roles", key + "::sYlm_coefficients",
                      "sYlm_coefficients(s, lmax, f, theta=inclination grid, phi=azimuth grid, "
                      f"sin(theta)*dtheta, dphi): got {a}", node=n)
            rep.check(const_value(n.args[0]) == -2 and a[1] == "self.lmax", "angle-roles",
                      key + "::spin-weight", "Psi4 has spin weight -2 and lmax = self.lmax",
                      node=n)
    # spherical_to_cartesian body: x = r sin(theta) cos(phi), ...
    body = {unparse(st.targets[0]): unparse(st.value) for st in s2c.body
            if isinstance(st, ast.Assign)}
    want = {"x": "r * np.sin(theta) * np.cos(phi)", "y": "r * np.sin(theta) * np.sin(phi)",
            "z": "r * np.cos(theta)"}
    ret = [st for st in s2c.body if isinstance(st, ast.Return)]
    rep.check(body == want and ret and unparse(ret[0].value).replace("(", "").replace(
        ")", "") == "x, y, z", "angle-roles", "finitedifference.py::spherical_to_cartesian",
        f"theta is the inclination and phi the azimuth: expected {want}", node=s2c)


def per_radius(rep):
    S = rep.sources
    fn = S.function(CORE, "AurelCore.Psi4_lm")
    loop = None
    for st in fn.body:
        if isinstance(st, ast.For) and "extract_radii" in unparse(st.iter):
            loop = st
    if loop is None:
        raise AnalysisError("Psi4_lm: loop over extraction radii not found")
    lv = unparse(loop.target)
    outer = set()
    for st in fn.body:
        if st is loop:
            break
        for n in ast.walk(st):
            if isinstance(n, ast.Assign):
                for t in n.targets:
                    for x in ast.walk(t):
                        if isinstance(x, ast.Name):
                            outer.add(x.id)
    alias = set(outer)
    bad = []
    stores = []
    for st in loop.body:
        for n in ast.walk(st):
            if isinstance(n, ast.Assign):
                # aliasing of an outer object (bare name or view)
                v = n.value
                root = v
                while isinstance(root, (ast.Subscript, ast.Attribute)):
                    root = root.value
                for t in n.targets:
                    if isinstance(t, ast.Name):
                        if isinstance(root, ast.Name) and root.id in alias \
                                and not isinstance(v, ast.Call):
                            alias.add(t.id)
                        else:
                            alias.discard(t.id) if t.id not in outer else None
                    elif isinstance(t, ast.Subscript):
                        r = t.value
                        while isinstance(r, (ast.Subscript, ast.Attribute)):
                            r = r.value
                        if isinstance(r, ast.Name) and r.id in alias:
                            if unparse(t.slice) == lv and isinstance(t.value, ast.Name):
                                stores.append(n)     # result[radius] = ...
                            else:
                                bad.append(n)
            elif isinstance(n, ast.AugAssign):
                r = n.target
                while isinstance(r, (ast.Subscript, ast.Attribute)):
                    r = r.value
                if isinstance(r, ast.Name) and r.id in alias:
                    bad.append(n)
            elif isinstance(n, ast.Call) and isinstance(n.func, ast.Attribute) \
                    and n.func.attr in ("append", "extend", "fill", "sort", "put", "resize") \
                    and isinstance(n.func.value, ast.Name) and n.func.value.id in alias:
                bad.append(n)
    key = f"{CORE}::AurelCore.Psi4_lm::per-radius"
    rep.check(not bad, "per-radius", key + "::no-carried-state",
              "an object defined before the loop over extraction radii is updated in place "
              "inside it, so one radius' result depends on the radii processed before: "
              + (norm_src(bad[0])[:70] if bad else ""), node=bad[0] if bad else loop)
    rep.check(len(stores) == 1 and "sYlm_coefficients" in unparse(stores[0].value),
              "per-radius", key + "::keyed-by-radius",
              "the mode coefficients must be stored under the loop's own radius", node=loop)
    # each radius uses the loop variable for its sphere
    uses = [n for n in ast.walk(loop) if isinstance(n, ast.Call)
            and unparse(n.func) == "self.fd.spherical_to_cartesian"]
    rep.check(len(uses) == 1 and unparse(uses[0].args[0]) == lv, "per-radius",
              key + "::sphere-radius", "the sampling sphere must have the loop's radius",
              node=loop)


def factorial_domain(rep):
    S = rep.sources
    for q in ("factorial", "sYlm"):
        fn = S.function(MATHS, q)
        bad = [n for n in ast.walk(fn) if isinstance(n, ast.Call)
               and unparse(n.func) in ("np.prod", "np.cumprod", "np.product", "math.prod")
               and not any(k.arg == "dtype" for k in n.keywords)]
        rep.check(not bad, "factorial-domain", f"{MATHS}::{q}",
                  "a product over an integer range is evaluated in fixed-width integers: it "
                  "overflows silently from 21! on (degrees l > 10): "
                  + (norm_src(bad[0])[:60] if bad else ""), node=bad[0] if bad else fn)
    fn = S.function(MATHS, "factorial")
    rets = [unparse(n.value) for n in ast.walk(fn) if isinstance(n, ast.Return)]
    rep.check(any(r in ("sc.factorial(n)", "math.factorial(n)", "float(math.factorial(n))")
                  for r in rets) and "1" in rets, "factorial-domain",
              f"{MATHS}::factorial::delegates",
              f"factorial must return 1 for n <= 1 and an exact/float library factorial "
              f"otherwise; returns {rets}", node=fn)


def run(rep):
    rep.explanation = (
        "Structural clauses only: must-pass-through of the bounds refusal before the "
        "extrapolating interpolator (paired grid/target variables, both inequalities); sibling "
        "agreement of harmonic analysis and synthesis; flow of inclination and azimuth values "
        "into parameters of their role through the whole Psi4_lm pipeline; independence of the "
        "per-radius results; no fixed-width integer factorial.  Orthonormality/normalisation/"
        "phase of sYlm, interpolation exactness and convergence are not decided.")
    rep.assume("scipy.interpolate.RegularGridInterpolator, scipy.special.factorial/binom are "
               "trusted")
    bounds_refusal(rep)
    analysis_synthesis(rep)
    angle_roles(rep)
    per_radius(rep)
    factorial_domain(rep)
    rep.floor("bounds-refusal", 2)
    rep.floor("analysis-synthesis", 4)
    rep.floor("angle-roles", 4)
    rep.floor("per-radius", 3)
