"""Rule functions over reading.py shared by C11, C12, C13 and C18."""
from __future__ import annotations

import ast
import re

from .common import call_arg, AnalysisError, norm_src, unparse
from .defassign import analyse_module
from .exact import const_value

RD = "reading.py"


def fnode(rep, name):
    return rep.sources.function(RD, name)


def walk_calls(fn, name):
    return [n for n in ast.walk(fn) if isinstance(n, ast.Call) and unparse(n.func) == name]


def parent_stmt(node):
    while node is not None and not isinstance(node, ast.stmt):
        node = getattr(node, "_parent", None)
    return node


def ancestors(node):
    out = []
    node = getattr(node, "_parent", None)
    while node is not None:
        out.append(node)
        node = getattr(node, "_parent", None)
    return out


def assignments_to(fn, name):
    out = []
    for n in ast.walk(fn):
        if isinstance(n, ast.Assign):
            for t in n.targets:
                for x in ([t] if not isinstance(t, ast.Tuple) else t.elts):
                    if isinstance(x, ast.Name) and x.id == name:
                        out.append(n)
        elif isinstance(n, (ast.For,)):
            for x in ast.walk(n.target):
                if isinstance(x, ast.Name) and x.id == name:
                    out.append(n)
    return out


_SINGLE = {}


def single_defs(fn):
    """name -> value for the local names bound exactly once in fn by a plain assignment"""
    if id(fn) not in _SINGLE:
        counts, vals = {}, {}
        params = {a.arg for a in fn.args.args + fn.args.kwonlyargs}
        for n in ast.walk(fn):
            if isinstance(n, ast.Name) and isinstance(n.ctx, ast.Store):
                counts[n.id] = counts.get(n.id, 0) + 1
            if isinstance(n, ast.Assign) and len(n.targets) == 1 \
                    and isinstance(n.targets[0], ast.Name):
                vals[n.targets[0].id] = n.value
            # a, b = V: each name is the element of V at its position
            if isinstance(n, ast.Assign) and len(n.targets) == 1 \
                    and isinstance(n.targets[0], (ast.Tuple, ast.List)) \
                    and all(isinstance(e, ast.Name) for e in n.targets[0].elts):
                for i, e in enumerate(n.targets[0].elts):
                    vals[e.id] = ast.Subscript(value=n.value, slice=ast.Constant(i),
                                               ctx=ast.Load())
        _SINGLE[id(fn)] = ({k: v for k, v in vals.items()
                            if counts.get(k) == 1 and k not in params}, fn)
    return _SINGLE[id(fn)][0]


def resolve(fn, node, depth=0, keep=()):
    """copy of the expression `node` in which every local name that is bound exactly once in
    `fn` (by a plain assignment) is replaced by its (resolved) value -- what the expression
    means in terms of parameters, loop variables and calls.  For comparisons only."""
    import copy
    defs = single_defs(fn)

    class R(ast.NodeTransformer):
        def visit_Name(self, n):
            if isinstance(n.ctx, ast.Load) and depth <= 6 and n.id in defs \
                    and n.id not in keep:
                return resolve(fn, defs[n.id], depth + 1, keep)
            return n

        def visit_Subscript(self, n):
            self.generic_visit(n)
            if isinstance(n.value, (ast.Tuple, ast.List)) and isinstance(n.slice, ast.Constant) \
                    and isinstance(n.slice.value, int) and not isinstance(n.slice.value, bool) \
                    and 0 <= n.slice.value < len(n.value.elts) and not any(
                        isinstance(e, ast.Starred) for e in n.value.elts):
                return n.value.elts[n.slice.value]
            # {'a': X, 'b': Y}['a']  ->  X
            if isinstance(n.value, ast.Dict) and isinstance(n.slice, ast.Constant) \
                    and all(isinstance(k, ast.Constant) for k in n.value.keys):
                hits = [v for k, v in zip(n.value.keys, n.value.values)
                        if k.value == n.slice.value and type(k.value) is type(n.slice.value)]
                if len(hits) == 1:
                    return hits[0]
            return n
    for x in ast.walk(node):
        x.__dict__.pop("_parent_tmp", None)
    saved = [(x, x.__dict__.pop("_parent")) for x in ast.walk(node) if "_parent" in x.__dict__]
    try:
        new = copy.deepcopy(node)
    finally:
        for x, p in saved:
            x._parent = p
    return R().visit(new)


def rtext(fn, node, keep=()):
    return unparse(resolve(fn, node, 0, keep))


def local_value(st, name, fn):
    """What `name` holds at statement `st`: the value of the closest preceding unconditional
    assignment in the enclosing blocks (ast node), ('loop', For) when it is the target of an
    enclosing loop, None when a conditional or repeated binding intervenes."""
    cur = st
    while cur is not None and cur is not fn:
        par = getattr(cur, "_parent", None)
        if par is None:
            return None
        for field in ("body", "orelse", "finalbody"):
            blk = getattr(par, field, None)
            if isinstance(blk, list) and any(x is cur for x in blk):
                k = [i for i, x in enumerate(blk) if x is cur][0]
                for prev in reversed(blk[:k]):
                    if isinstance(prev, ast.Assign) and len(prev.targets) == 1 \
                            and isinstance(prev.targets[0], ast.Name) \
                            and prev.targets[0].id == name:
                        return prev.value
                    if any(isinstance(n, ast.Name) and n.id == name
                           and isinstance(n.ctx, (ast.Store, ast.Del)) for n in ast.walk(prev)):
                        return None
        if isinstance(par, ast.For) and any(
                isinstance(n, ast.Name) and n.id == name for n in ast.walk(par.target)):
            return ("loop", par)
        cur = par
    return None


def local_values(st, name, fn):
    """All the values `name` may hold at statement `st`: like local_value, but a preceding
    `if` that assigns the name on some path contributes its assignments and the search goes
    on.  None when a binding is not a plain assignment; entries are ast nodes or
    ('loop', For)."""
    out = []
    cur = st
    while cur is not None and cur is not fn:
        par = getattr(cur, "_parent", None)
        if par is None:
            return None
        for field in ("body", "orelse", "finalbody"):
            blk = getattr(par, field, None)
            if isinstance(blk, list) and any(x is cur for x in blk):
                k = [i for i, x in enumerate(blk) if x is cur][0]
                for prev in reversed(blk[:k]):
                    if isinstance(prev, ast.Assign) and len(prev.targets) == 1 \
                            and isinstance(prev.targets[0], ast.Name) \
                            and prev.targets[0].id == name:
                        return out + [prev.value]
                    stores = [n for n in ast.walk(prev) if isinstance(n, ast.Name)
                              and n.id == name and isinstance(n.ctx, (ast.Store, ast.Del))]
                    if not stores:
                        continue
                    if not isinstance(prev, ast.If):
                        return None
                    for a in ast.walk(prev):
                        if isinstance(a, (ast.For, ast.While, ast.Try, ast.With)) and any(
                                s_ in list(ast.walk(a)) for s_ in stores):
                            return None
                    asg = [a for a in ast.walk(prev) if isinstance(a, ast.Assign)
                           and len(a.targets) == 1 and isinstance(a.targets[0], ast.Name)
                           and a.targets[0].id == name]
                    if len(asg) != len(stores):
                        return None
                    out += [a.value for a in asg]
        if isinstance(par, ast.For) and any(
                isinstance(n, ast.Name) and n.id == name for n in ast.walk(par.target)):
            return out + [("loop", par)]
        cur = par
    return None


def role_of(fn, name):
    """what a local name stands for, independent of its spelling"""
    params = [a.arg for a in fn.args.args]
    if name in params:
        return f"param:{name}"
    for n in ast.walk(fn):
        tg, it = None, None
        if isinstance(n, ast.For):
            tg, it = n.target, n.iter
        elif isinstance(n, ast.comprehension):
            tg, it = n.target, n.iter
        if tg is None:
            continue
        names = [x.id for x in ast.walk(tg) if isinstance(x, ast.Name)]
        if name not in names:
            continue
        src = _request_text(fn, it)
        if isinstance(it, ast.Call) and unparse(it.func) == "enumerate" and it.args \
                and isinstance(tg, ast.Tuple) and len(tg.elts) == 2:
            kind = "index" if unparse(tg.elts[0]) == name else "each"
            return f"{kind}({_request_text(fn, it.args[0])})"
        return f"each({src})"
    defs = single_defs(fn)
    if name in defs:
        return None         # resolved by substitution
    import builtins
    if hasattr(builtins, name) and not any(
            isinstance(n, ast.Name) and n.id == name and isinstance(n.ctx, ast.Store)
            for n in ast.walk(fn)):
        return None         # int, str, len, ...: the builtin itself
    return "local"          # several bindings: a working variable of the function


def _request_text(fn, node):
    """resolved text of what a loop runs over; the default of a keyword request, which is only
    iterated, reads the same as a tuple or as a list: kwargs.get('it', (0,)) ~ [0]"""
    r = resolve(fn, node)
    for c in ast.walk(r):
        if isinstance(c, ast.Call) and isinstance(c.func, ast.Attribute) and c.func.attr == "get" \
                and len(c.args) == 2 and isinstance(c.args[1], ast.Tuple) \
                and all(isinstance(e, ast.Constant) for e in c.args[1].elts):
            c.args[1] = ast.List(elts=c.args[1].elts, ctx=ast.Load())
    return unparse(r)


def sem_template(fn, node):
    """canonical string template of an expression: list of ('s', literal) / ('h', hole) with
    f-strings, concatenation and str.format unified, temporaries resolved and the names in
    holes replaced by their roles"""
    node = resolve(fn, node)
    parts = []

    def lit(t):
        if parts and parts[-1][0] == "s":
            parts[-1] = ("s", parts[-1][1] + t)
        elif t:
            parts.append(("s", t))

    def hole(n, spec=""):
        import copy

        class T(ast.NodeTransformer):
            def visit_Name(self, x):
                r = role_of(fn, x.id)
                if r:
                    return ast.Name(id="<" + r + ">", ctx=ast.Load())
                return x
        txt = unparse(T().visit(copy.deepcopy(n)))
        parts.append(("h", txt + (":" + spec if spec else "")))

    def add(n):
        if isinstance(n, ast.Constant) and isinstance(n.value, str):
            lit(n.value)
        elif isinstance(n, ast.JoinedStr):
            for v in n.values:
                if isinstance(v, ast.Constant):
                    lit(v.value)
                else:
                    spec = ""
                    if v.format_spec is not None:
                        spec = "".join(x.value for x in v.format_spec.values
                                       if isinstance(x, ast.Constant))
                    hole(v.value, spec)
        elif isinstance(n, ast.BinOp) and isinstance(n.op, ast.Add):
            add(n.left)
            add(n.right)
        elif isinstance(n, ast.Call) and isinstance(n.func, ast.Attribute) \
                and n.func.attr == "format" and isinstance(n.func.value, ast.Constant) \
                and isinstance(n.func.value.value, str) and not n.keywords:
            import string
            k = 0
            for text, field, spec, _conv in string.Formatter().parse(n.func.value.value):
                lit(text)
                if field is not None:
                    idx = int(field) if field.isdigit() else k
                    k += 1
                    if idx < len(n.args):
                        hole(n.args[idx], spec or "")
                    else:
                        parts.append(("h", "?"))
        elif isinstance(n, ast.Call) and unparse(n.func) == "str" and len(n.args) == 1:
            hole(n.args[0])
        else:
            hole(n)
    add(node)
    return parts


def templates_with(fn, needle):
    """canonical templates of the string-building expressions of fn whose literal text
    contains `needle` (outermost expressions only)"""
    out = []
    seen = set()

    def stringy(n):
        return isinstance(n, ast.JoinedStr) or (
            isinstance(n, ast.BinOp) and isinstance(n.op, ast.Add)) or (
            isinstance(n, ast.Call) and isinstance(n.func, ast.Attribute)
            and n.func.attr == "format")
    for n in ast.walk(fn):
        if not stringy(n) or id(n) in seen:
            continue
        par = getattr(n, "_parent", None)
        if par is not None and stringy(par) and not isinstance(par, ast.FormattedValue):
            continue
        if isinstance(par, ast.FormattedValue):
            continue
        for x in ast.walk(n):
            seen.add(id(x))
        try:
            t = sem_template(fn, n)
        except RecursionError:
            continue
        if any(k == "s" and needle in v for k, v in t):
            out.append((t, n))
    return out


def dependence_closure(fn, name, within=None):
    """names the value of `name` may depend on (flow-insensitive def-use closure over the
    assignments inside `within` (default: the whole function), including control dependence on
    the tests of enclosing ifs and on the iterables of enclosing loops inside `within`)"""
    lo, hi = (within.lineno, within.end_lineno) if within is not None else (0, 10**9)
    seen, todo = set(), [name]
    while todo:
        nm = todo.pop()
        if nm in seen:
            continue
        seen.add(nm)
        for a in assignments_to(fn, nm):
            if not (lo <= a.lineno <= hi):
                continue
            srcs = [a.value] if isinstance(a, ast.Assign) else [a.iter]
            for anc in ancestors(a):
                if anc is within:
                    break
                if isinstance(anc, (ast.If, ast.While)):
                    srcs.append(anc.test)
                elif isinstance(anc, ast.For):
                    srcs.append(anc.iter)
            for src in srcs:
                bound = {x.id for c in ast.walk(src) if isinstance(c, ast.comprehension)
                         for x in ast.walk(c.target) if isinstance(x, ast.Name)}
                for x in ast.walk(src):
                    if isinstance(x, ast.Name) and x.id not in bound and x.id not in seen:
                        todo.append(x.id)
    return seen


def level_representative(rep):
    """iterations(): the dataset keys of one refinement level are narrowed to one process
    component before their iterations are listed.  The component used for level rl must be
    chosen among the components *of that level* (levels may have different numbers of
    components); a representative chosen from all keys silently drops the levels that lack
    it."""
    fn = fnode(rep, "iterations")
    key = f"{RD}::iterations::level-representative"
    loops = [n for n in ast.walk(fn) if isinstance(n, ast.For)
             and isinstance(n.iter, ast.Call) and unparse(n.iter.func) == "range"
             and "rl" in unparse(n.iter) and isinstance(n.target, ast.Name)]
    if not loops:
        raise AnalysisError("iterations: loop over refinement levels not found")
    n_sites = 0
    for lp in loops:
        rl = lp.target.id
        for comp in ast.walk(lp):
            if not isinstance(comp, (ast.ListComp, ast.GeneratorExp, ast.SetComp)):
                continue
            for g in comp.generators:
                tvars = {x.id for x in ast.walk(g.target) if isinstance(x, ast.Name)}
                for cond in g.ifs:
                    for sub in ast.walk(cond):
                        # a substring / membership filter on the key by a selected token
                        if isinstance(sub, ast.Compare) and len(sub.ops) == 1 \
                                and isinstance(sub.ops[0], (ast.In, ast.NotIn)) \
                                and isinstance(sub.left, ast.Name) \
                                and sub.left.id not in tvars \
                                and any(isinstance(x, ast.Name) and x.id in tvars
                                        for x in ast.walk(sub.comparators[0])):
                            tok = sub.left.id
                            n_sites += 1
                            defs = assignments_to(fn, tok)
                            inside = [a for a in defs
                                      if lp.lineno <= a.lineno <= lp.end_lineno]
                            dep = dependence_closure(fn, tok, within=lp)
                            ok = bool(defs) and len(inside) == len(defs) and rl in dep
                            rep.check(ok, "level-representative", f"{key}::{tok}",
                                      f"the keys of level `{rl}` are filtered by `{tok}`, which "
                                      "is not chosen from the keys of that level ("
                                      + ("assigned outside the level loop" if len(inside) != len(defs)
                                         else f"does not depend on `{rl}`")
                                      + "): a level without that component is dropped from "
                                      "the catalogue", node=sub)
    if n_sites == 0:
        raise AnalysisError("iterations: the per-level component filter was not found")


# =============================================================================================
# definite assignment with triaged exceptions
# =============================================================================================
# (function, variable) -> reason the use is safe although the variable is bound in a loop/branch
DA_EXCEPTIONS = {
    ("core.py::AurelCore.Lie_beta", "Lie"):
        "the input check admits only the four rank-2 labels that the if/elif chain covers",
    ("reading.py::iterations", "varkey"):
        "the file was catalogued from its dataset keys, so at least one key parses",
    ("reading.py::read_iterations", "restart_nbr"):
        "the writer emits the ' === restart ' line before any other line of a restart "
        "(checked by the protocol-order rule)",
    ("reading.py::read_ET_group_or_var", "key"):
        "intentional: the time attribute is read from the last dataset of the chunk loop, "
        "which runs at least once (crange and the variable list are non-empty)",
    ("reading.py::read_ET_checkpoints", "key"):
        "intentional: time attribute of the last dataset read for this iteration",
    ("reading.py::read_ET_checkpoints", "cmax"):
        "the while loop only exits once it0_file is non-empty, and both branches for a "
        "non-empty it0_file assign cmax",
}


def correlated_flag_ok(use):
    """V is used under `if F:` (or after `if not F: raise`), F is reset to False before the
    binding loops and every `F = True` is preceded, in an enclosing block of the same pass,
    by a binding of V."""
    fn = use.node
    while fn is not None and not isinstance(fn, ast.FunctionDef):
        fn = getattr(fn, "_parent", None)
    st = use.stmt
    flags = []
    for a in [st] + ancestors(st):
        if isinstance(a, ast.If) and isinstance(a.test, ast.Name):
            # only if the use is in the body (not the orelse)
            inbody = any(st is b or st in list(ast.walk(b)) for b in a.body)
            if inbody:
                flags.append((a.test.id, a))
    # `if not F: raise` earlier in the same function block
    for n in ast.walk(fn):
        if isinstance(n, ast.If) and isinstance(n.test, ast.UnaryOp) \
                and isinstance(n.test.op, ast.Not) and isinstance(n.test.operand, ast.Name) \
                and any(isinstance(b, ast.Raise) for b in n.body) \
                and n.lineno < use.node.lineno:
            flags.append((n.test.operand.id, n))
    for F, ifnode in flags:
        sets_true, sets_false = [], []
        for n in ast.walk(fn):
            if isinstance(n, ast.Assign) and len(n.targets) == 1 \
                    and isinstance(n.targets[0], ast.Name) and n.targets[0].id == F \
                    and isinstance(n.value, ast.Constant):
                (sets_true if n.value.value is True else sets_false).append(n)
        if not sets_true:
            continue
        # a reset F = False that precedes the if (same pass): in a block that is an ancestor
        # block of the if, at an earlier position, and not itself inside a loop that the if is
        # outside of
        reset_ok = False
        reset_line = None
        for r in sets_false:
            if r.lineno >= ifnode.lineno:
                continue
            rblk_owner = getattr(r, "_parent", None)
            if rblk_owner in ancestors(ifnode) or rblk_owner is getattr(ifnode, "_parent", None):
                # innermost loop containing the if must also contain the reset
                loops_if = [a for a in ancestors(ifnode) if isinstance(a, (ast.For, ast.While))]
                loops_r = [a for a in ancestors(r) if isinstance(a, (ast.For, ast.While))]
                if not loops_if or (loops_if[0] in loops_r or loops_if[0] is rblk_owner):
                    reset_ok = True
                    reset_line = max(reset_line or 0, r.lineno)
        if not reset_ok:
            continue
        all_dominated = True
        # only the `F = True` that can reach the test without passing the reset matter
        for t in [t for t in sets_true if reset_line < t.lineno < ifnode.lineno]:
            dominated = False
            cur = t
            for a in [getattr(t, "_parent", None)] + ancestors(getattr(t, "_parent", None)
                                                              or t):
                for field in ("body", "orelse", "finalbody"):
                    blk = getattr(a, field, None)
                    if isinstance(blk, list) and cur in blk:
                        for prev in blk[:blk.index(cur)]:
                            for x in ast.walk(prev):
                                if isinstance(x, ast.Name) and x.id == use.name \
                                        and isinstance(x.ctx, ast.Store):
                                    dominated = True
                if isinstance(a, ast.With):
                    for it in a.items:
                        if it.optional_vars is not None and use.name in unparse(
                                it.optional_vars):
                            dominated = True
                if a is fn or a is None:
                    break
                cur = a
            if not dominated:
                all_dominated = False
        if all_dominated:
            return F
    return None


def definite_assignment(rep, rels, rule="definite-assignment", only=None):
    """only: set of function names (within the modules) to which the rule is scoped"""
    S = rep.sources
    n = 0
    for rel in rels:
        for u in analyse_module(S, rel):
            if only is not None and u.fn.split("::")[1] not in only:
                continue
            n += 1
            key = f"{u.fn}::{u.name}@{norm_src(u.stmt)[:50] if u.stmt is not None else ''}"
            exc = DA_EXCEPTIONS.get((u.fn, u.name))
            if exc:
                rep.ok(rule + "/triaged", key, {"reason": exc})
                continue
            flag = correlated_flag_ok(u)
            if flag:
                rep.ok(rule + "/correlated-flag", key, {"flag": flag})
                continue
            rep.violation(rule, key,
                          f"`{u.name}` may be unassigned -- or still hold the value of a "
                          f"previous iteration/restart/file -- at `{norm_src(u.stmt)[:70]}`: it "
                          "is only bound inside a loop or branch that need not have run in "
                          "this pass", node=u.node, file=rel)
        for q in S.functions(rel):
            if only is None or q in only:
                rep.ok(rule, f"{rel}::{q}")
    return n


SCOPE = {
    "C11": {"read_ET_data", "read_ET_variables", "read_ET_group_or_var", "read_ET_checkpoints",
            "join_chunks", "fixij", "transform_vars_aurel_to_ET",
            "transform_vars_ET_to_aurel_groups", "transform_vars_ET_to_aurel",
            "transform_vars_tensor_to_scalar", "parse_hdf5_key", "parse_h5file", "read_data"},
    "C12": {"read_ET_data", "save_data", "read_aurel_data"},
    "C13": {"save_data", "read_aurel_data", "read_data"},
    "C18": {"iterations", "read_iterations", "collect_overall_iterations", "get_content",
            "parameters", "parse_hdf5_key", "parse_h5file", "saveprint"},
}


def protocol_order(rep):
    """first line written for a restart is the ' === restart ' header"""
    fn = fnode(rep, "iterations")
    loop = None
    for n in ast.walk(fn):
        if isinstance(n, ast.For) and unparse(n.iter) == "all_restarts":
            loop = n
    if loop is None:
        raise AnalysisError("iterations(): loop over restarts not found")
    first = None
    for st in loop.body:
        calls = [c for c in ast.walk(st) if isinstance(c, ast.Call)
                 and unparse(c.func) == "saveprint"]
        if calls:
            first = calls[0]
            break
    ok = first is not None and " === restart " in unparse(first.args[1])
    rep.check(ok, "protocol-order", f"{RD}::iterations::restart-header-first",
              "the first line written for a restart must be its ' === restart N' header: the "
              "parser attributes every following line to the last header seen", node=loop)


# =============================================================================================
# save / read (Aurel format)
# =============================================================================================
def row_index_provenance(rep):
    fn = fnode(rep, "save_data")
    writes = [c for c in ast.walk(fn) if isinstance(c, ast.Call)
              and isinstance(c.func, ast.Attribute) and c.func.attr == "create_dataset"]
    if not writes:
        raise AnalysisError("save_data: create_dataset call not found")
    for w in writes:
        data_kw = [k.value for k in w.keywords if k.arg == "data"]
        key = f"{RD}::save_data::row-index"
        if not data_kw or not isinstance(data_kw[0], ast.Subscript):
            rep.violation("row-index-provenance", key, "the value written is not data[key][row]",
                          node=w)
            continue
        row = data_kw[0].slice
        names = [x.id for x in ast.walk(row) if isinstance(x, ast.Name)]
        ok = False
        why = (f"the row `{unparse(row)}` written for iteration `iit` does not depend on "
               "data['it']: it is the position of the iteration in the `it` argument, so a "
               "subset of iterations files the rows of the first iterations under the wrong "
               "iteration numbers")
        # the loop over iterations
        loop = None
        for a in ancestors(w):
            if isinstance(a, ast.For) and "it" in unparse(a.iter):
                loop = a
        for nm in names:
            for a in assignments_to(fn, nm):
                if isinstance(a, ast.Assign) and "data['it']" in unparse(a.value) \
                        and loop is not None:
                    lv = [x.id for x in ast.walk(loop.target) if isinstance(x, ast.Name)]
                    if any(v in [y.id for y in ast.walk(a.value) if isinstance(y, ast.Name)]
                           for v in lv):
                        # guarded at most by "'it' in data"
                        conds = [c for c in ancestors(a) if isinstance(c, ast.If)
                                 and c.lineno > loop.lineno]
                        from . import boolnorm as B
                        if all(B.qform(resolve(fn, c.test)) == ("in", (("s", "it"),), "data")
                               for c in conds):
                            ok = True
        rep.check(ok, "row-index-provenance", key, why, node=w,
                  detail={"row": unparse(row)})
        # guard/use agreement: on the way to the write, the very expression that is written
        # has been tested `is not None`
        from . import boolnorm as B
        written = rtext(fn, data_kw[0])
        conds = []
        child, anc = w, getattr(w, "_parent", None)
        while anc is not None and anc is not fn:
            if isinstance(anc, ast.If):
                inbody = any(child is x or child in list(ast.walk(x)) for x in anc.body)
                t = anc.test if inbody else None
                if t is not None:
                    conj = t.values if isinstance(t, ast.BoolOp) and isinstance(t.op, ast.And) \
                        else [t]
                    conds += [rtext(fn, c) for c in conj]
            child, anc = anc, getattr(anc, "_parent", None)
        okg = f"{written} is not None" in conds
        rep.check(okg, "none-guard", f"{RD}::save_data::none-guard",
                  f"the value written is `{written}` but the tests on the way to the write are "
                  f"{conds or '(none)'}: a None entry is not skipped as documented", node=w)
        # dataset write discipline: delete-then-create, no in-place write
        blk = None
        stw = parent_stmt(w)
        par = getattr(stw, "_parent", None)
        for field in ("body", "orelse"):
            b = getattr(par, field, None)
            if isinstance(b, list) and stw in b:
                blk = b
        okd = False
        h5 = unparse(w.func.value)
        if blk is not None and w.args:
            i = blk.index(stw)
            skey = rtext(fn, w.args[0])
            for prev in blk[:i]:
                if isinstance(prev, ast.If) and isinstance(prev.test, ast.Compare) \
                        and isinstance(prev.test.ops[0], ast.In) \
                        and rtext(fn, prev.test.left) == skey \
                        and B.container(prev.test.comparators[0]) == h5 \
                        and any(isinstance(x, ast.Delete)
                                and isinstance(x.targets[0], ast.Subscript)
                                and unparse(x.targets[0].value) == h5
                                and rtext(fn, x.targets[0].slice) == skey for x in prev.body):
                    okd = True
        rep.check(okd, "dataset-write", f"{RD}::save_data::delete-then-create",
                  "an existing dataset of the same name must be deleted before create_dataset "
                  "(the new array replaces it whatever its dtype/shape)", node=w)
    bad = []
    h5names = {x.optional_vars.id for n in ast.walk(fn) if isinstance(n, ast.With)
               for x in n.items if isinstance(x.optional_vars, ast.Name)
               and "h5py.File" in unparse(x.context_expr)}
    for n in ast.walk(fn):
        if isinstance(n, (ast.Assign, ast.AugAssign)):
            for t in (n.targets if isinstance(n, ast.Assign) else [n.target]):
                root = t
                depth = 0
                while isinstance(root, ast.Subscript):
                    root = root.value
                    depth += 1
                if isinstance(root, ast.Name) and root.id in h5names and depth >= 1:
                    bad.append(n)
        if isinstance(n, ast.Call) and isinstance(n.func, ast.Attribute) \
                and n.func.attr in ("require_dataset", "write_direct", "resize"):
            bad.append(n)
    rep.check(not bad, "dataset-write", f"{RD}::save_data::no-inplace-dataset-write",
              "a dataset is written in place (`" + (norm_src(bad[0])[:50] if bad else "")
              + "`): the stored dtype/shape of an earlier save would be kept, so what is read "
              "back is not what was saved", node=bad[0] if bad else fn)


def template_agreement(rep):
    """cache directory, file name and dataset key templates of writer and reader, compared as
    canonical templates (f-string / concatenation / format unified, names replaced by roles)"""
    sv, rd = fnode(rep, "save_data"), fnode(rep, "read_aurel_data")

    def uniq(ts):
        out = []
        for t, _n in ts:
            if t not in out:
                out.append(t)
        return out

    def show(ts):
        return ["".join(v if k == "s" else "{" + v + "}" for k, v in t) for t in ts]

    def understood(*tss):
        """A hole that is still a call or an attribute of an unresolved local (an object built
        by a constructor the canonical form could not open) says nothing about what is
        written there: the comparison is then not established, neither way."""
        for ts in tss:
            for t in ts:
                for k, v in t:
                    if k == "h" and ("<local>(" in v or "<local>." in v):
                        raise AnalysisError(
                            "save_data / read_aurel_data: a template hole is an unresolved "
                            f"object (`{v[:60]}`): the templates cannot be compared")
    d1, d2 = uniq(templates_with(sv, "all_iterations")), uniq(templates_with(rd, "all_iterations"))
    if not d1 or not d2:
        raise AnalysisError("save_data / read_aurel_data: cache directory template not found")
    if d1 != d2:
        understood(d1, d2)
    rep.check(d1 == d2, "template-agreement", f"{RD}::save_data~read_aurel_data::cache-dir",
              f"cache directory templates differ: writer {show(d1)} reader {show(d2)}", node=rd)
    f1, f2 = uniq(templates_with(sv, ".hdf5")), uniq(templates_with(rd, ".hdf5"))
    if not f1 or not f2:
        raise AnalysisError("save_data / read_aurel_data: file name template not found")
    if not (f1 == f2 and len(f1) == 1):
        understood(f1, f2)
    rep.check(f1 == f2 and len(f1) == 1, "template-agreement",
              f"{RD}::save_data~read_aurel_data::file-name",
              f"file name templates differ: writer {show(f1)} reader {show(f2)}", node=rd)
    k1, k2 = uniq(templates_with(sv, " rl=")), uniq(templates_with(rd, " rl="))
    if not k1 or not k2:
        raise AnalysisError("save_data / read_aurel_data: dataset key template not found")

    def tail(t):        # the part after the variable name: ' rl=<level>'
        i = max(j for j, (k, v) in enumerate(t) if k == "s" and " rl=" in v)
        return t[i:]
    if not {tuple(tail(t)) for t in k1} <= {tuple(tail(t)) for t in k2}:
        understood(k1, k2)
    rep.check({tuple(tail(t)) for t in k1} <= {tuple(tail(t)) for t in k2},
              "template-agreement", f"{RD}::save_data~read_aurel_data::dataset-key",
              f"dataset key templates differ: writer {show(k1)} reader {show(k2)}", node=rd)
    # trailing-slash normalisation in both: somewhere the path is tested with endswith('/')
    # and a '/' is appended when the test fails
    for fn, nm in ((sv, "save_data"), (rd, "read_aurel_data")):
        ok = False
        for n in ast.walk(fn):
            if isinstance(n, (ast.If, ast.IfExp)) and ".endswith('/')" in unparse(n.test):
                neg = unparse(n.test).startswith("not ")
                branch = n.body if neg else n.orelse
                branch = branch if isinstance(branch, list) else [branch]
                txt = " ".join(unparse(x) for x in branch)
                ok = ok or "'/'" in txt
        rep.check(ok, "template-agreement", f"{RD}::{nm}::trailing-slash",
                  f"{nm} does not normalise a datapath without trailing '/', the other side "
                  "does: the reader would look for '<dir>it_N.hdf5'", node=fn)
    # both de-duplicate and sort the iterations the same way
    norms = {}
    for fn, nm in ((sv, "save_data"), (rd, "read_aurel_data")):
        binds = [n for n in ast.walk(fn) if isinstance(n, ast.Assign)
                 and isinstance(n.targets[0], ast.Name)
                 and re.match(r"^(?:(?:sorted|set|list|tuple|np\.array|np\.unique)\()*"
                              r"kwargs\.get\('it'", rtext(fn, n.value))]
        if not binds or len({rtext(fn, b.value) for b in binds}) != 1:
            raise AnalysisError(f"{nm}: the binding of the iterations from kwargs not found")
        norms[nm] = rtext(fn, binds[0].value)
        rep.check(norms[nm].startswith("sorted(set(kwargs.get('it'"), "template-agreement",
                  f"{RD}::{nm}::it-normalisation",
                  "iterations must be normalised with sorted(set(kwargs.get('it', ...)))",
                  node=binds[0])


def one_append_per_column(rep):
    fn = fnode(rep, "read_aurel_data")
    loop = None
    for n in ast.walk(fn):
        if isinstance(n, ast.For) and "enumerate(it)" in unparse(n.iter):
            loop = n
    if loop is None:
        raise AnalysisError("read_aurel_data: loop over iterations not found")
    idxv = unparse(loop.target.elts[0])
    key = f"{RD}::read_aurel_data"
    # flags deciding the discovery of variables are loop-invariant
    for flag in ("get_them_all",):
        inside = [a for a in assignments_to(fn, flag) if loop in ancestors(a)]
        rep.check(not inside, "column-shape", key + f"::{flag}-invariant",
                  f"`{flag}` is changed inside the loop over iterations: variables saved only "
                  "at later iterations are not discovered and their column is missing",
                  node=inside[0] if inside else loop)
    # the list of columns iterated for the appends holds each name once
    inits = [a for a in assignments_to(fn, "var") if isinstance(a, ast.Assign)
             and loop not in ancestors(a)]
    ok_init = bool(inits) and all(rtext(fn, a.value).startswith(("list(set(", "sorted(set("))
                                  for a in inits)
    rep.check(ok_init, "column-shape", key + "::unique-columns::init",
              "the list of variables to read is not de-duplicated: a name listed twice (e.g. a "
              "tensor together with one of its components) receives two entries per iteration "
              "and every later row is misaligned: "
              + "; ".join(norm_src(a)[:60] for a in inits), node=inits[0] if inits else fn)
    for n in ast.walk(fn):
        if isinstance(n, ast.AugAssign) and unparse(n.target) == "var":
            guarded = any(isinstance(a, ast.If) and "not in var" in unparse(a.test)
                          for a in ancestors(n))
            blk = None
            par = getattr(n, "_parent", None)
            while par is not None and blk is None:
                for field in ("body", "orelse"):
                    b = getattr(par, field, None)
                    if isinstance(b, list) and any(n is x or n in list(ast.walk(x))
                                                   for x in b):
                        later = False
                        for x in b:
                            if later and isinstance(x, ast.Assign) \
                                    and unparse(x.targets[0]) == "var" and any(
                                        isinstance(c_, ast.Call) and unparse(c_.func) == "set"
                                        and c_.args and any(
                                            isinstance(y, ast.Name) and y.id == "var"
                                            for y in ast.walk(c_.args[0]))
                                        for c_ in ast.walk(x.value)):
                                blk = x         # rebuilt from a set: duplicates removed
                            if n is x or n in list(ast.walk(x)):
                                later = True
                par = getattr(par, "_parent", None)
            rep.check(guarded or blk is not None, "column-shape",
                      key + f"::unique-columns::{norm_src(n)[:30]}",
                      f"`{norm_src(n)[:50]}` can add a name that is already listed (it is neither "
                      "guarded by `not in var` nor followed by a de-duplication): that column "
                      "gets two entries per iteration", node=n)
    top = [st for st in loop.body if isinstance(st, ast.If)]
    ok = False
    why = "per-iteration body is not `if not exists: ... else: ...`"
    if top:
        br = top[-1]
        missing, present = br.body, br.orelse
        if "os.path.exists" not in unparse(br.test):
            missing, present = [], []
        if isinstance(br.test, ast.UnaryOp) is False and "not" not in unparse(br.test):
            missing, present = br.orelse, br.body

        def appends(stmts):
            """appends to a column of the result, written on data[...] or on a local that
            holds it"""
            out = []
            for st in stmts:
                for c in ast.walk(st):
                    if not (isinstance(c, ast.Call) and isinstance(c.func, ast.Attribute)
                            and c.func.attr == "append"):
                        continue
                    recv = c.func.value
                    if isinstance(recv, ast.Name):
                        lv = local_value(parent_stmt(c), recv.id, fn)
                        if isinstance(lv, ast.AST):
                            recv = lv
                    if unparse(recv).startswith("data["):
                        out.append(c)
            return out
        m = appends(missing)
        ok_missing = len(m) == 1 and const_value(m[0].args[0]) is None \
            and unparse(m[0].args[0]) == "None"
        # present branch: the read loop `for key in var:` ends in if/else with one append each
        ok_present = False
        pad_ok = False
        for n in [x for st in present for x in ast.walk(st)]:
            if isinstance(n, ast.For) and unparse(n.iter) == "var":
                last = n.body[-1]
                if isinstance(last, ast.If) and last.orelse:
                    a1, a2 = appends(last.body), appends(last.orelse)
                    ok_present = len(a1) == 1 and len(a2) == 1 and len(appends(n.body)) == 2
                # on the way to each append of the read loop the column is padded when new
                def is_pad(st):
                    return isinstance(st, ast.If) and "not in data" in unparse(st.test) and any(
                        isinstance(x, ast.Assign)
                        and unparse(x.value).replace(" ", "") == f"[None]*{idxv}"
                        for x in st.body)

                def padded(call):
                    cur = parent_stmt(call)
                    while cur is not None and cur is not n:
                        par = getattr(cur, "_parent", None)
                        for field in ("body", "orelse"):
                            blk = getattr(par, field, None)
                            if isinstance(blk, list) and any(x is cur for x in blk):
                                k = [i for i, x in enumerate(blk) if x is cur][0]
                                if any(is_pad(x) for x in blk[:k]):
                                    return True
                        cur = par
                    return False
                aps = appends(n.body)
                pad_ok = pad_ok or (bool(aps) and all(padded(c) for c in aps))
        ok = ok_missing and ok_present and pad_ok
        why = (f"columns do not receive exactly one entry per iteration on every path "
               f"(missing-file branch ok={ok_missing}, read branch ok={ok_present}, padding of "
               f"a newly discovered column with [None]*{idxv} ok={pad_ok})")
    rep.check(ok, "column-shape", key + "::one-append-per-column", why, node=loop)


def dataset_read_key(rep):
    """The dataset read for a column is named by the writer's key template: every `f[K]` of
    read_aurel_data (f the opened cache file) has K = <name> + ' rl=' + <level> with the tail of
    a writer template, and <name> is the column `data[<name>]` the value is appended to.  A key
    drawn from the file's own keys is exact only when it is compared for equality with that
    template; a substring test whose last field is the level number selects ' rl=10' for
    level 1."""
    sv, fn = fnode(rep, "save_data"), fnode(rep, "read_aurel_data")
    rkey = f"{RD}::read_aurel_data::dataset-read-key"
    wtails = set()
    for t, _n in templates_with(sv, " rl="):
        i = max(j for j, (k, v) in enumerate(t) if k == "s" and " rl=" in v)
        wtails.add(tuple(t[i:]))
    if not wtails:
        raise AnalysisError("save_data: dataset key template not found")
    h5names = {x.optional_vars.id for n in ast.walk(fn) if isinstance(n, ast.With)
               for x in n.items if isinstance(x.optional_vars, ast.Name)
               and "h5py.File" in unparse(x.context_expr)}
    reads = [n for n in ast.walk(fn) if isinstance(n, ast.Subscript)
             and isinstance(n.ctx, ast.Load) and isinstance(n.value, ast.Name)
             and n.value.id in h5names]
    if not reads:
        raise AnalysisError("read_aurel_data: no dataset read `f[key]` found")

    def from_file_keys(it):
        t = unparse(it)
        return any(t in (h, f"{h}.keys()", f"list({h}.keys())", f"list({h})", f"sorted({h})",
                         f"sorted({h}.keys())") for h in h5names)

    def judge_tests(tests, kname, node):
        """tests that select the key `kname` among the file's keys"""
        exact, substring = False, None
        for t in tests:
            for c in ([t] if not (isinstance(t, ast.BoolOp) and isinstance(t.op, ast.And))
                      else t.values):
                if not (isinstance(c, ast.Compare) and len(c.ops) == 1):
                    continue
                l, r = c.left, c.comparators[0]
                if isinstance(c.ops[0], ast.Eq) and kname in (unparse(l), unparse(r)):
                    other = r if unparse(l) == kname else l
                    tp = sem_template(fn, other)
                    if any(k == "s" and " rl=" in v for k, v in tp):
                        i = max(j for j, (k, v) in enumerate(tp) if k == "s" and " rl=" in v)
                        if tuple(tp[i:]) in wtails and i >= 1:
                            exact = True
                if isinstance(c.ops[0], ast.In) and unparse(r) == kname:
                    tp = sem_template(fn, l)
                    if any(k == "s" and " rl=" in v for k, v in tp) and tp[-1][0] == "h":
                        substring = c
        if exact:
            return True
        if substring is not None:
            rep.violation("template-agreement", rkey,
                          f"the dataset read is selected among the file's keys by the substring "
                          f"test `{unparse(substring)}`: the level number is the last field of "
                          "the key, so level 1 also selects ' rl=10'..' rl=19' and the array of "
                          "another level is returned under this one", node=node)
            return False
        raise AnalysisError(f"read_aurel_data: how the key of `{unparse(node)}` is selected "
                            "among the file's keys is not understood")

    for rd in reads:
        st = parent_stmt(rd)
        K = rd.slice
        tp = sem_template(fn, K)
        if any(k == "s" and " rl=" in v for k, v in tp):
            i = max(j for j, (k, v) in enumerate(tp) if k == "s" and " rl=" in v)
            ok = tuple(tp[i:]) in wtails and i == 1 and tp[0][0] == "h"
            # the name part is the column that receives the value
            col = None
            for a in ancestors(rd):
                if isinstance(a, ast.Call) and isinstance(a.func, ast.Attribute) \
                        and a.func.attr == "append" and isinstance(a.func.value, ast.Subscript):
                    col = a.func.value.slice
            if ok and col is not None:
                ok = sem_template(fn, col) == [tp[0]]
            rep.check(ok, "template-agreement", rkey,
                      f"the dataset read `{unparse(rd)}` is named "
                      f"{''.join(v if k == 's' else '{' + v + '}' for k, v in tp)}: not the "
                      "writer's <name> + ' rl=' + <level> with <name> the column it is "
                      "returned under", node=rd)
            continue
        R = resolve(fn, K)
        # a key drawn from the file's own keys: by a loop ...
        if isinstance(K, ast.Name):
            lv = local_value(st, K.id, fn)
            if isinstance(lv, tuple) and from_file_keys(lv[1].iter):
                tests = [a.test for a in ancestors(rd) if isinstance(a, ast.If)
                         and any(rd is x or rd in list(ast.walk(x)) for b in a.body
                                 for x in [b])]
                judge_tests(tests, K.id, rd)
                continue
        # ... or by a table built from them
        if isinstance(R, ast.Subscript) and isinstance(R.value, ast.DictComp) \
                and len(R.value.generators) == 1 \
                and from_file_keys(R.value.generators[0].iter) \
                and unparse(R.value.value) == unparse(R.value.generators[0].target):
            g = R.value.generators[0]
            judge_tests(list(g.ifs), unparse(g.target), rd)
            continue
        raise AnalysisError(f"read_aurel_data: the key of the dataset read `{unparse(rd)}` is "
                            "not understood")


# =============================================================================================
# read_ET_data: per-iteration cache
# =============================================================================================
def cache_fill_provenance(rep):
    fn = fnode(rep, "read_ET_data")
    key = f"{RD}::read_ET_data"
    fills = []
    for n in ast.walk(fn):
        if isinstance(n, ast.Assign) and unparse(n.targets[0]).startswith("datar[restart][av][") \
                and isinstance(n.targets[0], ast.Subscript):
            v = resolve(fn, n.value, 0, {"data_temp", "datar", "its_missing", "it", "avar"})
            if isinstance(v, ast.Subscript) and unparse(v.value) == "data_temp[av]":
                fills.append((n, v))
    if len(fills) != 1:
        raise AnalysisError("read_ET_data: fill statement datar[..][av][i] = data_temp[av][j] "
                            "not found")
    st, val = fills[0]
    tgt_idx = unparse(st.targets[0].slice)
    src = val.slice
    src_idx = unparse(src)
    # source index: lookup of the iteration value in data_temp['it']
    loops = [a for a in ancestors(st) if isinstance(a, ast.For)]
    itv = None
    for lp in loops:
        if "enumerate(it)" in unparse(lp.iter):
            itv = [unparse(e) for e in lp.target.elts]
    ok = itv is not None and "data_temp['it']" in src_idx and itv[1] in \
        [x.id for x in ast.walk(src) if isinstance(x, ast.Name)]
    rep.check(ok, "row-index-provenance", key + "::fill-source-row",
              f"the row `{src_idx[:60]}` taken from the freshly read data for iteration "
              f"`{itv[1] if itv else '?'}` is not looked up in data_temp['it'] (the iterations "
              "that were actually read, a superset shared by all components)", node=st)
    rep.check(itv is not None and tgt_idx == itv[0], "row-index-provenance",
              key + "::fill-target-row",
              "the target row must enumerate the iteration list the cache was read with",
              node=st)
    # union of missing iterations over the components
    okt = any(isinstance(n, ast.Assign) and unparse(n.targets[0]) == "its_temp"
              and "its_missing[av]" in unparse(n.value) and "for av in avar" in unparse(n.value)
              for n in ast.walk(fn))
    rep.check(okt, "row-index-provenance", key + "::read-superset",
              "the iterations read from the ET files must be the union of the iterations "
              "missing for the components of the variable", node=fn)
    # reader and writer of the cache get the same level/restart
    rd = walk_calls(fn, "read_aurel_data")
    sv = walk_calls(fn, "save_data")
    if not rd or not sv:
        raise AnalysisError("read_ET_data: cache reader/writer calls not found")

    def passes(call, name):
        if any(k.arg is None and unparse(k.value) == "kwargs" for k in call.keywords):
            return True
        return any(k.arg == name for k in call.keywords)
    for name in ("rl", "restart"):
        ok = all(passes(c, name) for c in rd) and all(passes(c, name) for c in sv)
        rep.check(ok, "template-agreement", key + f"::cache-{name}",
                  f"the cache is read and written with different `{name}`: one of "
                  "read_aurel_data / save_data does not receive it (datasets filed under the "
                  "default level/restart)", node=sv[0])
    # iterations and variable handed to the writer
    ok = False
    for c in sv:
        stc = parent_stmt(c)
        blk = None
        par = getattr(stc, "_parent", None)
        for field in ("body", "orelse"):
            b = getattr(par, field, None)
            if isinstance(b, list) and stc in b:
                blk = b
        if blk is None:
            continue
        pre = " ".join(norm_src(x) for x in blk[:blk.index(stc)])
        direct = {k.arg: unparse(k.value) for k in c.keywords if k.arg}
        it_ok = "kwargs['it'] = its_missing[av]" in pre or direct.get("it") == "its_missing[av]"
        v_ok = "kwargs['vars'] = [av]" in pre or direct.get("vars") == "[av]"
        ok = it_ok and v_ok and unparse(c.args[1]) == "data_temp"
    rep.check(ok, "row-index-provenance", key + "::cache-write-args",
              "the cache writer must receive data_temp with it = its_missing[av] and "
              "vars = [av]", node=sv[0])


def independent_lists(rep, functions=("read_ET_data",)):
    """A dictionary of per-key lists that are filled in place (`d[k] += [...]`,
    `d[k].remove(...)`) must hold one list *per key*: built with a fresh display per key, not
    with dict.fromkeys(keys, []) or a repeated reference, which make every key share one list
    (what is recorded as missing for one component is then missing for all)."""
    n = 0
    for q in functions:
        fn = fnode(rep, q)
        # dictionaries whose values are mutated in place
        mutated = set()
        for x in ast.walk(fn):
            t = None
            if isinstance(x, ast.AugAssign) and isinstance(x.target, ast.Subscript) \
                    and isinstance(x.target.value, ast.Name):
                t = x.target.value.id
            elif isinstance(x, ast.Call) and isinstance(x.func, ast.Attribute) \
                    and x.func.attr in ("append", "extend", "remove", "insert", "pop", "sort") \
                    and isinstance(x.func.value, ast.Subscript) \
                    and isinstance(x.func.value.value, ast.Name):
                t = x.func.value.value.id
            if t:
                mutated.add(t)
        for a in ast.walk(fn):
            if not (isinstance(a, ast.Assign) and isinstance(a.targets[0], ast.Name)
                    and a.targets[0].id in mutated):
                continue
            v = a.value
            key = f"{RD}::{q}::{a.targets[0].id}"
            shared = None
            if isinstance(v, ast.Call) and unparse(v.func) in ("dict.fromkeys",) \
                    and len(v.args) == 2:
                d = v.args[1]
                if isinstance(d, (ast.List, ast.Dict, ast.Set, ast.Name)) or (
                        isinstance(d, ast.Call) and unparse(d.func) in ("list", "dict", "set")):
                    shared = f"dict.fromkeys(..., {unparse(d)}) gives every key the same object"
            elif isinstance(v, ast.DictComp) and isinstance(v.value, ast.Name) \
                    and v.value.id not in {x.id for g in v.generators
                                           for x in ast.walk(g.target)
                                           if isinstance(x, ast.Name)}:
                shared = f"every key is given the same object `{v.value.id}`"
            elif not isinstance(v, (ast.DictComp, ast.Dict)):
                continue
            n += 1
            rep.check(shared is None, "independent-lists", key,
                      f"`{norm_src(a)[:70]}`: {shared}; the entries of `{a.targets[0].id}` are "
                      "filled in place further down, so they must be separate lists",
                      node=a)
    if n == 0:
        raise AnalysisError("independent-lists: no per-key list dictionary found")


def iteration_labels(rep):
    """Every ET reader normalises the requested iterations itself (its rows come out in the
    order of its own `it`), and read_ET_variables labels the merged result with *its* `it`:
    labels and rows agree only if all of them apply the same normalisation to
    kwargs['it'] -- the one read_ET_group_or_var uses to order the rows it emits."""
    key = f"{RD}::iteration-labels"
    norm = {}
    for q in ("read_ET_variables", "read_ET_group_or_var", "read_ET_checkpoints"):
        fn = fnode(rep, q)
        binds = [a for a in fn.body if isinstance(a, ast.Assign)
                 and unparse(a.targets[0]) == "it"]
        if len(binds) != 1 or "kwargs" not in unparse(binds[0].value):
            raise AnalysisError(f"{q}: the binding of `it` from kwargs was not found")
        norm[q] = (unparse(binds[0].value), binds[0])
    rows = norm["read_ET_group_or_var"][0]
    for q, (txt, node) in norm.items():
        rep.check(txt == rows, "iteration-labels", f"{key}::{q}",
                  f"{q} normalises the requested iterations as `{txt}` but the rows are emitted "
                  f"by read_ET_group_or_var in the order of `{rows}`: the 'it' labels (and "
                  "everything that looks rows up through them) no longer line up with the rows "
                  "for an unsorted or repeated request", node=node)
    # the label column is that very list
    fn = fnode(rep, "read_ET_variables")
    lab = [n for n in ast.walk(fn) if isinstance(n, ast.Dict)
           and any(isinstance(k, ast.Constant) and k.value == "it" for k in n.keys)]
    ok = False
    for d in lab:
        for k, v in zip(d.keys, d.values):
            if isinstance(k, ast.Constant) and k.value == "it":
                names = {x.id for x in ast.walk(v) if isinstance(x, ast.Name)}
                ok = "it" in names
    if not lab:
        raise AnalysisError("read_ET_variables: the result dictionary with its 'it' label "
                            "was not found")
    rep.check(ok, "iteration-labels", f"{key}::label-is-it",
              "the 'it' column of the result of read_ET_variables must be its normalised `it`",
              node=lab[0])
    # rows are emitted in the order of `it`
    fn = fnode(rep, "read_ET_group_or_var")
    emit = [n for n in ast.walk(fn) if isinstance(n, ast.For) and unparse(n.iter) == "it"
            and any(isinstance(x, (ast.AugAssign, ast.Call)) and "append" in unparse(x)
                    or isinstance(x, ast.AugAssign) for x in ast.walk(n))]
    if not emit:
        raise AnalysisError("read_ET_group_or_var: the loop emitting one row per iteration of "
                            "`it` was not found")
    rep.ok("iteration-labels", f"{key}::rows-in-it-order")


# =============================================================================================
# chunk joining and storage order
# =============================================================================================
def sorted_source(fn, name, before=10**9, depth=0):
    """is the value `name` holds just before line `before` data-dependent on np.sort / sorted?
    (the closest preceding binding decides)"""
    if depth > 4:
        return False
    cands = [a for a in assignments_to(fn, name) if a.lineno < before]
    if not cands:
        return False
    a = max(cands, key=lambda x: x.lineno)
    if isinstance(a, ast.Assign):
        txt = unparse(a.value)
        if txt.startswith(("np.sort(", "sorted(")):
            return True
        root = a.value
        while isinstance(root, ast.Subscript):
            root = root.value
        if isinstance(root, ast.Name) and root.id != name:
            return sorted_source(fn, root.id, a.lineno, depth + 1)
        return False
    it = a.iter
    if unparse(it).startswith(("np.sort(", "sorted(")):
        return True
    root = it
    while isinstance(root, ast.Subscript):
        root = root.value
    if isinstance(root, ast.Name):
        return sorted_source(fn, root.id, a.lineno, depth + 1)
    return False


def chunk_placement(rep):
    fn = fnode(rep, "join_chunks")
    key = f"{RD}::join_chunks"
    joins = [c for c in ast.walk(fn) if isinstance(c, ast.Call)
             and unparse(c.func) in ("np.append", "np.concatenate", "np.stack", "np.vstack",
                                     "np.hstack", "np.dstack")]
    if not joins:
        raise AnalysisError("join_chunks: no concatenation found")
    axes_seen = []
    for c in joins:
        axn = call_arg(c, 2 if unparse(c.func) == "np.append" else 1, "axis")
        ax = const_value(axn) if axn is not None else None
        ckey = f"{key}::{unparse(c.func)}(axis={ax})@{norm_src(c)[:40]}"
        # operands that are whole chunks / partial joins
        ops = c.args[0].elts if unparse(c.func) != "np.append" and isinstance(
            c.args[0], (ast.Tuple, ast.List)) else list(c.args[:2])
        if unparse(c.func) != "np.append" and isinstance(c.args[0], (ast.ListComp,
                                                                     ast.GeneratorExp)):
            g = c.args[0].generators[0]
            src = unparse(g.iter)
            root = g.iter
            while isinstance(root, ast.Subscript):
                root = root.value
            ok = src.startswith(("np.sort(", "sorted(")) or (
                isinstance(root, ast.Name) and sorted_source(fn, root.id, c.lineno))
            rep.check(ok, "chunk-order", ckey,
                      f"chunks are concatenated in the order of `{src}`, which is not sorted "
                      "by their recorded origin: file/process enumeration order decides the "
                      "placement", node=c)
            axes_seen.append(ax)
            continue
        # np.append inside a loop: loop iterable must be sorted origins
        loop = None
        for a in ancestors(c):
            if isinstance(a, ast.For):
                loop = a
                break
        if loop is not None:
            root = loop.iter
            while isinstance(root, ast.Subscript):
                root = root.value
            ok = isinstance(root, ast.Name) and sorted_source(fn, root.id, loop.lineno) or \
                unparse(loop.iter).startswith(("np.sort(", "sorted("))
            # the accumulator is seeded with the first sorted element
            rep.check(ok, "chunk-order", ckey,
                      f"chunks are appended in the order of `{unparse(loop.iter)}`, which is "
                      "not sorted by their recorded origin", node=c)
            axes_seen.append(ax)
            continue
        # outside any loop: operands indexed by an unsorted key list
        idx_names = set()
        for o in ops:
            for x in ast.walk(o):
                if isinstance(x, ast.Subscript) and isinstance(x.value, ast.Name) \
                        and isinstance(x.slice, ast.Constant):
                    idx_names.add(x.value.id)
        ok = bool(idx_names) and all(sorted_source(fn, nm, c.lineno) for nm in idx_names)
        rep.check(ok, "chunk-order", ckey,
                  "chunks are joined in dictionary (file/process enumeration) order along a "
                  "hard-wired axis, without looking at their recorded origins", node=c)
        axes_seen.append(ax)
    # component <-> axis pairing of the joining stages.  Keys are (x, y, z) origins, raw arrays
    # are (z, y, x): the stage that orders by origin component j must join along axis 2 - j and
    # group by the remaining components.  Roles are read from the data flow, not from names:
    #   grouping   D[G(k)][O(k)] = SRC[k]        (k the loop key, G / O subscripts of k)
    #   joining    ACC[g] = np.append(ACC[g], D[g][o], axis)   for o in sorted keys of D[g]
    def key_positions(node, kname, klen):
        """positions of the key tuple selected by `node` (a subscript of the loop key)"""
        if isinstance(node, ast.Subscript) and isinstance(node.value, ast.Name) \
                and node.value.id == kname:
            sl = node.slice
            if isinstance(sl, ast.Slice) and sl.step is None:
                lo = int(const_value(sl.lower)) if sl.lower is not None else 0
                hi = int(const_value(sl.upper)) if sl.upper is not None else klen
                return tuple(range(klen))[lo:hi]
            c = const_value(sl)
            if c is not None:
                return (int(c) % klen,)
        if isinstance(node, ast.Tuple):
            out = ()
            for e in node.elts:
                r = key_positions(e, kname, klen)
                if r is None:
                    return None
                out += r
            return out
        return None
    groupings = []
    for st in ast.walk(fn):
        if isinstance(st, ast.Assign) and isinstance(st.targets[0], ast.Subscript) \
                and isinstance(st.targets[0].value, ast.Subscript) \
                and isinstance(st.targets[0].value.value, ast.Name) \
                and isinstance(st.value, ast.Subscript) and isinstance(st.value.value, ast.Name) \
                and isinstance(st.value.slice, ast.Name):
            groupings.append((st.lineno, st.targets[0].value.value.id,
                              st.targets[0].value.slice, st.targets[0].slice,
                              st.value.value.id, st.value.slice.id, st))
    groupings.sort(key=lambda g: g[0])
    appends = []
    for c in joins:
        if unparse(c.func) != "np.append":
            continue
        ax = call_arg(c, 2, "axis")
        ax = const_value(ax) if ax is not None else None
        st = parent_stmt(c)
        acc = st.targets[0] if isinstance(st, ast.Assign) else None
        accname = None
        root = acc
        while isinstance(root, ast.Subscript):
            root = root.value
        if isinstance(root, ast.Name):
            accname = root.id
        if isinstance(acc, ast.Name):
            # joined in a local first: the stage's result is where that local is stored
            dest = [a for a in ast.walk(fn) if isinstance(a, ast.Assign)
                    and isinstance(a.value, ast.Name) and a.value.id == acc.id
                    and isinstance(a.targets[0], ast.Subscript)]
            if len(dest) == 1:
                root = dest[0].targets[0]
                while isinstance(root, ast.Subscript):
                    root = root.value
                if isinstance(root, ast.Name):
                    accname = root.id
        src = c.args[1] if len(c.args) > 1 else None
        root = src
        while isinstance(root, ast.Subscript):
            root = root.value
        appends.append((c.lineno, int(ax) if ax is not None else None, accname,
                        root.id if isinstance(root, ast.Name) else None, c))
    appends.sort(key=lambda x: x[0])
    if len(groupings) < 2 or len(appends) < 3:
        raise AnalysisError("join_chunks: grouping / joining stages not recognised "
                            f"({len(groupings)} groupings, {len(appends)} appends)")
    remaining = [0, 1, 2]           # origin components still in the key
    prev_acc = None
    stage_ok, seq, why = True, [], []
    gi = 0
    for n, (ln, ax, accname, srcname, call) in enumerate(appends):
        seq.append(ax)
        if len(remaining) > 1:
            if gi >= len(groupings):
                stage_ok = False
                why.append("a joining stage has no grouping stage")
                break
            _l, D, G, O, SRC, kname, gst = groupings[gi]
            gi += 1
            gpos = key_positions(G, kname, len(remaining))
            opos = key_positions(O, kname, len(remaining))
            if gpos is None or opos is None or len(opos) != 1:
                raise AnalysisError("join_chunks: grouping subscripts not understood: "
                                    + norm_src(gst))
            if srcname != D:
                stage_ok = False
                why.append(f"stage {n + 1} appends from `{srcname}`, not from the groups "
                           f"`{D}` built for it")
            if prev_acc is not None and SRC != prev_acc:
                stage_ok = False
                why.append(f"stage {n + 1} groups `{SRC}`, not the result `{prev_acc}` of the "
                           "previous stage")
            comp = remaining[opos[0]]
            rest = [remaining[i] for i in gpos]
            if rest != [c for c in remaining if c != comp]:
                stage_ok = False
                why.append(f"stage {n + 1} orders by origin component {comp} but groups by "
                           f"{rest}, not by all the other components")
        elif remaining:
            comp = remaining[0]
            rest = []
        else:
            stage_ok = False
            why.append(f"joining stage {n + 1} comes after every origin component has been "
                       "used: it cannot be ordered by recorded origins")
            break
        if ax != 2 - comp:
            stage_ok = False
            why.append(f"stage {n + 1} orders by origin component {comp} ('xyz'[{comp}]) but "
                       f"joins along raw axis {ax}; (z, y, x) arrays need axis {2 - comp}")
        remaining = rest
        prev_acc = accname
    rep.check(stage_ok and sorted(a for a in seq if a is not None) == [0, 1, 2],
              "chunk-axis", key + "::stage-axes",
              "the joining stages must pair origin component j with raw axis 2 - j and group "
              f"by the remaining components; axes {seq}: " + "; ".join(why), node=fn)
    rep.ok("chunk-axis", key + "::grouping")


def glob_anchor(rep):
    """A number read out of the path of a file that was selected by a glob pattern must be
    located by the complete literal part of that pattern's file name (the text between the last
    '/' and the '*'), so that nothing in the directory part -- the simulation name, the location
    of the simulation -- can be mistaken for it."""
    import re as _re
    S = rep.sources
    n = 0
    for q in ("iterations",):
        fn = S.function(RD, q)
        globs = {}
        for a in ast.walk(fn):
            if isinstance(a, ast.Assign) and isinstance(a.value, ast.Call) \
                    and unparse(a.value.func) == "glob.glob" and a.value.args \
                    and isinstance(a.targets[0], ast.Name):
                # the literal tail of the pattern: the trailing string constants of the
                # concatenation / f-string
                parts = []

                def flat(e):
                    if isinstance(e, ast.BinOp) and isinstance(e.op, ast.Add):
                        flat(e.left)
                        flat(e.right)
                    elif isinstance(e, ast.JoinedStr):
                        for v in e.values:
                            parts.append(v.value if isinstance(v, ast.Constant) else None)
                    elif isinstance(e, ast.Constant) and isinstance(e.value, str):
                        parts.append(e.value)
                    else:
                        parts.append(None)
                flat(a.value.args[0])
                tail = ""
                for p_ in reversed(parts):
                    if p_ is None:
                        break
                    tail = p_ + tail
                if "*" in tail:
                    prefix = tail[:tail.index("*")].rsplit("/", 1)[-1]
                    if prefix:
                        globs[a.targets[0].id] = prefix
        # names holding (a selection of) the globbed paths: aliases and filtered copies
        for _ in range(4):
            for a in ast.walk(fn):
                if isinstance(a, ast.Assign) and isinstance(a.targets[0], ast.Name) \
                        and a.targets[0].id not in globs:
                    src = None
                    if isinstance(a.value, ast.Name):
                        src = a.value.id
                    elif isinstance(a.value, (ast.ListComp, ast.GeneratorExp)) \
                            and len(a.value.generators) == 1 \
                            and isinstance(a.value.generators[0].iter, ast.Name) \
                            and unparse(a.value.elt) == unparse(a.value.generators[0].target):
                        src = a.value.generators[0].iter.id
                    elif isinstance(a.value, ast.Call) and unparse(a.value.func) in (
                            "sorted", "list") and a.value.args \
                            and isinstance(a.value.args[0], ast.Name):
                        src = a.value.args[0].id
                    if src in globs:
                        globs[a.targets[0].id] = globs[src]
        for lp in [x for x in ast.walk(fn) if isinstance(x, ast.For)
                   and isinstance(x.target, ast.Name) and isinstance(x.iter, ast.Name)
                   and x.iter.id in globs]:
            v, prefix = lp.target.id, globs[lp.iter.id]
            for c in [x for x in ast.walk(lp) if isinstance(x, ast.Call)
                      and unparse(x.func) == "int" and x.args]:
                arg = resolve(fn, c.args[0], 0, {v})
                if not any(isinstance(x, ast.Name) and x.id == v for x in ast.walk(arg)):
                    continue
                n += 1
                key = f"{RD}::{q}::number-in-path({prefix}*)"
                anchors = []
                for x in ast.walk(arg):
                    if isinstance(x, ast.Call) and isinstance(x.func, ast.Attribute) \
                            and isinstance(x.func.value, ast.Name) and x.func.value.id == v \
                            and x.func.attr in ("split", "rsplit", "partition", "rpartition") \
                            and x.args and isinstance(x.args[0], ast.Constant):
                        anchors.append(("literal", x.args[0].value))
                    if isinstance(x, ast.Call) and unparse(x.func) in (
                            "re.search", "re.match", "re.findall", "re.fullmatch") \
                            and len(x.args) >= 2 and isinstance(x.args[0], ast.Constant) \
                            and any(isinstance(y, ast.Name) and y.id == v
                                    for y in ast.walk(x.args[1])):
                        anchors.append(("pattern", x.args[0].value))
                if not anchors:
                    raise AnalysisError(f"{q}: how `{norm_src(c)[:60]}` locates the number in "
                                        "the path was not understood")
                ok = all((kind == "literal" and prefix in txt)
                         or (kind == "pattern" and (_re.escape(prefix) in txt or prefix in txt))
                         for kind, txt in anchors)
                rep.check(ok, "regex-groups", key,
                          f"`{norm_src(c)[:70]}` locates the number by {anchors[0][1]!r}; the "
                          f"files were selected by `{prefix}*`: anything shorter than that "
                          "prefix can also occur in the directory part of the path (simulation "
                          "name, location)", node=c)
    if n < 1:
        raise AnalysisError("glob-anchor: no number parsed from a globbed path was found")


def geometry_per_dataset(rep):
    """The ghost widths and the origin of a chunk are properties of *that* dataset (iteration,
    chunk): they must be read from its own attributes each time.  A value read from
    `.attrs['cctk_nghostzones']` / `.attrs['iorigin']` that is stored in a container created
    outside the loop over iterations is remembered from one iteration to the next (a file whose
    process layout changes between iterations is then assembled with the wrong geometry)."""
    S = rep.sources
    n = 0
    for q in ("read_ET_group_or_var", "read_ET_checkpoints"):
        fn = S.function(RD, q)
        itloops = [lp for lp in ast.walk(fn) if isinstance(lp, ast.For)
                   and unparse(lp.iter) in ("it", "list(it)", "sorted(it)", "enumerate(it)")]
        if not itloops:
            raise AnalysisError(f"{q}: the loop over iterations was not found")
        for node in ast.walk(fn):
            if not (isinstance(node, ast.Subscript) and isinstance(node.slice, ast.Constant)
                    and node.slice.value in ("cctk_nghostzones", "iorigin")
                    and isinstance(node.ctx, ast.Load)):
                continue
            n += 1
            st = parent_stmt(node)
            key = f"{RD}::{q}::{node.slice.value}@{norm_src(st)[:40]}"
            bad = None
            if isinstance(st, ast.Assign):
                for t in st.targets:
                    root = t
                    while isinstance(root, ast.Subscript):
                        root = root.value
                    if isinstance(t, ast.Subscript) and isinstance(root, ast.Name):
                        # stored into a container: where is that container created?
                        creations = [a for a in assignments_to(fn, root.id)
                                     if isinstance(a, ast.Assign) and a is not st]
                        inside = [lp for lp in itloops if st in list(ast.walk(lp))]
                        for c_ in creations:
                            if inside and not any(c_ in list(ast.walk(lp)) for lp in inside):
                                bad = root.id
            rep.check(bad is None, "storage-order", key,
                      f"`{norm_src(st)[:70]}` keeps the geometry of a chunk in `{bad}`, which is "
                      "created outside the loop over iterations: later iterations reuse the "
                      "ghost widths / origin of an earlier one", node=st)
    if n < 2:
        raise AnalysisError("geometry-per-dataset: no reads of the chunk geometry found")


def empty_selection_means_all(rep):
    """`vars=[]` is the documented spelling of "all variables" for the reader
    (read_aurel_data) and for the writer (save_data) alike: each of them must test its
    selection for emptiness and fall back to everything (every key of data / every dataset
    of the file)."""
    S = rep.sources
    for q, fallback in (("save_data", "data"), ("read_aurel_data", None)):
        fn = S.function(RD, q)
        names = [a.targets[0].id for a in ast.walk(fn) if isinstance(a, ast.Assign)
                 and len(a.targets) == 1 and isinstance(a.targets[0], ast.Name)
                 and "kwargs.get('vars'" in rtext(fn, a.value)]
        if not names:
            raise AnalysisError(f"{q}: the binding of the selection from kwargs not found")
        sel = set(names)
        tests = []

        def empt(txt):
            return any(txt in (f"{nm} == []", f"not {nm}", f"len({nm}) == 0", f"{nm} != []",
                               nm, f"len({nm}) > 0", f"len({nm}) != 0", f"[] == {nm}",
                               f"not len({nm})", f"bool({nm})") for nm in sel)
        # flags holding the emptiness test (get_them_all = var == [])
        flags = {a.targets[0].id for a in ast.walk(fn) if isinstance(a, ast.Assign)
                 and len(a.targets) == 1 and isinstance(a.targets[0], ast.Name)
                 and empt(unparse(a.value)) and a.targets[0].id not in sel}
        for t in ast.walk(fn):
            if isinstance(t, (ast.If, ast.IfExp)):
                txt = unparse(t.test)
                if empt(txt) or txt in flags or txt in {"not " + f_ for f_ in flags}:
                    tests.append(t)
        ok = bool(tests)
        if ok and fallback:
            ok = any(fallback in unparse(x) for t in tests for x in ast.walk(t)
                     if isinstance(x, ast.Assign))
        rep.check(ok, "template-agreement", f"{RD}::{q}::empty-selection",
                  f"{q} does not treat an empty `vars` as \"everything\" (no test of the "
                  "selection for emptiness with a fall-back): the other side of the round trip "
                  "does, so `vars=[]` saves / reads different sets of variables", node=fn)


def level_coverage(rep):
    """The overview merges the iterations of *every* refinement level 0..rlmax present in some
    restart: the loop over levels is `for rl in range(rlmax + 1)`, or a while loop whose
    continuation depends on `rl` and `rlmax` only (not on whether the current level was found:
    levels need not be contiguous nor start at 0)."""
    S = rep.sources
    fn = S.function(RD, "collect_overall_iterations")
    key = f"{RD}::collect_overall_iterations::level-coverage"
    for lp in ast.walk(fn):
        if isinstance(lp, ast.For) and isinstance(lp.target, ast.Name) \
                and unparse(lp.iter).replace(" ", "") in ("range(rlmax+1)", "range(0,rlmax+1)"):
            rep.ok("level-representative", key)
            return
    loops = [lp for lp in ast.walk(fn) if isinstance(lp, ast.While)]
    if len(loops) != 1:
        raise AnalysisError("collect_overall_iterations: the loop over levels was not found")
    lp = loops[0]
    if isinstance(lp.test, ast.Compare):
        names = {x.id for x in ast.walk(lp.test) if isinstance(x, ast.Name)}
        rep.check(names <= {"rl", "rlmax"}, "level-representative", key,
                  f"the loop over levels continues while `{unparse(lp.test)}`", node=lp)
        return
    if not isinstance(lp.test, ast.Name):
        raise AnalysisError("collect_overall_iterations: loop test not understood")
    flag = lp.test.id
    # the value of the flag at the end of the body: the last top-level statement binding it
    last = None
    for st in lp.body:
        if any(isinstance(x, ast.Name) and x.id == flag and isinstance(x.ctx, ast.Store)
               for x in ast.walk(st)):
            last = st
    if last is None:
        raise AnalysisError("collect_overall_iterations: the loop flag is never updated")
    deps = set()
    if isinstance(last, ast.Assign):
        deps = {x.id for x in ast.walk(last.value) if isinstance(x, ast.Name)}
    elif isinstance(last, ast.If):
        deps = {x.id for x in ast.walk(last.test) if isinstance(x, ast.Name)}
        consts = all(isinstance(a.value, ast.Constant) for a in ast.walk(last)
                     if isinstance(a, ast.Assign))
        both = bool(last.orelse)
        if not (consts and both):
            deps.add(flag)
    else:
        deps = {flag}
    rep.check(deps <= {"rl", "rlmax"}, "level-representative", key,
              f"whether the next level is visited is decided by `{norm_src(last)[:70]}`, which "
              f"depends on {sorted(deps - {'rl', 'rlmax'})}: a level that no restart contains "
              "ends the loop, and the finer levels on disk are missing from the overview",
              node=last)


def separator_guard(rep):
    """Whether the directory separator is inserted between the data path and the file name may
    depend only on the text of the path (does it end in '/') and on the layout choice
    ('simulation' in param) -- never on the state of the file system or on anything else:
    writer and reader must name the same file for the same parameters in every call."""
    S = rep.sources
    n = 0
    for q in ("save_data", "read_aurel_data"):
        fn = S.function(RD, q)
        sites = []
        for st in ast.walk(fn):
            if isinstance(st, ast.AugAssign) and isinstance(st.op, ast.Add) \
                    and isinstance(st.value, ast.Constant) and st.value.value == "/":
                sites.append(st)
            elif isinstance(st, ast.Assign) and isinstance(st.value, ast.Constant) \
                    and st.value.value == "/" and isinstance(st.targets[0], ast.Name):
                sites.append(st)
            elif isinstance(st, ast.Assign) and isinstance(st.value, ast.BinOp) \
                    and isinstance(st.value.op, ast.Add) \
                    and isinstance(st.value.right, ast.Constant) \
                    and st.value.right.value == "/":
                sites.append(st)
            elif isinstance(st, ast.Return) and isinstance(st.value, ast.BinOp) \
                    and isinstance(st.value.op, ast.Add) \
                    and isinstance(st.value.right, ast.Constant) \
                    and st.value.right.value == "/":
                sites.append(st)
        for st in sites:
            n += 1
            bad = []
            child, par = st, getattr(st, "_parent", None)
            while par is not None and par is not fn:
                if isinstance(par, ast.If):
                    t = unparse(par.test)
                    ok = ".endswith('/')" in t or "'simulation' in param" in t
                    if not ok:
                        bad.append(t)
                elif isinstance(par, (ast.For, ast.While, ast.Try, ast.With)):
                    bad.append(type(par).__name__.lower() + " block")
                child, par = par, getattr(par, "_parent", None)
            rep.check(not bad, "template-agreement", f"{RD}::{q}::separator-guard",
                      f"`{norm_src(st)[:40]}` (the '/' between the data path and the file name) "
                      f"is only executed under `{'`, `'.join(bad)}`: whether the separator is "
                      "inserted must depend on the text of the path alone", node=st)
    if n < 2:
        raise AnalysisError("separator-guard: the sites inserting the separator were not found")


def chunk_coverage(rep):
    """Every chunk stored in a file is read: the loop over chunk numbers runs over
    arange(M + 1) where M is the *maximum* of the chunk numbers parsed from all the keys of the
    iteration (or 0 when the keys carry no chunk number) -- not a number read off one key, whose
    position in a listing is a matter of string order ('c=9' sorts after 'c=10')."""
    S = rep.sources
    n = 0
    for q in ("read_ET_group_or_var", "read_ET_checkpoints"):
        fn = S.function(RD, q)
        for lp in [x for x in ast.walk(fn) if isinstance(x, ast.For)
                   and isinstance(x.target, ast.Name) and isinstance(x.iter, ast.Name)]:
            c = lp.target.id
            # a loop over chunk numbers: its variable is compared with the parsed 'c' of a key
            uses = [cmp for cmp in ast.walk(lp) if isinstance(cmp, ast.Compare)
                    and len(cmp.ops) == 1 and isinstance(cmp.ops[0], ast.Eq)
                    and any(isinstance(x, ast.Name) and x.id == c for x in ast.walk(cmp))
                    and "['c']" in unparse(cmp)]
            if not uses:
                continue
            rng = [a for a in ast.walk(fn) if isinstance(a, ast.Assign)
                   and unparse(a.targets[0]) == lp.iter.id and isinstance(a.value, ast.Call)
                   and unparse(a.value.func) in ("np.arange", "range") and a.value.args]
            for a in rng:
                arg = a.value.args[-1] if len(a.value.args) <= 2 else a.value.args[1]
                key = f"{RD}::{q}::chunk-range"
                ok_shape = isinstance(arg, ast.BinOp) and isinstance(arg.op, ast.Add) \
                    and isinstance(arg.left, ast.Name) and const_value(arg.right) == 1 \
                    and (len(a.value.args) == 1 or const_value(a.value.args[0]) == 0)
                if not ok_shape:
                    n += 1
                    rep.violation("chunk-coverage", key,
                                  f"`{norm_src(a)[:60]}` does not run over 0..M", node=a)
                    continue
                M = arg.left.id
                # the definitions of M that reach this statement: those in the same branch
                blk = parent_stmt(a)._parent if hasattr(parent_stmt(a), "_parent") else fn
                defs = [d for d in ast.walk(blk) if isinstance(d, ast.Assign)
                        and unparse(d.targets[0]) == M and d.lineno < a.lineno]
                if not defs:
                    raise AnalysisError(f"{q}: the chunk count `{M}` is not assigned before "
                                        "the chunk range")
                for d in defs:
                    n += 1
                    v = d.value
                    good = const_value(v) == 0
                    if isinstance(v, ast.Call) and unparse(v.func) in ("np.max", "max",
                                                                       "np.amax") and v.args:
                        comp = v.args[0]
                        if isinstance(comp, (ast.ListComp, ast.GeneratorExp)) \
                                and len(comp.generators) == 1 and not comp.generators[0].ifs:
                            g = comp.generators[0]
                            # over the same collection of keys that the chunk loop filters
                            pool = set()
                            for cmp in uses:
                                for anc in ancestors(cmp):
                                    if isinstance(anc, (ast.ListComp, ast.GeneratorExp)):
                                        it0 = anc.generators[0].iter
                                        if isinstance(it0, ast.Name):
                                            pool.add(it0.id)
                                            d0 = single_defs(fn).get(it0.id)
                                            if isinstance(d0, (ast.ListComp, ast.GeneratorExp)) \
                                                    and isinstance(d0.generators[0].iter,
                                                                   ast.Name):
                                                pool.add(d0.generators[0].iter.id)
                            elt = comp.elt
                            good = isinstance(g.target, ast.Name) and isinstance(
                                g.iter, ast.Name) and g.iter.id in pool \
                                and isinstance(elt, ast.Subscript) \
                                and isinstance(elt.slice, ast.Constant) \
                                and elt.slice.value == "c" and any(
                                    isinstance(x, ast.Name) and x.id == g.target.id
                                    for x in ast.walk(elt.value))
                    rep.check(good, "chunk-coverage", f"{key}::{M}@{norm_src(d)[:40]}",
                              f"the number of chunks `{norm_src(d)[:70]}` is not the maximum of "
                              "the chunk numbers of all the keys of the iteration: chunks "
                              "beyond it are never read", node=d)
    if n < 2:
        raise AnalysisError("chunk-coverage: the chunk ranges were not found")


def per_restart_state(rep):
    """What iterations() records for a restart is built from that restart alone: a local that is
    accumulated (`x += ..`, `x.append/extend/update(..)`) inside the loop over restarts is
    (re)bound by a plain assignment inside the loop before the accumulation; otherwise what one
    restart left in it is reported for the next one."""
    S = rep.sources
    fn = S.function(RD, "iterations")
    loops = []
    for lp in ast.walk(fn):
        if isinstance(lp, ast.For) and isinstance(lp.target, ast.Name):
            t = lp.target.id
            if any(isinstance(a, ast.Assign) and isinstance(a.targets[0], ast.Subscript)
                   and unparse(a.targets[0].slice) == t and isinstance(a.value, ast.Dict)
                   and not a.value.keys for a in lp.body):
                loops.append(lp)
    if not loops:
        raise AnalysisError("iterations: the loop that opens a record per restart was not found")
    n = 0
    for lp in loops:
        accs = []
        for x in ast.walk(lp):
            if isinstance(x, ast.AugAssign) and isinstance(x.target, ast.Name):
                accs.append((x.target.id, x))
            if isinstance(x, ast.Expr) and isinstance(x.value, ast.Call) \
                    and isinstance(x.value.func, ast.Attribute) \
                    and isinstance(x.value.func.value, ast.Name) \
                    and x.value.func.attr in ("append", "extend", "update", "add", "insert"):
                accs.append((x.value.func.value.id, x))
        seen = set()
        for name, st in accs:
            if name in seen:
                continue
            seen.add(name)
            # a plain binding inside the loop that precedes the accumulation
            cur, bound = st, False
            while cur is not lp and cur is not None and not bound:
                par = getattr(cur, "_parent", None)
                for field in ("body", "orelse", "finalbody"):
                    blk = getattr(par, field, None)
                    if isinstance(blk, list) and any(y is cur for y in blk):
                        k = [i for i, y in enumerate(blk) if y is cur][0]
                        for prev in blk[:k]:
                            if isinstance(prev, ast.Assign) and any(
                                    isinstance(tg, ast.Name) and tg.id == name
                                    for tg in prev.targets):
                                bound = True
                if isinstance(par, (ast.For, ast.comprehension)) and par is not lp and any(
                        isinstance(y, ast.Name) and y.id == name
                        for y in ast.walk(par.target)):
                    bound = True
                cur = par
            # integer counters of the whole call (`n += 1`) are not records of a restart
            if not bound and isinstance(st, ast.AugAssign) \
                    and isinstance(const_value(st.value), int):
                continue
            n += 1
            rep.check(bound, "definite-assignment",
                      f"{RD}::iterations::per-restart-state::{name}",
                      f"`{name}` is accumulated inside the loop over restarts "
                      f"(`{norm_src(st)[:50]}`) but only initialised outside it: what an "
                      "earlier restart left in it is recorded for the later ones", node=st)
    if n < 1:
        raise AnalysisError("iterations: no per-restart accumulator was found")


def iteration_coverage(rep):
    """Every requested iteration is looked for in every file: the loop whose variable is
    compared with the parsed 'it' of the keys runs over the normalised request itself, so the
    `not found -> raise` guard in its body decides for each requested iteration.  A loop over
    the request filtered by what the file holds skips a missing iteration without raising and
    the pieces of the other files are joined into a partial array."""
    S = rep.sources
    fn = S.function(RD, "read_ET_group_or_var")
    key = f"{RD}::read_ET_group_or_var::iteration-coverage"
    req = [n for n in ast.walk(fn) if isinstance(n, ast.Assign)
           and "kwargs.get('it'" in unparse(n.value)]
    if len(req) != 1:
        raise AnalysisError("read_ET_group_or_var: the binding of the requested iterations "
                            "not found")
    rq = unparse(req[0].value)

    def strip(t):
        t = t.replace(" ", "")
        changed = True
        while changed:
            changed = False
            for w in ("sorted(", "list(", "tuple("):
                if t.startswith(w) and t.endswith(")") and _balanced(t[len(w):-1]):
                    t = t[len(w):-1]
                    changed = True
        return t
    found = 0
    for lp in ast.walk(fn):
        if not (isinstance(lp, ast.For) and isinstance(lp.target, ast.Name)):
            continue
        v = lp.target.id
        uses = [c for c in ast.walk(lp) if isinstance(c, ast.Compare) and len(c.ops) == 1
                and isinstance(c.ops[0], ast.Eq)
                and ("['it']" in unparse(c) or re.search(r"\.it\b", unparse(c)))
                and any(isinstance(x, ast.Name) and x.id == v for x in ast.walk(c))]
        if not uses:
            continue
        found += 1
        full = rtext(fn, lp.iter)
        if strip(full) == strip(rq):
            # the body refuses an iteration with no key
            raises = [st for st in lp.body if isinstance(st, ast.If)
                      and any(isinstance(x, ast.Raise) for x in st.body)
                      and isinstance(st.test, ast.UnaryOp) and isinstance(st.test.op, ast.Not)]
            rep.check(bool(raises), "chunk-coverage", key,
                      "the loop over the requested iterations does not refuse an iteration "
                      "for which the file has no key", node=lp)
        elif rq.replace(" ", "") in full.replace(" ", ""):
            rep.violation("chunk-coverage", key,
                          f"the keys are looked up for `{unparse(lp.iter)}` only, a subset of "
                          "the requested iterations decided by the file: a requested iteration "
                          "the file does not hold is skipped instead of refused, and the "
                          "pieces of the other files are joined into a partial array", node=lp)
        else:
            raise AnalysisError("read_ET_group_or_var: the iterations the keys are looked up "
                                f"for (`{unparse(lp.iter)}`) are not understood")
    if not found:
        raise AnalysisError("read_ET_group_or_var: the loop over iterations was not found")


def _balanced(t):
    d = 0
    for ch in t:
        d += ch == "("
        d -= ch == ")"
        if d < 0:
            return False
    return d == 0


def _axis_slices(sl):
    """a subscript given as a value -- tuple(slice(a, b) for g in (X, Y, Z)), a display of
    slice(...) calls, a comprehension over the recorded widths or their reversal -- as the
    tuple of ast.Slice it stands for; the expression unchanged when it is none of these"""
    import copy

    def as_slice(e):
        if isinstance(e, ast.Slice):
            return e
        if isinstance(e, ast.Call) and unparse(e.func) == "slice" and not e.keywords \
                and 1 <= len(e.args) <= 2:
            lo, hi = (None, e.args[0]) if len(e.args) == 1 else e.args
            lo = None if isinstance(lo, ast.Constant) and lo.value is None else lo
            hi = None if isinstance(hi, ast.Constant) and hi.value is None else hi
            return ast.Slice(lower=lo, upper=hi, step=None)
        return None
    e = sl
    if isinstance(e, ast.Call) and unparse(e.func) in ("tuple", "list") and len(e.args) == 1:
        e = e.args[0]
    if isinstance(e, (ast.GeneratorExp, ast.ListComp)) and len(e.generators) == 1 \
            and not e.generators[0].ifs and isinstance(e.generators[0].target, ast.Name):
        g = e.generators[0]
        it = g.iter
        elems = None
        if isinstance(it, (ast.Tuple, ast.List)):
            elems = list(it.elts)
        else:
            rev = False
            base = it
            if isinstance(it, ast.Call) and unparse(it.func) == "reversed" and len(it.args) == 1:
                rev, base = True, it.args[0]
            elif isinstance(it, ast.Subscript) and unparse(it.slice) == "::-1":
                rev, base = True, it.value
            if "cctk_nghostzones" in unparse(base):
                order = (2, 1, 0) if rev else (0, 1, 2)
                elems = [ast.Subscript(value=copy.deepcopy(base), slice=ast.Constant(i),
                                       ctx=ast.Load()) for i in order]
        if elems is not None:
            class Sub(ast.NodeTransformer):
                def __init__(self, v):
                    self.v = v

                def visit_Name(self, n):
                    return copy.deepcopy(self.v) if n.id == g.target.id else n
            e = ast.Tuple(elts=[Sub(v).visit(copy.deepcopy(e.elt)) for v in elems],
                          ctx=ast.Load())
    if isinstance(e, (ast.Tuple, ast.List)):
        parts = [as_slice(x) for x in e.elts]
        if all(p is not None for p in parts):
            return ast.fix_missing_locations(ast.Tuple(elts=parts, ctx=ast.Load()))
    return sl


def ghost_and_axes(rep):
    """Decided on resolved expressions (temporaries and aliases substituted)."""
    import re
    S = rep.sources
    comp_rx = re.compile(r"\.attrs\['cctk_nghostzones'\]\[(-?\d)\]$")
    for q in ("read_ET_group_or_var", "read_ET_checkpoints"):
        fn = S.function(RD, q)
        key = f"{RD}::{q}"
        # every subscript whose slice is built from the recorded ghost widths
        trims = []
        for n in ast.walk(fn):
            if isinstance(n, ast.Subscript) and isinstance(n.ctx, ast.Load):
                txt = rtext(fn, n.slice)
                if "cctk_nghostzones" in txt and (":" in txt or "slice(" in txt):
                    trims.append(n)
        if not trims:
            raise AnalysisError(f"{q}: ghost-zone trimming not found")
        for t in trims:
            sl = _axis_slices(resolve(fn, t.slice))
            ok, why = False, ""
            if isinstance(sl, ast.Tuple) and all(isinstance(e, ast.Slice) for e in sl.elts):
                pairs = []
                for i, e in enumerate(sl.elts):
                    lo = unparse(e.lower) if e.lower is not None else ""
                    hi = unparse(e.upper) if e.upper is not None else ""
                    m = comp_rx.search(lo)
                    comp = int(m.group(1)) % 3 if m else None
                    pairs.append((i, comp, hi in (f"-{lo}", f"-({lo})")))
                ok = len(pairs) == 3 and all(comp == 2 - i and sym for i, comp, sym in pairs)
                why = (f"raw arrays are stored (z, y, x) and cctk_nghostzones is (x, y, z): "
                       f"axis i must be trimmed by nghostzones[2-i] on both sides; found "
                       f"{[(i, c) for i, c, _s in pairs]}")
            else:
                raise AnalysisError(f"{q}: the ghost-zone trimming `{unparse(sl)[:70]}` is not "
                                    "understood as one slice per axis")
            rep.check(ok, "storage-order", key + "::ghost-trim", why, node=t)
        # chunk dict keyed by the recorded origin: a store  <chunks>[tuple(attrs['iorigin'])]
        ok = False
        for n in ast.walk(fn):
            if isinstance(n, ast.Assign) and isinstance(n.targets[0], ast.Subscript):
                k = rtext(fn, n.targets[0].slice)
                if k.startswith("tuple(") and k.endswith(".attrs['iorigin'])"):
                    ok = True
        rep.check(ok, "storage-order", key + "::keyed-by-origin",
                  "chunks must be stored under tuple(attrs['iorigin'])", node=fn)
        # fixij applied exactly once, after joining
        calls = walk_calls(fn, "fixij")
        ok = len(calls) == 1 and rtext(fn, calls[0].args[0]).startswith("join_chunks(")
        rep.check(ok, "storage-order", key + "::fixij-after-join",
                  "the (z,y,x)->(x,y,z) transposition must be applied once, to the joined array",
                  node=fn)
    fx = S.function(RD, "fixij")
    rets = [n for n in ast.walk(fx) if isinstance(n, ast.Return)]
    ok = False
    if len(rets) == 1 and isinstance(rets[0].value, ast.Call) \
            and unparse(rets[0].value.func) == "np.transpose":
        perm = call_arg(rets[0].value, 1, "axes")
        arr = rtext(fx, rets[0].value.args[0]) if rets[0].value.args else ""
        p0 = fx.args.args[0].arg
        ok = perm is not None and unparse(perm).replace(" ", "") in ("(2,1,0)", "[2,1,0]") \
            and arr in (p0, f"np.array({p0})", f"np.asarray({p0})")
    rep.check(ok, "storage-order", f"{RD}::fixij",
              "fixij must be the axis reversal (2, 1, 0) of its argument", node=fx)


def restart_selection(rep):
    fn = fnode(rep, "read_ET_data")
    key = f"{RD}::read_ET_data"
    # the scan over restarts: every place where an iteration is booked on the restart named by
    # the variable of an enclosing loop (X[R]['it to do'] += [iit] inside `for R in ...`)
    sites = []
    for n in ast.walk(fn):
        tgt = None
        if isinstance(n, ast.AugAssign) and isinstance(n.op, ast.Add):
            tgt = n.target
        elif isinstance(n, ast.Expr) and isinstance(n.value, ast.Call) \
                and isinstance(n.value.func, ast.Attribute) and n.value.func.attr == "append":
            tgt = n.value.func.value
        if not (isinstance(tgt, ast.Subscript) and isinstance(tgt.slice, ast.Constant)
                and tgt.slice.value == "it to do"):
            continue
        base = tgt.value
        if isinstance(base, ast.Name):
            # a local alias of the restart's entry: what it holds at this statement
            v_ = local_value(n, base.id, fn)
            if isinstance(v_, ast.AST):
                base = v_
        if not (isinstance(base, ast.Subscript) and isinstance(base.slice, ast.Name)):
            continue
        rname = base.slice.id
        loops = [a for a in ancestors(n) if isinstance(a, (ast.For, ast.While))]
        scan = [lp for lp in loops if isinstance(lp, ast.For) and (
            unparse(lp.target) == rname
            # ... or the restart is looked up from the loop's own variable
            or any(isinstance(a, ast.Assign) and unparse(a.targets[0]) == rname
                   and any(isinstance(x, ast.Name) and x.id in {
                       t.id for t in ast.walk(lp.target) if isinstance(t, ast.Name)}
                       for x in ast.walk(a.value)) for a in lp.body))]
        if scan:
            sites.append((n, scan[0], loops))
    if not sites:
        raise AnalysisError("read_ET_data: restart selection loop not found")
    ok, outer = True, sites[0][1]
    for n, scan, loops in sites:
        src = rtext(fn, scan.iter)
        latest_first = unparse(scan.target) == rname and (
            src.endswith("[::-1]") or src.startswith("reversed(") or (
                src.startswith("sorted(") and "reverse=True" in src))
        blk, k = None, None
        par = getattr(n, "_parent", None)
        for field in ("body", "orelse", "finalbody"):
            b_ = getattr(par, field, None)
            if isinstance(b_, list) and any(x is n for x in b_):
                blk, k = b_, [i for i, x in enumerate(b_) if x is n][0]
        stops = blk is not None and k + 1 < len(blk) and isinstance(blk[k + 1], ast.Break) \
            and loops and loops[0] is scan
        ok = ok and latest_first and bool(stops)
        outer = scan
    rep.check(ok, "restart-selection", key + "::latest-first",
              "restarts must be scanned from the latest to the earliest and the scan must stop "
              "at the first restart containing the iteration (an iteration present in several "
              "restarts is taken from the latest one)", node=outer)
    # flattening: the loop that appends  datar[restart][key][row]  to the columns of the result
    stores = []
    for n in ast.walk(fn):
        val = None
        if isinstance(n, ast.AugAssign) and isinstance(n.op, ast.Add) \
                and isinstance(n.target, ast.Subscript) and isinstance(n.value, ast.List) \
                and len(n.value.elts) == 1:
            val, tgt = n.value.elts[0], n.target
        elif isinstance(n, ast.Call) and isinstance(n.func, ast.Attribute) \
                and n.func.attr == "append" and isinstance(n.func.value, ast.Subscript) \
                and len(n.args) == 1:
            val, tgt = n.args[0], n.func.value
        if val is None:
            continue
        v = resolve(fn, val, 0, {"datar", "it", "old_it"})
        if isinstance(v, ast.Subscript) and isinstance(v.value, ast.Subscript) \
                and isinstance(v.value.value, ast.Subscript) \
                and unparse(v.value.value.value) == "datar":
            stores.append((n, tgt, v))
    if len(stores) != 1:
        raise AnalysisError("read_ET_data: the loop assembling the final table was not found")
    stn, tgt, v = stores[0]
    rkey, ckey, row = unparse(v.value.value.slice), unparse(v.value.slice), v.slice
    loops = [a for a in ancestors(stn) if isinstance(a, ast.For)]
    outer_ok = False
    for lp in loops:
        src = rtext(fn, lp.iter, {"it"})
        if src in ("it.copy()", "list(it)", "it[:]", "it", "sorted(it)"):
            itvar = unparse(lp.target)
            outer_ok = lp is loops[-1] or all(l2.lineno >= lp.lineno for l2 in loops)
    rowtxt = rtext(fn, row, {"datar", "it", "old_it"})
    ok = outer_ok and unparse(tgt.slice) == ckey \
        and f"datar[{rkey}]['it']" in rowtxt and itvar in rowtxt \
        and any(isinstance(lp, ast.For) and unparse(lp.target) == rkey
                and unparse(lp.iter) in ("datar", "datar.keys()") for lp in loops) \
        and any(isinstance(lp, ast.For) and unparse(lp.target) == ckey
                and unparse(lp.iter) in (f"datar[{rkey}]", f"datar[{rkey}].keys()")
                for lp in loops)
    fl = loops[-1] if loops else fn
    rep.check(ok, "restart-selection", key + "::flatten-in-request-order",
              "the final table must be assembled in the order of the requested (sorted) "
              "iterations, all columns of one iteration from one row", node=fl or fn)
    # unsupported layout raises
    for q in ("read_ET_group_or_var", "read_ET_checkpoints"):
        f2 = fnode(rep, q)
        sites = [n for n in ast.walk(f2) if isinstance(n, ast.If)
                 and unparse(n.test) in ("len(key) != 1", "len(key) == 1")]
        ok = bool(sites)
        for s_ in sites:
            # every exit of the "not exactly one key" side either raises or has reduced `key`
            # to its single element; the other side takes the single element
            # `follow`: falling off the end of the site leads straight to `key = key[0]`
            # (guard-clause form); then a side may also end by establishing a single key
            # (`if len(key) != 1: raise` as its last statement) or be empty when it is the
            # single-key side
            par = getattr(s_, "_parent", None)
            follow = False
            for field in ("body", "orelse"):
                blk_ = getattr(par, field, None)
                if isinstance(blk_, list) and any(x is s_ for x in blk_):
                    k_ = [i for i, x in enumerate(blk_) if x is s_][0]
                    follow = k_ + 1 < len(blk_) and unparse(blk_[k_ + 1]) == "key = key[0]"

            def exits_ok(blk, single=False):
                if not blk:
                    return follow and single
                last = blk[-1]
                if isinstance(last, ast.Raise):
                    return True
                if isinstance(last, ast.If):
                    if follow and not last.orelse and unparse(last.test) == "len(key) != 1" \
                            and last.body and isinstance(last.body[-1], ast.Raise):
                        return True
                    return exits_ok(last.body) and bool(last.orelse) and exits_ok(last.orelse)
                return isinstance(last, ast.Assign) and unparse(last) == "key = key[0]"
            bad_side, good_side = (s_.body, s_.orelse) if "!=" in unparse(s_.test) \
                else (s_.orelse, s_.body)
            if s_ is not None and any(s_ is x for a_ in sites if a_ is not s_
                                      for x in ast.walk(a_)):
                continue        # a nested re-check: judged as part of the outer site
            ok = ok and exits_ok(bad_side) and exits_ok(good_side, single=True)
        rep.check(ok, "restart-selection", f"{RD}::{q}::ambiguous-key-raises",
                  "an ambiguous or missing dataset key must raise instead of picking one",
                  node=f2)


def name_maps(rep):
    S = rep.sources
    y = S.yaml("data/var_mappings.yml")
    a2e, e2a = y["aurel_to_ET_varnames"], y["ET_to_aurel_varnames"]
    t2s = y["aurel_tensor_to_scalar"]
    key = "data/var_mappings.yml"
    for e, a in e2a.items():
        rep.check(a2e.get(a) == [e], "name-maps", f"{key}::ET_to_aurel[{e}]",
                  f"ET name {e} maps to {a}, but aurel_to_ET[{a}] = {a2e.get(a)}",
                  file=key)
    for T, comps in t2s.items():
        if T not in a2e:
            rep.violation("name-maps", f"{key}::tensor[{T}]", f"{T} has no ET name list",
                          file=key)
            continue
        want = []
        for c in comps:
            want += a2e.get(c, [c])
        rep.check(a2e[T] == want, "name-maps", f"{key}::tensor[{T}]",
                  f"components of {T} translate to {want}, its own ET list is {a2e[T]} "
                  "(order decides which component is which)", file=key)
    names = list(a2e)
    for i, A in enumerate(names):
        for B in names[i + 1:]:
            if set(a2e[A]) < set(a2e[B]):
                rep.violation("name-maps", f"{key}::order[{A}<{B}]",
                              f"{A} (ET {a2e[A]}) is listed before {B} (ET {a2e[B]}) whose list "
                              "contains it: transform_vars_ET_to_aurel_groups consumes names in "
                              "table order and would never form the group", file=key)
    rep.ok("name-maps", f"{key}::order", {"entries": len(names)})
    # the code reads the tables it is checked against
    mod = S.module(RD)
    got = {unparse(n.targets[0]): unparse(n.value) for n in mod.body
           if isinstance(n, ast.Assign) and "_varmaps[" in unparse(n.value)}
    want = {k: f"_varmaps['{k}']" for k in ("aurel_tensor_to_scalar", "aurel_to_ET_varnames",
                                            "ET_to_aurel_varnames", "known_groups")}
    rep.check(got == want, "name-maps", f"{RD}::table-binding",
              f"module tables are bound to {got}", node=mod)


# =============================================================================================
# catalogue format: token collisions, regex users, separators
# =============================================================================================
PATH_ALPHABET = set("ABCDEFGHIJKLMNOPQRSTUVWXYZabcdefghijklmnopqrstuvwxyz0123456789_./-")
LIST_ALPHABET = set("ABCDEFGHIJKLMNOPQRSTUVWXYZabcdefghijklmnopqrstuvwxyz0123456789_[]', ")
NUM_ALPHABET = set("0123456789")


def template_of(node):
    """-> list of ('lit', text) / ('hole', kind, source)"""
    parts = []

    def add(n):
        if isinstance(n, ast.Constant) and isinstance(n.value, str):
            parts.append(("lit", n.value))
        elif isinstance(n, ast.JoinedStr):
            for v in n.values:
                if isinstance(v, ast.Constant):
                    parts.append(("lit", v.value))
                else:
                    parts.append(hole(v.value))
        elif isinstance(n, ast.BinOp) and isinstance(n.op, ast.Add):
            add(n.left)
            add(n.right)
        else:
            parts.append(hole(n))

    def hole(n):
        s = unparse(n)
        if s in ("datapath", "file_for_it"):
            return ("hole", "path", s)
        if "vars_available" in s:
            return ("hole", "list", s)
        if "checkpoint_its" in s and "list(" in s:
            return ("hole", "numlist", s)
        if s == "allits":
            return ("hole", "numlist", s)
        return ("hole", "num", s)
    add(node)
    return parts


def may_contain(tmpl, token):
    """'fixed' if token occurs in the literal text, 'hole' if it can occur inside a free
    hole, None otherwise"""
    fixed = "".join(p[1] if p[0] == "lit" else "\0" for p in tmpl)
    if token in fixed:
        return "fixed"
    for p in tmpl:
        if p[0] == "hole":
            alpha = {"path": PATH_ALPHABET, "list": LIST_ALPHABET,
                     "numlist": NUM_ALPHABET | set("[], "), "num": NUM_ALPHABET | set("-")}[p[1]]
            if all(ch in alpha for ch in token):
                return "hole"
    return None


def token_collisions(rep):
    it_fn = fnode(rep, "iterations")
    rd_fn = fnode(rep, "read_iterations")
    # writer templates, by the literal that identifies them
    templates = {}
    for c in walk_calls(it_fn, "saveprint"):
        t = template_of(c.args[1])
        lit = "".join(p[1] for p in t if p[0] == "lit")
        templates[lit.strip()[:24]] = (t, c)
    if len(templates) < 6:
        raise AnalysisError(f"iterations(): only {len(templates)} writer templates found")
    # parser guards: the if/elif chain of read_iterations, in order
    chain = None
    for n in ast.walk(rd_fn):
        if isinstance(n, ast.For) and unparse(n.iter) == "lines":
            for st in n.body:
                if isinstance(st, ast.If):
                    chain = st
    if chain is None:
        raise AnalysisError("read_iterations: guard chain not found")
    guards = []
    node = chain
    while isinstance(node, ast.If):
        t = node.test
        if isinstance(t, ast.Compare) and isinstance(t.ops[0], ast.In) \
                and isinstance(t.left, ast.Constant):
            guards.append((t.left.value, node))
        else:
            raise AnalysisError(f"read_iterations: guard not a substring test: {unparse(t)}")
        node = node.orelse[0] if len(node.orelse) == 1 and isinstance(node.orelse[0],
                                                                      ast.If) else None
    # which guard is meant for which template: the first guard whose token is in the fixed text
    for name, (tmpl, call) in templates.items():
        intended = None
        for tok, _g in guards:
            if may_contain(tmpl, tok) == "fixed":
                intended = tok
                break
        for tok, g in guards:
            if tok == intended:
                break
            how = may_contain(tmpl, tok)
            rep.check(how is None, "token-collision",
                      f"{RD}::read_iterations::guard({tok!r})~line({name!r})",
                      f"the parser test `{tok!r} in line` can fire on the line "
                      f"`{name}...` (token can occur in its {how} part), which is meant for "
                      f"{'the guard ' + repr(intended) if intended else 'no guard'}", node=g)
        if intended is None:
            for tok, g in guards:
                how = may_contain(tmpl, tok)
                rep.check(how is None, "token-collision",
                          f"{RD}::read_iterations::guard({tok!r})~ignored-line({name!r})",
                          f"the parser test `{tok!r} in line` can fire on the informational "
                          f"line `{name}...` through its {how} part (a path or name containing "
                          "the token)", node=g)
    # the restarts_done scan inside iterations()
    scans = [n for n in ast.walk(it_fn) if isinstance(n, ast.ListComp)
             and "for line in lines" in unparse(n)]
    if not scans:
        raise AnalysisError("iterations(): restarts_done scan not found")
    for sc in scans:
        conds = sc.generators[0].ifs
        toks = [c.left.value for c in conds if isinstance(c, ast.Compare)
                and isinstance(c.left, ast.Constant)]
        split_tok = None
        for x in ast.walk(sc.elt):
            if isinstance(x, ast.Call) and isinstance(x.func, ast.Attribute) \
                    and x.func.attr == "split" and x.args and isinstance(x.args[0],
                                                                         ast.Constant):
                split_tok = x.args[0].value
        for tok in toks:
            for name, (tmpl, call) in templates.items():
                how = may_contain(tmpl, tok)
                is_header = " === restart" in "".join(p[1] for p in tmpl if p[0] == "lit")
                if is_header:
                    rep.check(how == "fixed", "token-collision",
                              f"{RD}::iterations::restarts_done({tok!r})~header",
                              "the scan does not recognise the restart header", node=sc)
                else:
                    rep.check(how is None, "token-collision",
                              f"{RD}::iterations::restarts_done({tok!r})~line({name!r})",
                              f"`{tok!r} in line` also matches the line `{name}...` through "
                              f"its {how} part (e.g. a simulation called my_{tok.strip()}_run): "
                              "the second call parses a path as a restart number", node=sc)
        rep.check(split_tok is not None and all(split_tok.strip() in t for t in toks),
                  "token-collision", f"{RD}::iterations::restarts_done::split",
                  "the scan splits on a different token than it tests for", node=sc)
    return templates, guards


def catalogue_roundtrip(rep):
    """iterations.txt parses back to the structure that was returned in memory: the parser of
    read_iterations() is interpreted abstractly (roundtrip.py) on every line template the
    writer in iterations() emits, and what it stores is compared, key by key and field by
    field, with what the writer stored in the in-memory catalogue next to that line."""
    from . import roundtrip as RT
    it_fn = fnode(rep, "iterations")
    rd_fn = fnode(rep, "read_iterations")
    base = f"{RD}::iterations~read_iterations"
    # ---- parser: the guard chain
    chain, linevar = None, None
    for n in ast.walk(rd_fn):
        if isinstance(n, ast.For) and isinstance(n.target, ast.Name) \
                and any(isinstance(st, ast.If) for st in n.body):
            for st in n.body:
                if isinstance(st, ast.If) and isinstance(st.test, ast.Compare) \
                        and isinstance(st.test.ops[0], ast.In) \
                        and unparse(st.test.comparators[0]) == n.target.id:
                    chain, linevar = st, n.target.id
    if chain is None:
        raise AnalysisError("read_iterations: guard chain not found")
    branches = []
    node = chain
    while isinstance(node, ast.If):
        t = node.test
        if not (isinstance(t, ast.Compare) and isinstance(t.left, ast.Constant)):
            raise AnalysisError("read_iterations: guard not a substring test")
        branches.append((t.left.value, node.body))
        node = node.orelse[0] if len(node.orelse) == 1 and isinstance(node.orelse[0],
                                                                      ast.If) else None
    # ---- writer: line templates with the store next to them
    def hole_kind(e):
        if isinstance(e, ast.Call) and unparse(e.func) == "list":
            return "intlist"
        if isinstance(e, ast.Call) and unparse(e.func) == "str" and e.args:
            inner = e.args[0]
            if isinstance(inner, ast.Call) and unparse(inner.func) == "list":
                return "str-intlist"
            if isinstance(inner, ast.Name) and role_of(it_fn, inner.id) not in (None, "local"):
                return "str-num"        # str(<loop variable / parameter>): one value
            return "strlist"
        if isinstance(e, ast.Name):
            defs = [a for a in assignments_to(it_fn, e.id) if isinstance(a, ast.Assign)]
            if defs and all(unparse(a.value).startswith("np.sort(") for a in defs):
                return "array"
        return "num"

    def instances(expr, choice):
        """abstract lines for a writer expression; choice: multi-def name -> chosen value"""
        outs = [([], {})]

        def extend(items, lists=None):
            for o in outs:
                o[0].extend(items)
                if lists:
                    o[1].update(lists)

        def add(n):
            nonlocal outs
            if isinstance(n, ast.Constant) and isinstance(n.value, str):
                extend(RT.lit(n.value))
            elif isinstance(n, ast.JoinedStr):
                for v in n.values:
                    if isinstance(v, ast.Constant):
                        extend(RT.lit(v.value))
                    else:
                        addhole(v.value)
            elif isinstance(n, ast.BinOp) and isinstance(n.op, ast.Add):
                add(n.left)
                add(n.right)
            elif isinstance(n, ast.Name) and n.id in choice:
                add(choice[n.id])
            elif isinstance(n, ast.Name) and n.id in single_defs(it_fn) and isinstance(
                    single_defs(it_fn)[n.id], (ast.JoinedStr, ast.BinOp, ast.Constant)):
                add(single_defs(it_fn)[n.id])
            else:
                addhole(n)

        def addhole(e):
            nonlocal outs
            kind = hole_kind(e)
            if kind == "str-intlist":
                e, kind = e.args[0], "intlist"
            elif kind == "str-num":
                e, kind = e.args[0], "num"
            src = e.args[0] if kind in ("intlist", "strlist") and e.args else e
            name = unparse(src)
            if kind == "num":
                extend([("h", rtext(it_fn, e))])
            elif kind == "strlist":
                extend(RT.lit("['") + [("h", name + "[0]")] + RT.lit("', '")
                       + [("h", name + "[1]")] + RT.lit("']"), {name: 2})
            elif kind == "array":
                extend(RT.lit("[") + [("h", name + "[0]")] + RT.lit("]"), {name: 1})
            else:
                new = []
                for o in outs:
                    new.append((o[0] + RT.lit("[]"), dict(o[1], **{name: 0})))
                    new.append((o[0] + RT.lit("[") + [("h", name + "[0]")] + RT.lit(", ")
                                + [("h", name + "[1]")] + RT.lit("]"), dict(o[1], **{name: 2})))
                outs = new
        add(expr)
        return outs

    def block_of(st):
        par = getattr(st, "_parent", None)
        for field in ("body", "orelse"):
            b = getattr(par, field, None)
            if isinstance(b, list) and st in b:
                return b
        return None

    def store_near(call):
        """the in-memory store its_available[...] = ... that belongs to this line: in the same
        block, or (for a line assembled from branch-dependent pieces) in the preceding if/else"""
        st = parent_stmt(call)
        blk = block_of(st) or []
        cands = []
        for x in blk:
            if isinstance(x, ast.Assign) and unparse(x.targets[0]).startswith("its_available["):
                cands.append((abs(x.lineno - st.lineno), x, {}))
        return cands

    n_lines = 0
    for call in walk_calls(it_fn, "saveprint"):
        expr = call.args[1]
        st = parent_stmt(call)
        blk = block_of(st) or []
        # names with several definitions in a preceding if/else of the same block
        variants = [({}, None)]
        multi = [x.id for x in ast.walk(expr) if isinstance(x, ast.Name)
                 and x.id not in single_defs(it_fn)
                 and len([a for a in assignments_to(it_fn, x.id)
                          if isinstance(a, ast.Assign)]) > 1]
        prev = [x for x in blk[:blk.index(st)] if isinstance(x, ast.If) and any(
            isinstance(a, ast.Assign) and isinstance(a.targets[0], ast.Name)
            and a.targets[0].id in multi for a in ast.walk(x))] if multi and st in blk else []
        if prev:
            variants = []
            iff = prev[-1]
            for br in (iff.body, iff.orelse):
                ch, mem = {}, None
                for x in br:
                    if isinstance(x, ast.Assign) and isinstance(x.targets[0], ast.Name) \
                            and x.targets[0].id in multi:
                        ch[x.targets[0].id] = x.value
                    if isinstance(x, ast.Assign) and unparse(x.targets[0]).startswith(
                            "its_available["):
                        mem = x
                variants.append((ch, mem))
        for choice, mem in variants:
            if mem is None and st in blk:
                i = blk.index(st)
                for j in (i - 1, i + 1):
                    if 0 <= j < len(blk) and isinstance(blk[j], ast.Assign) \
                            and unparse(blk[j].targets[0]).startswith("its_available[") \
                            and mem is None:
                        mem = blk[j]
            for line, lists in instances(expr, choice):
                text = RT.show(line)
                # which parser branch takes this line
                taken = None
                for tok, body in branches:
                    if RT.find(line, tok) >= 0:
                        taken = (tok, body)
                        break
                key = f"{base}::line({text[:40]!r})"
                if taken is None:
                    # informational line: nothing may be stored for it in memory either
                    rep.check(mem is None or not text.startswith((" ===", "it =", "rl =")),
                              "catalogue-roundtrip", key,
                              "the writer stores a catalogue entry next to a line no parser "
                              "branch reads", node=call)
                    continue
                n_lines += 1
                P_ = RT.Parser(line, linevar)
                # values carried over from earlier lines (the restart number of the header)
                for _tok, body in branches:
                    if body is taken[1]:
                        continue
                    for x in body:
                        if isinstance(x, ast.Assign) and isinstance(x.targets[0], ast.Name):
                            P_.env.setdefault(x.targets[0].id, ("field", "$" + x.targets[0].id))
                try:
                    P_.run(taken[1])
                except RT.NotParsed as e:
                    rep.violation("catalogue-roundtrip", key,
                                  f"the parser branch for {taken[0]!r} cannot take the line "
                                  f"`{text}` apart: {e}", node=call)
                    continue
                stores = [s_ for s_ in P_.stores if s_[0] == "its_available"]
                if mem is None:
                    raise AnalysisError(f"iterations(): no in-memory store next to `{text}`")
                # writer side: key path (after the restart) and value
                wt = mem.targets[0]
                wkeys = []
                while isinstance(wt, ast.Subscript):
                    wkeys.insert(0, wt.slice)
                    wt = wt.value
                wkey = wkeys[1] if len(wkeys) > 1 else None
                wkey_txt = None
                if wkey is not None:
                    inst = instances(wkey, choice)
                    wkey_txt = RT.show(inst[0][0]) if inst else None
                wv = mem.value
                if isinstance(wv, ast.List):
                    wvals = [rtext(it_fn, e) for e in wv.elts]
                elif isinstance(wv, ast.Dict) and not wv.keys:
                    wvals = []
                else:
                    nm = rtext(it_fn, wv)
                    nm0 = unparse(wv)
                    k = lists.get(nm0, lists.get(nm))
                    if k is None:
                        raise AnalysisError(f"iterations(): stored value `{nm0}` of the line "
                                            f"`{text}` not understood")
                    wvals = [f"{nm0}[{i}]" for i in range(k)]
                if len(stores) != 1:
                    rep.violation("catalogue-roundtrip", key,
                                  f"the parser stores {len(stores)} entries for the line "
                                  f"`{text}`, the writer one", node=call)
                    continue
                _b, pkeys, pval = stores[0]
                # restart key: the header's number
                pkey_txt = RT.show(pkeys[1][1]) if len(pkeys) > 1 and pkeys[1][0] == "str" \
                    else None
                ok_key = (wkey_txt == pkey_txt)
                pv = RT.flat(pval) if pval[0] != "const" else []
                ok_val = pv == wvals
                rep.check(ok_key and ok_val, "catalogue-roundtrip", key,
                          f"line `{text}`: the writer keeps {wvals} under {wkey_txt!r}, the "
                          f"parser reads back {pv} under {pkey_txt!r}", node=call,
                          detail={"line": text, "fields": pv})
    if n_lines < 6:
        raise AnalysisError(f"catalogue round trip: only {n_lines} parsed line templates")


def regex_users(rep):
    import re._parser as rp
    S = rep.sources
    mod = S.module(RD)
    pats = {}
    for n in mod.body:
        if isinstance(n, ast.Assign) and isinstance(n.value, ast.Call) \
                and unparse(n.value.func) == "re.compile":
            src = "".join(c.value for c in ast.walk(n.value.args[0])
                          if isinstance(c, ast.Constant) and isinstance(c.value, str))
            pats[unparse(n.targets[0])] = src
    if not {"rx_key", "rx_h5file", "rx_checkpoint"} <= set(pats):
        raise AnalysisError("reading.py: regex definitions not found")
    info = {}
    for name, src in pats.items():
        tree = rp.parse(src)
        groups = {}

        def scan(seq, optional):
            for op, av in seq:
                opn = str(op)
                if opn == "SUBPATTERN":
                    gid, _a, _b, sub = av
                    if gid is not None:
                        digits = all(str(o) == "MAX_REPEAT" and str(a[2][0][0]) == "IN"
                                     and "CATEGORY_DIGIT" in str(a[2][0][1]) for o, a in sub) \
                            and len(sub) > 0
                        groups[gid] = dict(optional=optional, digits=digits)
                    scan(sub, optional)
                elif opn in ("MAX_REPEAT", "MIN_REPEAT"):
                    lo, _hi, sub = av
                    scan(sub, optional or lo == 0)
                elif opn == "BRANCH":
                    for b in av[1]:
                        scan(b, True)
        scan(tree, False)
        info[name] = groups
    uses = {"parse_hdf5_key": "rx_key", "parse_h5file": None}
    for q in ("parse_hdf5_key", "parse_h5file"):
        fn = S.function(RD, q)
        var2rx = {}
        for n in ast.walk(fn):
            if isinstance(n, ast.Assign) and isinstance(n.value, ast.Call) \
                    and isinstance(n.value.func, ast.Attribute) and n.value.func.attr == "match":
                var2rx[unparse(n.targets[0])] = unparse(n.value.func.value)
        for n in ast.walk(fn):
            if isinstance(n, ast.Call) and isinstance(n.func, ast.Attribute) \
                    and n.func.attr == "group" and unparse(n.func.value) in var2rx:
                rx = var2rx[unparse(n.func.value)]
                g = const_value(n.args[0]) if n.args else None
                if g is None:
                    raise AnalysisError(f"{q}: group number `{unparse(n)}` is not a literal")
                g = int(g)
                key = f"{RD}::{q}::{rx}.group({g})"
                gi = info[rx].get(g)
                if gi is None:
                    rep.violation("regex-groups", key, f"{rx} has no group {g}", node=n)
                    continue
                par = getattr(n, "_parent", None)
                # the conversions of this group: int(m.group(g)) directly, or int(N) where N is
                # the one name the group is bound to
                conversions = []        # (int call, text that a presence test must test)
                if isinstance(par, ast.Call) and unparse(par.func) == "int":
                    conversions.append((n, unparse(n)))
                if isinstance(par, ast.Assign) and len(par.targets) == 1 \
                        and isinstance(par.targets[0], ast.Name) and par.value is n:
                    N = par.targets[0].id
                    nstores = sum(isinstance(x, ast.Name) and x.id == N
                                  and isinstance(x.ctx, ast.Store) for x in ast.walk(fn))
                    if nstores == 1:
                        for c_ in ast.walk(fn):
                            if isinstance(c_, ast.Call) and unparse(c_.func) == "int" \
                                    and len(c_.args) == 1 and unparse(c_.args[0]) == N:
                                conversions.append((c_.args[0], N))
                is_int = bool(conversions)
                ok = True
                why = ""
                if is_int and not gi["digits"]:
                    ok, why = False, f"int() applied to group {g}, which is not \\d+"
                if is_int and gi["optional"]:
                    # must be guarded by a test of the same group
                    for node_, txt in conversions:
                        guarded = False
                        child = node_
                        for a in ancestors(node_):
                            # inside the true side of a test of that very group (truthiness or
                            # `is not None`), as a conditional expression or an if statement
                            if isinstance(a, (ast.IfExp, ast.If)):
                                t = unparse(a.test)
                                body = a.body if isinstance(a.body, list) else [a.body]
                                inside = any(child is x or child in list(ast.walk(x))
                                             for x in body)
                                if inside and t in (txt, txt + " is not None"):
                                    guarded = True
                            child = a
                        if not guarded:
                            ok, why = False, (f"optional group {g} converted without a "
                                              "presence test")
                rep.check(ok, "regex-groups", key, why, node=n)
    del uses
    # naming scheme of restart directories
    it_fn = S.function(RD, "iterations")
    txt = unparse(it_fn)
    ok = "re.compile('^output-(\\\\d+)$')" in txt and "int(fl.split('-')[1])" in txt
    # every place that writes a restart directory name pads the number to four digits
    # (whatever the expression that holds the number is called)
    import re as _re
    fmts = set()
    for n in ast.walk(S.module(RD)):
        if isinstance(n, ast.JoinedStr):
            for i, part in enumerate(n.values):
                if isinstance(part, ast.Constant) and isinstance(part.value, str) \
                        and part.value.endswith("output-"):
                    nxt = n.values[i + 1] if i + 1 < len(n.values) else None
                    spec = ""
                    if isinstance(nxt, ast.FormattedValue) and nxt.format_spec is not None:
                        spec = "".join(v.value for v in nxt.format_spec.values
                                       if isinstance(v, ast.Constant))
                    fmts.add("{restart:" + spec + "}" if spec else "{restart}")
        elif isinstance(n, ast.Constant) and isinstance(n.value, str) \
                and "output-{" in n.value and not isinstance(
                    getattr(n, "_parent", None), ast.JoinedStr):
            for m in _re.finditer(r"output-\{\w*(?::([^}]*))?\}", n.value):
                fmts.add("{restart:" + m.group(1) + "}" if m.group(1) else "{restart}")
    rep.check(ok and bool(fmts) and all(
        f.startswith("{restart:04d}") for f in fmts), "regex-groups",
        f"{RD}::restart-directory-naming",
        f"restart directories must be written output-{{restart:04d}} and parsed by "
        f"^output-(\\d+)$ / int(split('-')[1]); formats found {sorted(fmts)}", node=it_fn)


def content_file(rep):
    fn = fnode(rep, "get_content")
    # get_content together with the private module-level helpers it is split into
    mod = {f.name: f for f in rep.sources.module(RD).body if isinstance(f, ast.FunctionDef)}
    scope, todo = [], [fn]
    while todo:
        g = todo.pop()
        if any(g is x for x in scope):
            continue
        scope.append(g)
        for c in ast.walk(g):
            if isinstance(c, ast.Call) and isinstance(c.func, ast.Name) \
                    and c.func.id.startswith("_") and c.func.id in mod:
                todo.append(mod[c.func.id])

    def walk_scope():
        for g in scope:
            yield from ast.walk(g)
    # every split that rebuilds a key tuple and every join that flattens one use one literal
    # separator (whatever the surrounding loop / comprehension looks like)
    splits, joins = [], []
    for n in walk_scope():
        if isinstance(n, ast.Call) and isinstance(n.func, ast.Attribute) and len(n.args) == 1:
            if n.func.attr == "split" and isinstance(n.args[0], ast.Constant) \
                    and isinstance(getattr(n, "_parent", None), ast.Call) \
                    and unparse(n._parent.func) == "tuple":
                splits.append(n.args[0].value)
            if n.func.attr == "join" and isinstance(n.func.value, ast.Constant) \
                    and isinstance(n.func.value.value, str):
                par = getattr(n, "_parent", None)
                # used as a dictionary key (subscript store or dict comprehension key)
                if (isinstance(par, ast.Subscript) and par.slice is n) or \
                        (isinstance(par, ast.DictComp) and par.key is n):
                    joins.append(n.func.value.value)
    if not splits or not joins:
        raise AnalysisError("get_content: key join / split of the content file not found")
    seps = set(splits) | set(joins)
    rep.check(len(seps) == 1 and len(next(iter(seps))) == 1, "separator",
              f"{RD}::get_content::key-separator",
              f"variable tuples must be joined and split with the same separator; found "
              f"join {sorted(set(joins))} split {sorted(set(splits))}", node=fn)
    sep = next(iter(seps))
    loads = [n for n in walk_scope() if isinstance(n, ast.Call)
             and unparse(n.func) == "json.load"]
    dumps = [n for n in walk_scope() if isinstance(n, ast.Call)
             and unparse(n.func) == "json.dump"]
    rep.check(sep not in "".join(sorted(PATH_ALPHABET)) and bool(loads) and bool(dumps),
              "separator", f"{RD}::get_content::json-pair",
              "content.txt must be a json dump/load pair", node=fn)
    # variable names cannot contain the separator: rx_h5file alphabet and known_groups
    S = rep.sources
    y = S.yaml("data/var_mappings.yml")
    bad = [v for vs in y["known_groups"].values() for v in vs if sep in v]
    rep.check(not bad, "separator", "data/var_mappings.yml::known_groups",
              f"variable names containing the separator: {bad}", file="data/var_mappings.yml")
    # the scan result must not be remembered in module state
    stores = [n for n in walk_scope() if isinstance(n, ast.Assign)
              and isinstance(n.targets[0], ast.Subscript)
              and unparse(n.targets[0].value) in ("known_groups", "aurel_to_ET_varnames",
                                                  "ET_to_aurel_varnames",
                                                  "aurel_tensor_to_scalar")]
    rep.check(not stores, "module-state", f"{RD}::get_content::no-module-cache",
              "the scan stores what it found in a module-level table: a later scan of another "
              "restart/simulation in the same session reuses it instead of what is on disk: "
              + (norm_src(stores[0])[:60] if stores else ""), node=stores[0] if stores else fn)
    # processed_groups is local to one call
    # the memo that is consulted with `base_name in <memo>` is a dict created in this call
    memos = {unparse(n.targets[0].value) for n in walk_scope() if isinstance(n, ast.Assign)
             and isinstance(n.targets[0], ast.Subscript)
             and isinstance(n.targets[0].value, ast.Name)
             and "base_name" in unparse(n.targets[0].slice)}
    ok = bool(memos) and all(any(isinstance(a, ast.Assign) and unparse(a.targets[0]) == m
                                 and unparse(a.value) in ("{}", "dict()")
                                 for a in walk_scope()) for m in memos)
    rep.check(ok, "module-state", f"{RD}::get_content::per-call-memo",
              "the per-call memo of group contents must be created inside the call", node=fn)
