"""Reference formulas in index notation, evaluated componentwise into the same exact domain
(tensor.Arr of tpoly.P) as the interpreted code.

Syntax (parsed with the python `ast`, never executed):

    Kup3[a,b] = gammaup3[i,a]*gammaup3[j,b]*Kdown3[i,j]
    gdown4[0,0] = gtt ; gdown4[0,i+1] = betadown3[i] ; gdown4[i+1,j+1] = gammadown3[i,j]

* lower-case index names range over 0..2, upper-case ones over 0..3; `i+1` embeds a spatial
  index into a spacetime slot; integer literals select a component.
* Einstein convention: an index that is not on the left-hand side is summed over, at the
  innermost product that contains all its occurrences.
* names: cached quantities (typed by tensor.KEYTYPES), temporaries defined by earlier
  equations of the same reference, the scalars kappa, Lambda, I, pi, coordinates
  coord[i].
* functions: d(expr, k) finite-difference derivative along spatial axis k; sqrt, exp, log,
  abs; delta(i,j); eps3(i,j,k), eps4(a,b,c,d) Levi-Civita symbols.
"""
from __future__ import annotations

import ast
import itertools
from fractions import Fraction

from .common import AnalysisError
from .exact import const_value
from .tensor import KEYTYPES, Arr, _abs, _fn, deriv
from .tpoly import P


def _perm_sign(idx):
    idx = list(idx)
    if len(set(idx)) != len(idx):
        return 0
    s = 1
    for i in range(len(idx)):
        for j in range(i + 1, len(idx)):
            if idx[i] > idx[j]:
                s = -s
    return s


class RefError(AnalysisError):
    pass


class RefEval:
    def __init__(self, text, extra_atoms=None, dim=3, keytypes=None):
        self.dim = dim
        self.keytypes = keytypes if keytypes is not None else KEYTYPES
        self.text = text
        self.temps = {}
        self._keys = {}
        self.extra = extra_atoms or {}
        try:
            self.tree = ast.parse(text.replace(";", "\n").replace("\n ", "\n"))
        except SyntaxError as e:
            raise RefError(f"reference does not parse: {e}: {text!r}") from e

    # -- public ---------------------------------------------------------------------------------
    def run(self):
        """Evaluate all equations; returns dict name -> Arr"""
        for st in self.tree.body:
            if not isinstance(st, ast.Assign) or len(st.targets) != 1:
                raise RefError("reference statement must be an assignment")
            self.equation(st.targets[0], st.value)
        return self.temps

    # -- equations ------------------------------------------------------------------------------
    def equation(self, target, value):
        if isinstance(target, ast.Name):
            name, idxs = target.id, []
        elif isinstance(target, ast.Subscript) and isinstance(target.value, ast.Name):
            name = target.value.id
            sl = target.slice
            idxs = list(sl.elts) if isinstance(sl, ast.Tuple) else [sl]
        else:
            raise RefError("bad left-hand side")
        lhs = [self.index_form(i) for i in idxs]   # (name|None, offset|const)
        free = []
        for nm, _off in lhs:
            if nm is not None and nm not in free:
                free.append(nm)
        if name in self.keytypes:
            dims, var = self.keytypes[name]
            if len(dims) != len(lhs):
                raise RefError(f"{name}: rank {len(dims)} but {len(lhs)} indices")
        else:
            dims = tuple(self.slot_dim(nm, off) if nm is None or nm[0].isupper()
                         else (self.dim + off) for nm, off in lhs)
            var = None
        arr = self.temps.get(name)
        if arr is None:
            arr = self.temps[name] = Arr(dims, var, {})
        elif name not in self.keytypes:
            if len(dims) != arr.rank:
                raise RefError(f"{name}: defined with {arr.rank} and {len(dims)} indices")
            arr.shape = tuple(max(a, b) for a, b in zip(arr.shape, dims))
        ranges = [range(4) if nm[0].isupper() else range(self.dim) for nm in free]
        for vals in itertools.product(*ranges):
            env = dict(zip(free, vals))
            comp = []
            ok = True
            for (nm, off), d in zip(lhs, arr.shape):
                v = off if nm is None else env[nm] + off
                if not 0 <= v < d:
                    ok = False
                comp.append(v)
            if not ok:
                raise RefError(f"{name}: component {comp} out of range")
            p = self.ev(value, env)
            if p.is_zero():
                arr.c.pop(tuple(comp), None)
            else:
                arr.c[tuple(comp)] = p

    @staticmethod
    def slot_dim(nm, off):
        if nm is None:
            return off + 1   # grows when later equations define further components
        if nm[0].isupper():
            return 4
        return 4 if off == 1 else 3

    @staticmethod
    def index_form(node):
        c = const_value(node)
        if c is not None:
            return (None, int(c))
        if isinstance(node, ast.Name):
            return (node.id, 0)
        if isinstance(node, ast.BinOp) and isinstance(node.op, ast.Add) \
                and isinstance(node.left, ast.Name):
            c = const_value(node.right)
            if c is not None:
                return (node.left.id, int(c))
        raise RefError("bad index expression")

    # -- expression evaluation with Einstein summation ---------------------------------------------
    def names_in(self, node, env):
        """unbound index names occurring in node"""
        out = set()
        for n in ast.walk(node):
            if isinstance(n, ast.Subscript):
                sl = n.slice
                for e in (sl.elts if isinstance(sl, ast.Tuple) else [sl]):
                    for m in ast.walk(e):
                        if isinstance(m, ast.Name) and m.id not in env:
                            out.add(m.id)
            elif isinstance(n, ast.Call) and isinstance(n.func, ast.Name) \
                    and n.func.id in ("d", "delta", "eps3", "eps4"):
                args = n.args[1:] if n.func.id == "d" else n.args
                for e in args:
                    for m in ast.walk(e):
                        if isinstance(m, ast.Name) and m.id not in env:
                            out.add(m.id)
        return out

    def factors(self, node):
        """flatten a product (Mult, Div, unary minus) into (sign, numerator factors,
        denominator factors)"""
        if isinstance(node, ast.BinOp) and isinstance(node.op, ast.Mult):
            s1, n1, d1 = self.factors(node.left)
            s2, n2, d2 = self.factors(node.right)
            return s1 * s2, n1 + n2, d1 + d2
        if isinstance(node, ast.BinOp) and isinstance(node.op, ast.Div):
            s1, n1, d1 = self.factors(node.left)
            s2, n2, d2 = self.factors(node.right)
            return s1 * s2, n1 + d2, d1 + n2
        if isinstance(node, ast.UnaryOp) and isinstance(node.op, ast.USub):
            s, n, d = self.factors(node.operand)
            return -s, n, d
        return 1, [node], []

    @staticmethod
    def compound(node):
        if isinstance(node, ast.BinOp) and isinstance(node.op, (ast.Add, ast.Sub, ast.Pow)):
            return True
        if isinstance(node, ast.Call) and isinstance(node.func, ast.Name) \
                and node.func.id in ("sqrt", "exp", "log", "abs"):
            return True
        return False

    def ev(self, node, env):
        c = const_value(node)
        if c is not None:
            return P.const(c)
        if isinstance(node, ast.BinOp) and isinstance(node.op, (ast.Add, ast.Sub)):
            a, b = self.ev(node.left, env), self.ev(node.right, env)
            return a + b if isinstance(node.op, ast.Add) else a - b
        if isinstance(node, ast.UnaryOp) and isinstance(node.op, ast.UAdd):
            return self.ev(node.operand, env)
        if isinstance(node, ast.BinOp) and isinstance(node.op, ast.Pow):
            e = const_value(node.right)
            if e is None:
                raise RefError("non-constant exponent")
            if self.names_in(node.left, env):
                # summation happens inside the base
                pass
            return self.ev(node.left, env).pow(e)
        # product level
        sign, num, den = self.factors(node)
        allf = num + den
        # which unbound names are summed here?
        occ = {}
        for k, f in enumerate(allf):
            for nm in self.names_in(f, env):
                occ.setdefault(nm, []).append(k)
        here = []
        for nm, ks in occ.items():
            if len(ks) == 1 and self.compound(allf[ks[0]]):
                continue
            here.append(nm)
        here.sort()
        if not here:
            return self.prod(sign, num, den, env)
        total = P()
        ranges = [range(4) if nm[0].isupper() else range(self.dim) for nm in here]
        for vals in itertools.product(*ranges):
            env2 = dict(env)
            env2.update(zip(here, vals))
            total = total + self.prod(sign, num, den, env2)
        return total

    def prod(self, sign, num, den, env):
        r = P.const(sign)
        for f in num:
            r = r * self.atom(f, env)
            if r.is_zero():
                return r
        for f in den:
            q = self.atom(f, env)
            if q.is_zero():
                raise RefError("reference divides by zero")
            r = r * q.pow(-1)
        return r

    def idx(self, node, env):
        nm, off = self.index_form(node)
        if nm is None:
            return off
        if nm not in env:
            raise RefError(f"unbound index {nm}")
        return env[nm] + off

    def atom(self, node, env):
        c = const_value(node)
        if c is not None:
            return P.const(c)
        if isinstance(node, ast.Name):
            return self.named(node.id, (), env)
        if isinstance(node, ast.Subscript) and isinstance(node.value, ast.Name):
            sl = node.slice
            idxs = tuple(self.idx(e, env) for e in (sl.elts if isinstance(sl, ast.Tuple)
                                                    else [sl]))
            return self.named(node.value.id, idxs, env, node)
        if isinstance(node, ast.Call) and isinstance(node.func, ast.Name):
            f = node.func.id
            if f == "d":
                inner = self.ev(node.args[0], env)
                p = inner
                for a in node.args[1:]:
                    p = deriv(p, self.idx(a, env))
                return p
            if f == "delta":
                a, b = (self.idx(x, env) for x in node.args)
                return P.const(1 if a == b else 0)
            if f in ("eps3", "eps4"):
                return P.const(_perm_sign([self.idx(x, env) for x in node.args]))
            if f == "sqrt":
                return self.ev(node.args[0], env).pow(Fraction(1, 2))
            if f == "abs":
                return _abs(self.ev(node.args[0], env))
            if f in ("exp", "log", "conj"):
                return _fn(f, self.ev(node.args[0], env))
            raise RefError("unknown function " + f)
        # parenthesised sub-expression
        return self.ev(node, env)

    def named(self, name, idxs, env, node=None):
        if name in self.temps and name not in self.keytypes:
            a = self.temps[name]
            if len(idxs) != a.rank:
                raise RefError(f"{name}: rank {a.rank}, {len(idxs)} indices")
            for v, d in zip(idxs, a.shape):
                if not 0 <= v < d:
                    raise RefError(f"{name}{list(idxs)}: index out of range")
            return a.get(idxs)
        if name in self.extra:
            a = self.extra[name]
            return a.get(idxs)
        if name in self.keytypes:
            a = self._keys.get(name)
            if a is None:
                a = self._keys[name] = Arr.key(name, self.keytypes)
            if len(idxs) != a.rank:
                raise RefError(f"{name}: rank {a.rank}, {len(idxs)} indices")
            for v, d in zip(idxs, a.shape):
                if not 0 <= v < d:
                    raise RefError(f"{name}{list(idxs)}: index out of range (dim {d})")
            return a.get(idxs)
        if name in ("kappa", "Lambda", "I", "pi") and not idxs:
            return P.atom(name)
        if name in ("dtconserved_D", "dtconserved_E") and not idxs:
            return P.atom(name)
        if name == "dtconserved_S" and len(idxs) == 1:
            return P.atom(f"dtconserved_S[{idxs[0]}]")
        if name == "coord" and len(idxs) == 1:
            return P.atom("coord_" + "xyz"[idxs[0]])
        raise RefError(f"unknown name {name}")


def evaluate(text, target, extra_atoms=None, dim=3, keytypes=None):
    r = RefEval(text, extra_atoms, dim, keytypes).run()
    if target not in r:
        raise RefError(f"reference does not define {target}")
    return r[target]
