"""Reference term tables: the textbook side of "reference-term agreement".

Each entry maps a quantity of AurelCore to its defining formula in index notation (refdsl),
as a function of the configuration under which the method was interpreted (vacuum flag,
which keys are present in the cache).  The formulas are written from the cited sources
(Alcubierre 2008, Baumgarte & Shapiro 2010, Shibata 2015, Gourgoulhon 2007) in terms of the
cached quantities the code reads, and were validated once, numerically, against an
independent evaluation of the 4D definitions (findings/validate_core*.py).

Conventions: signature (-+++), K_ij = -(1/2 alpha)(d_t gamma_ij - L_beta gamma_ij),
kappa = 8 pi, lower-case indices spatial, upper-case spacetime, `i+1` embeds a spatial
index in a spacetime slot.
"""
from __future__ import annotations


def _comp_pick(key, tensor, comps, default):
    """component keys such as gxx: tensor[i,j] if the tensor is cached, else the default"""
    def f(cfg, key=key):
        i = comps[key]
        if cfg.get("in:" + tensor):
            return f"{key} = {tensor}[{','.join(str(x) for x in i)}]"
        return f"{key} = {default[key]}"
    return f


REF = {}

# ---- spatial metric, extrinsic curvature, shift components ---------------------------------------
_g = dict(gxx=(0, 0), gxy=(0, 1), gxz=(0, 2), gyy=(1, 1), gyz=(1, 2), gzz=(2, 2))
_gd = dict(gxx=1, gxy=0, gxz=0, gyy=1, gyz=0, gzz=1)
for _k in _g:
    REF[_k] = _comp_pick(_k, "gammadown3", _g, _gd)
_kk = dict(kxx=(0, 0), kxy=(0, 1), kxz=(0, 2), kyy=(1, 1), kyz=(1, 2), kzz=(2, 2))
for _k in _kk:
    REF[_k] = _comp_pick(_k, "Kdown3", _kk, dict.fromkeys(_kk, 0))
_b = dict(betax=(0,), betay=(1,), betaz=(2,))
for _k in _b:
    REF[_k] = _comp_pick(_k, "betaup3", _b, dict.fromkeys(_b, 0))
_db = dict(dtbetax=(0,), dtbetay=(1,), dtbetaz=(2,))
for _k in _db:
    REF[_k] = _comp_pick(_k, "dtbetaup3", _db, dict.fromkeys(_db, 0))
_gt = dict(gtx=0, gty=1, gtz=2)
for _k, _i in _gt.items():
    REF[_k] = (lambda cfg, k=_k, i=_i: f"{k} = gdown4[0,{i+1}]" if cfg.get("in:gdown4")
               else f"{k} = betadown3[{i}]")
REF["gtt"] = lambda cfg: "gtt = gdown4[0,0]" if cfg.get("in:gdown4") \
    else "gtt = -alpha**2 + betamag"


def _sym3(key, names):
    xx, xy, xz, yy, yz, zz = names
    return (f"{key}[0,0]={xx}; {key}[0,1]={xy}; {key}[0,2]={xz}; {key}[1,0]={xy}; "
            f"{key}[1,1]={yy}; {key}[1,2]={yz}; {key}[2,0]={xz}; {key}[2,1]={yz}; "
            f"{key}[2,2]={zz}")


REF["gammadown3"] = lambda cfg: _sym3("gammadown3", ["gxx", "gxy", "gxz", "gyy", "gyz", "gzz"])
REF["Kdown3"] = lambda cfg: _sym3("Kdown3", ["kxx", "kxy", "kxz", "kyy", "kyz", "kzz"])
REF["betaup3"] = lambda cfg: "betaup3[0]=betax; betaup3[1]=betay; betaup3[2]=betaz"
REF["dtbetaup3"] = lambda cfg: "dtbetaup3[0]=dtbetax; dtbetaup3[1]=dtbetay; dtbetaup3[2]=dtbetaz"
REF["alpha"] = lambda cfg: "alpha = 1"
REF["dtalpha"] = lambda cfg: "dtalpha = 0"
REF["press"] = lambda cfg: "press = 0"
REF["w_lorentz"] = lambda cfg: "w_lorentz = 1"
for _k in ("velx", "vely", "velz"):
    REF[_k] = lambda cfg, k=_k: f"{k} = 0"

REF["betadown3"] = lambda cfg: "betadown3[j] = betaup3[i]*gammadown3[i,j]"
REF["betamag"] = lambda cfg: "betamag = betaup3[i]*betadown3[i]"
REF["dttau"] = lambda cfg: "dttau = sqrt(abs(alpha**2 - betamag))"
REF["nup4"] = lambda cfg: "nup4[0] = 1/alpha; nup4[i+1] = -betaup3[i]/alpha"
REF["ndown4"] = lambda cfg: "ndown4[0] = -alpha"
REF["gdown4"] = lambda cfg: ("gdown4[0,0]=gtt; gdown4[0,i+1]=betadown3[i]; "
                             "gdown4[i+1,0]=betadown3[i]; gdown4[i+1,j+1]=gammadown3[i,j]")
REF["gammadown4"] = lambda cfg: ("gammadown4[0,0]=betamag; gammadown4[0,i+1]=betadown3[i]; "
                                 "gammadown4[i+1,0]=betadown3[i]; "
                                 "gammadown4[i+1,j+1]=gammadown3[i,j]")
REF["gammaup4"] = lambda cfg: "gammaup4[i+1,j+1] = gammaup3[i,j]"
REF["psi_bssnok"] = lambda cfg: "psi_bssnok = gammadet**(1/12)"
REF["phi_bssnok"] = lambda cfg: "phi_bssnok = log(psi_bssnok)"
REF["gammaup3_bssnok"] = lambda cfg: "gammaup3_bssnok[i,j] = psi_bssnok**4*gammaup3[i,j]"
REF["gammadown3_bssnok"] = lambda cfg: \
    "gammadown3_bssnok[i,j] = psi_bssnok**(-4)*gammadown3[i,j]"
REF["Adown3_bssnok"] = lambda cfg: "Adown3_bssnok[i,j] = psi_bssnok**(-4)*Adown3[i,j]"
REF["Aup3_bssnok"] = lambda cfg: "Aup3_bssnok[i,j] = psi_bssnok**4*Aup3[i,j]"
REF["Kup3"] = lambda cfg: "Kup3[a,b] = gammaup3[i,a]*gammaup3[j,b]*Kdown3[i,j]"
REF["Ktrace"] = lambda cfg: "Ktrace = gammaup3[j,k]*Kdown3[j,k]"
REF["Adown3"] = lambda cfg: ("Adown3[i,j] = Kdown3[i,j] "
                             "- (1/3)*gammadown3[i,j]*(gammaup3[k,l]*Kdown3[k,l])")
REF["Aup3"] = lambda cfg: "Aup3[i,j] = gammaup3[i,a]*gammaup3[j,b]*Adown3[a,b]"
REF["A2"] = lambda cfg: "A2 = (1/2)*Adown3[a,b]*Adown3[i,j]*gammaup3[a,i]*gammaup3[b,j]"
REF["A2_bssnok"] = lambda cfg: "A2_bssnok = Adown3_bssnok[i,j]*Aup3_bssnok[i,j]"

# Lie derivatives along the shift (written out)
_LIE_UU = ("betaup3[s]*d({T}[i,j],s) - {T}[s,j]*d(betaup3[i],s) - {T}[i,s]*d(betaup3[j],s)")
_LIE_DD = ("betaup3[s]*d({T}[i,j],s) + {T}[s,j]*d(betaup3[s],i) + {T}[i,s]*d(betaup3[s],j)")

REF["dtgammaup3"] = lambda cfg: ("dtgammaup3[i,j] = " + _LIE_UU.format(T="gammaup3")
                                 + " + 2*alpha*Kup3[i,j]")
REF["dtphi_bssnok"] = lambda cfg: ("dtphi_bssnok = betaup3[k]*d(phi_bssnok,k) "
                                   "+ (1/6)*d(betaup3[k],k) - (1/6)*alpha*Ktrace")
REF["dtgammadown3_bssnok"] = lambda cfg: (
    "dtgammadown3_bssnok[i,j] = " + _LIE_DD.format(T="gammadown3_bssnok")
    + " - (2/3)*d(betaup3[k],k)*gammadown3_bssnok[i,j] - 2*alpha*Adown3_bssnok[i,j]")
REF["DDalpha"] = lambda cfg: \
    "DDalpha[i,j] = d(d(alpha,j),i) - s_Gamma_udd3[a,i,j]*d(alpha,a)"


def _dtK(cfg):
    s = ("dtKtrace = betaup3[a]*d(Ktrace,a) - gammaup3[i,j]*DDalpha[i,j] "
         "+ alpha*(A2_bssnok + (1/3)*Ktrace**2)")
    if not cfg.get("vacuum"):
        s += " + (1/2)*kappa*alpha*(rho_n + Stresstrace_n - 2*Lambda/kappa)"
    return s


REF["dtKtrace"] = _dtK


def _dtA(cfg):
    mat = "" if cfg.get("vacuum") else " - alpha*kappa*Stressdown3_n[i,j]"
    return (
        "Ric[i,j] = s_Ricci_down3_bssnok[i,j] + s_Ricci_down3_phi[i,j];"
        f"X[i,j] = -DDalpha[i,j] + alpha*Ric[i,j]{mat};"
        "TF[i,j] = X[i,j] - (1/3)*gammadown3[i,j]*(gammaup3[k,l]*X[k,l]);"
        "AA[i,j] = Adown3_bssnok[i,a]*Adown3_bssnok[b,j]*gammaup3_bssnok[a,b];"
        "dtAdown3_bssnok[i,j] = " + _LIE_DD.format(T="Adown3_bssnok")
        + " - (2/3)*d(betaup3[k],k)*Adown3_bssnok[i,j] + exp(-4*phi_bssnok)*TF[i,j]"
        " + alpha*(Ktrace*Adown3_bssnok[i,j] - 2*AA[i,j])")


REF["dtAdown3_bssnok"] = _dtA

# ---- matter -----------------------------------------------------------------------------------
REF["rho0"] = lambda cfg: "rho0 = rho/(1+eps)" if cfg.get("in:rho") else "rho0 = 0"
REF["eps"] = lambda cfg: "eps = rho/rho0 - 1" if (cfg.get("in:rho") and cfg.get("in:rho0")) \
    else "eps = 0"
REF["rho"] = lambda cfg: "rho = rho0*(1+eps)"
REF["enthalpy"] = lambda cfg: "enthalpy = 1 + eps + press/rho0"
REF["velup3"] = lambda cfg: "velup3[0]=velx; velup3[1]=vely; velup3[2]=velz"
REF["velup4"] = lambda cfg: "velup4[i+1] = velup3[i]"
REF["veldown4"] = lambda cfg: "veldown4[B] = velup4[A]*gammadown4[A,B]"
REF["veldown3"] = lambda cfg: "veldown3[i] = veldown4[i+1]"
REF["uup0"] = lambda cfg: "uup0 = w_lorentz/alpha"
REF["uup3"] = lambda cfg: "uup3[i] = w_lorentz*(velup3[i] - betaup3[i]/alpha)"
REF["uup4"] = lambda cfg: "uup4[0] = uup0; uup4[i+1] = uup3[i]"
REF["udown4"] = lambda cfg: "udown4[A] = gdown4[A,B]*uup4[B]"
REF["udown3"] = lambda cfg: "udown3[i] = udown4[i+1]"
REF["hdown4"] = lambda cfg: "hdown4[A,B] = gdown4[A,B] + udown4[A]*udown4[B]"
REF["hmixed4"] = lambda cfg: "hmixed4[A,B] = gup4[A,C]*hdown4[C,B]"
REF["hup4"] = lambda cfg: "hup4[A,B] = gup4[A,B] + uup4[A]*uup4[B]"
REF["Tdown4"] = lambda cfg: "Tdown4[A,B] = rho*udown4[A]*udown4[B] + press*hdown4[A,B]"
REF["Tup4"] = lambda cfg: "Tup4[C,D] = gup4[A,C]*gup4[B,D]*Tdown4[A,B]"
REF["Ttrace"] = lambda cfg: "Ttrace = gup4[A,B]*Tdown4[A,B]" if cfg.get("in:Tdown4") \
    else "Ttrace = 3*press_n - rho_n"
REF["rho_n"] = lambda cfg: "rho_n = Tdown4[A,B]*nup4[A]*nup4[B]"
REF["fluxup3_n"] = lambda cfg: "fluxup3_n[i] = -gammaup4[i+1,B]*Tdown4[B,C]*nup4[C]"
REF["fluxdown3_n"] = lambda cfg: "fluxdown3_n[b] = fluxup3_n[a]*gammadown3[a,b]"
REF["angmomup3_n"] = lambda cfg: "angmomup3_n[i] = gammaup3[i,j]*angmomdown3_n[j]"
REF["angmomdown3_n"] = lambda cfg: \
    "angmomdown3_n[i] = sqrt(gammadet)*eps3(i,j,k)*coord[j]*fluxup3_n[k]"
REF["Stressup3_n"] = lambda cfg: \
    "Stressup3_n[c,d] = gammaup3[a,c]*gammaup3[b,d]*Tdown4[a+1,b+1]"
REF["Stressdown3_n"] = lambda cfg: \
    "Stressdown3_n[c,d] = gammadown3[a,c]*gammadown3[b,d]*Stressup3_n[a,b]"
REF["Stresstrace_n"] = lambda cfg: "Stresstrace_n = gammaup3[j,k]*Tdown4[j+1,k+1]"
REF["press_n"] = lambda cfg: "press_n = gammaup3[a,b]*Tdown4[a+1,b+1]/3"
REF["anisotropic_press_down3_n"] = lambda cfg: \
    "anisotropic_press_down3_n[i,j] = Stressdown3_n[i,j] - gammadown3[i,j]*press_n"
REF["rho_n_fromHam"] = lambda cfg: ("rho_n_fromHam = (s_RicciS + Ktrace**2 "
                                    "- Kdown3[i,j]*Kup3[i,j] - 2*Lambda)/(2*kappa)")
_DX = ("X[i,j] = Kup3[i,j] - gammaup3[i,j]*Ktrace;"
       "DX[c,a,b] = d(X[a,b],c) + s_Gamma_udd3[a,c,e]*X[e,b] + s_Gamma_udd3[b,c,e]*X[a,e];")
REF["fluxup3_n_fromMom"] = lambda cfg: _DX + "fluxup3_n_fromMom[a] = DX[b,a,b]/kappa"
REF["conserved_D"] = lambda cfg: "conserved_D = rho0*w_lorentz*sqrt(gammadet)"
REF["conserved_E"] = lambda cfg: "conserved_E = conserved_D*eps"
REF["conserved_Sdown4"] = lambda cfg: "conserved_Sdown4[A] = conserved_D*enthalpy*udown4[A]"
REF["conserved_Sdown3"] = lambda cfg: "conserved_Sdown3[i] = conserved_Sdown4[i+1]"
REF["conserved_Sup4"] = lambda cfg: "conserved_Sup4[A] = gup4[A,M]*conserved_Sdown4[M]"
REF["conserved_Sup3"] = lambda cfg: "conserved_Sup3[i] = conserved_Sup4[i+1]"

# ---- kinematics (C19) -----------------------------------------------------------------------------
REF["st_covd_udown4"] = lambda cfg: (
    "dtu[i] = udown3[i]*(dtconserved_S[i]/conserved_Sdown3[i] "
    "- (dtconserved_D + dtconserved_E)/(conserved_D + conserved_E));"
    "dtW = (dtgammaup3[i,j]*udown3[i]*udown3[j] + 2*gammaup3[i,j]*udown3[i]*dtu[j])"
    "/(2*w_lorentz);"
    "dtu0 = dtbetaup3[i]*udown3[i] + betaup3[i]*dtu[i] - w_lorentz*dtalpha - alpha*dtW;"
    "st_covd_udown4[0,0] = dtu0 - st_Gamma_udd4[A,0,0]*udown4[A];"
    "st_covd_udown4[0,i+1] = dtu[i] - st_Gamma_udd4[A,0,i+1]*udown4[A];"
    "st_covd_udown4[i+1,B] = d(udown4[B],i) - st_Gamma_udd4[A,i+1,B]*udown4[A]")
REF["accelerationdown4"] = lambda cfg: "accelerationdown4[B] = uup4[A]*st_covd_udown4[A,B]"
REF["accelerationup4"] = lambda cfg: "accelerationup4[A] = gup4[A,B]*accelerationdown4[B]"
REF["s_covd_udown4"] = lambda cfg: "s_covd_udown4[B,C] = hmixed4[A,B]*st_covd_udown4[A,C]"
REF["thetadown4"] = lambda cfg: \
    "thetadown4[A,B] = (s_covd_udown4[A,B] + s_covd_udown4[B,A])/2"
REF["theta"] = lambda cfg: "theta = hup4[A,B]*thetadown4[A,B]"
REF["sheardown4"] = lambda cfg: \
    "sheardown4[A,B] = thetadown4[A,B] - (1/3)*theta*hdown4[A,B]"
REF["shear2"] = lambda cfg: \
    "shear2 = (1/2)*hup4[A,I]*hup4[B,J]*sheardown4[A,B]*sheardown4[I,J]"
REF["omegadown4"] = lambda cfg: \
    "omegadown4[A,B] = (s_covd_udown4[A,B] - s_covd_udown4[B,A])/2"
REF["omega2"] = lambda cfg: \
    "omega2 = (1/2)*hup4[A,I]*hup4[B,J]*omegadown4[A,B]*omegadown4[I,J]"
REF["s_RicciS_u"] = lambda cfg: \
    "s_RicciS_u = 2*(shear2 - (1/3)*theta**2 + Lambda + kappa*rho)"

# ---- spatial curvature ------------------------------------------------------------------------------
REF["s_Gamma_udd3"] = lambda cfg: (
    "s_Gamma_udd3[i,k,l] = gammaup3[i,j]*(1/2)*(d(gammadown3[j,k],l) "
    "+ d(gammadown3[j,l],k) - d(gammadown3[k,l],j))")
_RIEM3 = ("d(s_Gamma_udd3[a,b,d],c) - d(s_Gamma_udd3[a,b,c],d) "
          "+ s_Gamma_udd3[a,p,c]*s_Gamma_udd3[p,b,d] - s_Gamma_udd3[a,p,d]*s_Gamma_udd3[p,b,c]")
REF["s_Riemann_uddd3"] = lambda cfg: "s_Riemann_uddd3[a,b,c,d] = " + _RIEM3
REF["s_Riemann_down3"] = lambda cfg: \
    "s_Riemann_down3[i,b,c,d] = s_Riemann_uddd3[a,b,c,d]*gammadown3[a,i]"
REF["s_Ricci_down3"] = lambda cfg: (
    "s_Ricci_down3[b,d] = s_Riemann_down3[a,b,c,d]*gammaup3[a,c]"
    if cfg.get("in:s_Riemann_down3") else
    "s_Ricci_down3[b,d] = d(s_Gamma_udd3[a,b,d],a) - d(s_Gamma_udd3[a,b,a],d) "
    "+ s_Gamma_udd3[a,p,a]*s_Gamma_udd3[p,b,d] - s_Gamma_udd3[a,p,d]*s_Gamma_udd3[p,b,a]")
REF["s_RicciS"] = lambda cfg: "s_RicciS = gammaup3[j,k]*s_Ricci_down3[j,k]"
REF["s_Gamma_udd3_bssnok"] = lambda cfg: (
    "s_Gamma_udd3_bssnok[k,i,j] = s_Gamma_udd3[k,i,j] - 2*(delta(k,i)*d(phi_bssnok,j) "
    "+ delta(k,j)*d(phi_bssnok,i) - gammadown3[i,j]*gammaup3[k,l]*d(phi_bssnok,l))")
REF["s_Gamma_bssnok"] = lambda cfg: "s_Gamma_bssnok[i] = -d(gammaup3_bssnok[i,j],j)"
REF["s_Ricci_down3_bssnok"] = lambda cfg: (
    "G[i,j,k] = gammadown3_bssnok[o,i]*s_Gamma_udd3_bssnok[o,j,k];"
    "S[i,j] = gammadown3_bssnok[k,i]*d(s_Gamma_bssnok[k],j) + s_Gamma_bssnok[k]*G[i,j,k] "
    "+ 2*gammaup3_bssnok[l,m]*s_Gamma_udd3_bssnok[k,l,i]*G[j,k,m];"
    "s_Ricci_down3_bssnok[i,j] = -(1/2)*gammaup3_bssnok[l,m]*d(d(gammadown3_bssnok[i,j],m),l)"
    " + (S[i,j] + S[j,i])/2 + gammaup3_bssnok[l,m]*s_Gamma_udd3_bssnok[k,i,m]*G[k,l,j]")
REF["s_RicciS_bssnok"] = lambda cfg: \
    "s_RicciS_bssnok = gammaup3_bssnok[i,j]*s_Ricci_down3_bssnok[i,j]"
REF["s_Ricci_down3_phi"] = lambda cfg: (
    "DDphi[i,j] = d(d(phi_bssnok,j),i) - s_Gamma_udd3_bssnok[k,i,j]*d(phi_bssnok,k);"
    "s_Ricci_down3_phi[i,j] = -2*DDphi[i,j] "
    "- 2*gammadown3_bssnok[i,j]*(gammaup3_bssnok[a,b]*DDphi[a,b]) "
    "+ 4*d(phi_bssnok,i)*d(phi_bssnok,j) "
    "- 4*gammadown3_bssnok[i,j]*(gammaup3_bssnok[a,b]*d(phi_bssnok,a)*d(phi_bssnok,b))")


def _dtGamma(cfg):
    s = ("dts_Gamma_bssnok[i] = betaup3[k]*d(s_Gamma_bssnok[i],k) "
         "- s_Gamma_bssnok[k]*d(betaup3[i],k) + (2/3)*d(betaup3[k],k)*s_Gamma_bssnok[i] "
         "+ gammaup3_bssnok[j,k]*d(d(betaup3[i],k),j) "
         "+ (1/3)*gammaup3_bssnok[i,j]*d(d(betaup3[k],k),j) "
         "- 2*Aup3_bssnok[i,j]*d(alpha,j) "
         "+ 2*alpha*s_Gamma_udd3_bssnok[i,j,k]*Aup3_bssnok[j,k] "
         "+ 12*alpha*Aup3_bssnok[i,j]*d(phi_bssnok,j) "
         "- (4/3)*alpha*gammaup3_bssnok[i,j]*d(Ktrace,j)")
    if not cfg.get("vacuum"):
        s += " - 2*kappa*alpha*exp(4*phi_bssnok)*fluxup3_n[i]"
    return s


REF["dts_Gamma_bssnok"] = _dtGamma

# ---- spacetime connection and curvature ---------------------------------------------------------------
REF["st_Gamma_udd4"] = lambda cfg: (
    "betaK[n] = betaup3[m]*Kdown3[m,n];"
    "dbeta[m,l] = d(betaup3[l],m) + s_Gamma_udd3[l,m,e]*betaup3[e];"
    "Gttt = (dtalpha + betaup3[m]*d(alpha,m) - betaup3[m]*betaup3[n]*Kdown3[m,n])/alpha;"
    "Gtti[i] = (d(alpha,i) - betaK[i])/alpha;"
    "st_Gamma_udd4[0,0,0] = Gttt;"
    "st_Gamma_udd4[0,0,i+1] = Gtti[i]; st_Gamma_udd4[0,i+1,0] = Gtti[i];"
    "st_Gamma_udd4[0,i+1,j+1] = -Kdown3[i,j]/alpha;"
    "st_Gamma_udd4[l+1,0,0] = gammaup3[l,m]*(alpha*d(alpha,m) - 2*alpha*betaK[m]) "
    "- betaup3[l]*Gttt + dtbetaup3[l] + betaup3[m]*dbeta[m,l];"
    "Glmt[l,m] = -betaup3[l]*Gtti[m] - alpha*gammaup3[l,n]*Kdown3[n,m] + dbeta[m,l];"
    "st_Gamma_udd4[l+1,0,m+1] = Glmt[l,m]; st_Gamma_udd4[l+1,m+1,0] = Glmt[l,m];"
    "st_Gamma_udd4[l+1,i+1,j+1] = s_Gamma_udd3[l,i,j] + betaup3[l]*Kdown3[i,j]/alpha")

_DK = ("dK[c,a,b] = d(Kdown3[a,b],c) - s_Gamma_udd3[e,c,a]*Kdown3[e,b] "
       "- s_Gamma_udd3[e,c,b]*Kdown3[a,e];")


def _s_to_st(cfg, src, dst):
    # the zero-shift shortcut applies only when the code asked about all four keys and none
    # is present; a formula that never asks is compared with the general case
    noshift = all(cfg.get("in:" + k) is False for k in ("betaup3", "betax", "betay", "betaz"))
    s = f"{dst}[i+1,j+1] = {src}[i,j];"
    if not noshift:
        s += (f"{dst}[0,0] = betaup3[i]*betaup3[j]*{src}[i,j];"
              f"{dst}[0,k+1] = betaup3[i]*{src}[i,k]; {dst}[k+1,0] = betaup3[i]*{src}[i,k];")
    return s


def _riemann4(cfg):
    mat = "" if cfg.get("vacuum") else " - alpha**2*st_Ricci_down3[i,j]"
    return (
        "ssss[a,b,c,e] = s_Riemann_down3[a,b,c,e] + Kdown3[a,c]*Kdown3[b,e] "
        "- Kdown3[a,e]*Kdown3[b,c];"
        + _DK +
        "ssst[i,j,k] = ssss[i,j,k,l]*betaup3[l] + alpha*(dK[j,i,k] - dK[i,j,k]);"
        + _s_to_st(cfg, "Kdown3", "KK") +
        "stst[i,j] = ssst[j,k,i]*betaup3[k] + ssst[i,k,j]*betaup3[k] "
        "- ssss[i,k,j,l]*betaup3[k]*betaup3[l] "
        "+ alpha**2*(s_Ricci_down3[i,j] - KK[i+1,B]*KK[j+1,A]*gup4[A,B] "
        f"+ Kdown3[i,j]*Ktrace){mat};"
        "st_Riemann_down4[i+1,j+1,k+1,l+1] = ssss[i,j,k,l];"
        "st_Riemann_down4[i+1,j+1,k+1,0] = ssst[i,j,k];"
        "st_Riemann_down4[i+1,j+1,0,k+1] = -ssst[i,j,k];"
        "st_Riemann_down4[k+1,0,i+1,j+1] = ssst[i,j,k];"
        "st_Riemann_down4[0,k+1,i+1,j+1] = -ssst[i,j,k];"
        "st_Riemann_down4[i+1,0,j+1,0] = stst[i,j];"
        "st_Riemann_down4[i+1,0,0,j+1] = -stst[i,j];"
        "st_Riemann_down4[0,i+1,0,j+1] = stst[i,j];"
        "st_Riemann_down4[0,i+1,j+1,0] = -stst[i,j]")


REF["st_Riemann_down4"] = _riemann4
REF["st_Riemann_uddd4"] = lambda cfg: \
    "st_Riemann_uddd4[I,B,C,D] = st_Riemann_down4[A,B,C,D]*gup4[A,I]"
REF["st_Riemann_uudd4"] = lambda cfg: \
    "st_Riemann_uudd4[E,F,C,D] = st_Riemann_down4[A,B,C,D]*gup4[A,E]*gup4[B,F]"
REF["st_Ricci_down4"] = lambda cfg: (
    "st_Ricci_down4[A,B] = Lambda*gdown4[A,B] + kappa*(Tdown4[A,B] "
    "- (1/2)*Ttrace*gdown4[A,B])" if cfg.get("in:Tdown4") else
    "st_Ricci_down4[B,D] = st_Riemann_uddd4[A,B,A,D]")
REF["st_Ricci_down3"] = lambda cfg: (
    "st_Ricci_down3[i,j] = st_Ricci_down4[i+1,j+1]" if cfg.get("in:st_Ricci_down4") else
    "st_Ricci_down3[i,j] = Lambda*gammadown3[i,j] + kappa*(Tdown4[i+1,j+1] "
    "- (1/2)*(gup4[A,B]*Tdown4[A,B])*gammadown3[i,j])")
REF["st_RicciS"] = lambda cfg: "st_RicciS = gup4[J,K]*st_Ricci_down4[J,K]"
REF["Einsteindown4"] = lambda cfg: \
    "Einsteindown4[A,B] = st_Ricci_down4[A,B] - (1/2)*st_RicciS*gdown4[A,B]"
REF["Kretschmann"] = lambda cfg: \
    "Kretschmann = st_Riemann_uudd4[A,B,C,D]*st_Riemann_uudd4[C,D,A,B]"

# ---- constraints --------------------------------------------------------------------------------------
REF["Hamiltonian"] = lambda cfg: (
    "Hamiltonian = s_RicciS + Ktrace**2 - Kdown3[i,j]*Kup3[i,j]"
    + ("" if cfg.get("vacuum") else " - 2*kappa*rho_n - 2*Lambda"))
REF["Hamiltonian_Escale"] = lambda cfg: (
    "Hamiltonian_Escale = sqrt(abs(s_RicciS**2 + Ktrace**4 + (Kdown3[i,j]*Kup3[i,j])**2"
    + ("" if cfg.get("vacuum") else " + (2*kappa*rho_n)**2 + (2*Lambda)**2") + "))")
REF["Hamiltonian_norm"] = lambda cfg: "Hamiltonian_norm = Hamiltonian/Hamiltonian_Escale"
for _i, _x in enumerate("xyz"):
    REF["Momentum" + _x] = lambda cfg, i=_i, x=_x: f"Momentum{x} = Momentumup3[{i}]"
    REF["Momentumdown" + _x] = lambda cfg, i=_i, x=_x: f"Momentumdown{x} = Momentumdown3[{i}]"
    REF[f"Momentum{_x}_norm"] = lambda cfg, x=_x: \
        f"Momentum{x}_norm = Momentum{x}/Momentum_Escale"
    REF[f"Momentumdown{_x}_norm"] = lambda cfg, x=_x: \
        f"Momentumdown{x}_norm = Momentumdown{x}/Momentum_Escale"
REF["Momentumup3"] = lambda cfg: (
    "Momentumup3[0]=Momentumx; Momentumup3[1]=Momentumy; Momentumup3[2]=Momentumz"
    if (cfg.get("in:Momentumx") and cfg.get("in:Momentumy") and cfg.get("in:Momentumz")) else
    _DX + "Momentumup3[a] = DX[b,a,b]" + ("" if cfg.get("vacuum")
                                          else " - kappa*fluxup3_n[a]"))
REF["Momentumdown3"] = lambda cfg: "Momentumdown3[a] = gammadown3[a,b]*Momentumup3[b]"
REF["Momentum_Escale"] = lambda cfg: (
    _DK + "DKd[c] = gammaup3[a,b]*dK[a,b,c]; DdK[a] = gammaup3[b,c]*dK[a,b,c];"
    "Momentum_Escale = sqrt(abs(DKd[a]*gammaup3[a,e]*DKd[e] + DdK[a]*gammaup3[a,e]*DdK[e]"
    + ("" if cfg.get("vacuum") else " + kappa**2*fluxup3_n[a]*fluxdown3_n[a]") + "))")

# ---- Weyl ------------------------------------------------------------------------------------------------
_TF3 = "{X}[i,j] - (1/3)*gammadown3[i,j]*(gammaup3[k,l]*{X}[k,l])"


def _eweyl_n(cfg):
    s = ("X[i,j] = s_Ricci_down3[i,j] + Ktrace*Kdown3[i,j] "
         "- Kdown3[i,a]*Kdown3[b,j]*gammaup3[a,b];")
    if cfg.get("vacuum"):
        return s + "eweyl_n_down3[i,j] = " + _TF3.format(X="X")
    return (s + "eweyl_n_down3[i,j] = " + _TF3.format(X="X") + " - (1/2)*kappa*("
            + _TF3.format(X="Stressdown3_n") + ")")


REF["eweyl_n_down3"] = _eweyl_n
REF["bweyl_n_down3"] = lambda cfg: (
    "LC[a,b,c] = gammaup3[a,e]*gammaup3[b,f]*eps3(e,f,c)*sqrt(gammadet);"
    + _DK +
    "Km[i,k] = gammaup3[i,j]*Kdown3[j,k];"
    "DKm[c,a,b] = d(Km[a,b],c) + s_Gamma_udd3[a,c,e]*Km[e,b] - s_Gamma_udd3[e,c,b]*Km[a,e];"
    "B2K[b] = d(Ktrace,b) - DKm[c,c,b];"
    "bweyl_n_down3[a,b] = LC[c,e,b]*dK[c,e,a] "
    "+ (1/2)*LC[c,e,b]*gammadown3[a,c]*B2K[e]")
REF["eweyl_u_down4"] = lambda cfg: \
    "eweyl_u_down4[A,C] = uup4[B]*uup4[D]*st_Weyl_down4[A,B,C,D]"
REF["bweyl_u_down4"] = lambda cfg: (
    "LC[C,D,E,F] = gup4[A,C]*gup4[B,D]*eps4(A,B,E,F)*sqrt(-gdet);"
    "bweyl_u_down4[A,E] = (1/2)*uup4[B]*uup4[F]*st_Weyl_down4[A,B,C,D]*LC[C,D,E,F]")


def _weyl(cfg):
    if cfg.get("in:st_Riemann_down4"):
        if cfg.get("vacuum"):
            return "st_Weyl_down4[A,B,C,D] = st_Riemann_down4[A,B,C,D]"
        return (
            "st_Weyl_down4[A,B,C,D] = st_Riemann_down4[A,B,C,D] "
            "- (1/2)*(gdown4[A,C]*st_Ricci_down4[B,D] - gdown4[A,D]*st_Ricci_down4[B,C] "
            "- gdown4[B,C]*st_Ricci_down4[A,D] + gdown4[B,D]*st_Ricci_down4[A,C]) "
            "+ (1/6)*st_RicciS*(gdown4[A,C]*gdown4[B,D] - gdown4[A,D]*gdown4[B,C])")
    return (
        _s_to_st(cfg, "eweyl_n_down3", "E4") + _s_to_st(cfg, "bweyl_n_down3", "B4") +
        "ll[A,B] = gdown4[A,B] + 2*ndown4[A]*ndown4[B];"
        "LC[E,A,B] = gup4[E,C]*nup4[D]*eps4(D,C,A,B)*sqrt(-gdet);"
        "st_Weyl_down4[A,B,C,D] = ll[A,C]*E4[D,B] - ll[A,D]*E4[C,B] - ll[B,C]*E4[D,A] "
        "+ ll[B,D]*E4[C,A] "
        "- (ndown4[C]*B4[D,E] - ndown4[D]*B4[C,E])*LC[E,A,B] "
        "- (ndown4[A]*B4[B,E] - ndown4[B]*B4[A,E])*LC[E,C,D]")


REF["st_Weyl_down4"] = _weyl

# inverse metrics and determinants are given as python callables in tcheck.py (cofactor
# expansion), not as index formulas.
