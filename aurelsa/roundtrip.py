"""Writer/parser round trip of the iterations.txt catalogue (C18), decided by abstract
interpretation of the parser on the writer's line templates.

A line is an abstract string: a sequence of literal characters and atomic holes (a hole stands
for the text of one value; by the token-collision rule its alphabet contains none of the
separators the parser splits on).  Lists are instantiated with two generic elements (and, for
the branch that handles it, with none): `str([a, b])` is "[" a ", " b "]", `str(['a', 'b'])` is
"['" a "', '" b "']", a one-element numpy array prints as "[" a "]".  The parser's
split / index / replace / strip / int chain is applied to that abstract string; what it stores
must be, field by field and in order, what the writer put into the in-memory catalogue for the
same line."""
from __future__ import annotations

import ast

from .common import AnalysisError, unparse
from .exact import const_value


class NotParsed(AnalysisError):
    pass


def lit(s):
    return [("c", ch) for ch in s]


def show(a):
    return "".join(x[1] if x[0] == "c" else "{" + str(x[1]) + "}" for x in a)


def find(a, sep, start=0):
    n = len(sep)
    for i in range(start, len(a) - n + 1):
        if all(a[i + k] == ("c", sep[k]) for k in range(n)):
            return i
    return -1


def split(a, sep):
    out, i = [], 0
    while True:
        j = find(a, sep, i)
        if j < 0:
            out.append(a[i:])
            return out
        out.append(a[i:j])
        i = j + len(sep)


def strip(a):
    i, j = 0, len(a)
    while i < j and a[i] == ("c", " "):
        i += 1
    while j > i and a[j - 1] == ("c", " "):
        j -= 1
    return a[i:j]


class Parser:
    """abstract interpreter of the body of one parser branch"""

    def __init__(self, line, linevar):
        self.env = {linevar: ("str", line)}
        self.stores = []          # (key path values..., value)

    def ev(self, node, env=None):
        env = self.env if env is None else env
        if isinstance(node, ast.Constant):
            if isinstance(node.value, str):
                return ("str", lit(node.value))
            return ("const", node.value)
        if isinstance(node, ast.Name):
            if node.id in env:
                return env[node.id]
            raise NotParsed("unbound " + node.id)
        if isinstance(node, ast.List):
            return ("list", [self.ev(e, env) for e in node.elts])
        if isinstance(node, ast.Dict) and not node.keys:
            return ("list", [])
        if isinstance(node, ast.BinOp) and isinstance(node.op, ast.Add):
            a, b = self.ev(node.left, env), self.ev(node.right, env)
            if a[0] == "str" and b[0] == "str":
                return ("str", a[1] + b[1])
        if isinstance(node, ast.Subscript):
            base = self.ev(node.value, env)
            k = const_value(node.slice)
            if base[0] == "list" and k is not None:
                try:
                    return base[1][int(k)]
                except IndexError:
                    raise NotParsed(f"index {int(k)} out of range in {unparse(node)}")
        if isinstance(node, ast.ListComp) and len(node.generators) == 1 \
                and isinstance(node.generators[0].target, ast.Name) \
                and not node.generators[0].ifs:
            g = node.generators[0]
            it = self.ev(g.iter, env)
            if it[0] != "list":
                raise NotParsed("comprehension over a non-list")
            out = []
            for x in it[1]:
                e2 = dict(env)
                e2[g.target.id] = x
                out.append(self.ev(node.elt, e2))
            return ("list", out)
        if isinstance(node, ast.Compare) and len(node.ops) == 1:
            a, b = self.ev(node.left, env), self.ev(node.comparators[0], env)
            if isinstance(node.ops[0], (ast.In, ast.NotIn)) and a[0] == "str" and b[0] == "str":
                r = find(b[1], "".join(c[1] for c in a[1])) >= 0 if all(
                    c[0] == "c" for c in a[1]) else None
                if r is None:
                    raise NotParsed("membership of a hole")
                return ("const", r if isinstance(node.ops[0], ast.In) else not r)
            if isinstance(node.ops[0], (ast.Eq, ast.NotEq)) and a[0] == "str" and b[0] == "str":
                r = a[1] == b[1]
                return ("const", r if isinstance(node.ops[0], ast.Eq) else not r)
        if isinstance(node, ast.Call):
            f = node.func
            if isinstance(f, ast.Name) and f.id == "int" and len(node.args) == 1:
                v = self.ev(node.args[0], env)
                if v[0] == "str":
                    s = strip(v[1])
                    if len(s) == 1 and s[0][0] == "h":
                        return ("field", s[0][1])
                    raise NotParsed(f"int() of `{show(v[1])}`, which is not one number")
            if isinstance(f, ast.Attribute):
                o = self.ev(f.value, env)
                args = [self.ev(a, env) for a in node.args]
                if o[0] == "str":
                    if f.attr == "split" and len(args) == 1 and args[0][0] == "str":
                        sep = "".join(c[1] for c in args[0][1])
                        return ("list", [("str", p) for p in split(o[1], sep)])
                    if f.attr == "strip" and not args:
                        return ("str", strip(o[1]))
                    if f.attr == "replace" and len(args) == 2 and args[0][0] == "str" \
                            and args[1][0] == "str":
                        old = "".join(c[1] for c in args[0][1])
                        parts = split(o[1], old)
                        res = list(parts[0])
                        for p_ in parts[1:]:
                            res += args[1][1] + p_
                        return ("str", res)
        raise NotParsed("parser expression not understood: " + unparse(node)[:60])

    def run(self, stmts):
        for st in stmts:
            if isinstance(st, ast.Assign) and isinstance(st.targets[0], ast.Name):
                self.env[st.targets[0].id] = self.ev(st.value)
            elif isinstance(st, ast.Assign) and isinstance(st.targets[0], ast.Subscript):
                keys = []
                t = st.targets[0]
                while isinstance(t, ast.Subscript):
                    keys.insert(0, self.ev(t.slice))
                    t = t.value
                self.stores.append((unparse(t), keys, self.ev(st.value)))
            elif isinstance(st, ast.If):
                c = self.ev(st.test)
                if c[0] != "const":
                    raise NotParsed("branch on a hole")
                if self.run(st.body if c[1] else st.orelse) is not None:
                    return "next line"
            elif isinstance(st, ast.Expr) and isinstance(st.value, ast.Constant):
                continue
            elif isinstance(st, ast.Pass):
                continue
            elif isinstance(st, ast.Continue):
                return "next line"      # the branch is done with this line
            else:
                raise NotParsed("parser statement not understood: " + unparse(st)[:60])


def flat(v):
    """the holes a parsed value consists of, in order"""
    if v[0] == "field":
        return [v[1]]
    if v[0] == "str":
        s = v[1]
        if len(s) == 1 and s[0][0] == "h":
            return [s[0][1]]
        if all(x[0] == "c" for x in s):
            return ["'" + "".join(x[1] for x in s) + "'"]
        return ["?" + show(s)]
    if v[0] == "list":
        out = []
        for x in v[1]:
            out += flat(x)
        return out
    return [repr(v)]
