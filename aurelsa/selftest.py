"""Thorough tier: mutation self-test of the analysers.

For each property a list of single-site edits of the *real* source (MUTANTS in the property
module, or aurelsa/mutants/<id>.py) is applied to a scratch copy of src/aurel created with
tempfile outside /repo and /verif, analysed by the same `run`, and removed immediately.  A
mutant must be reported under one of the expected rules; an *equivalent* twin edit must stay
silent.  A mutant whose anchor text no longer occurs in the source is skipped and noted (the
self-test is about the analyser, not about the repository's formatting).  Self-test failure
is an ANALYSIS-ERROR (exit 2): the check is then not to be believed.
"""
from __future__ import annotations

import importlib
import os
import shutil
import tempfile
from concurrent.futures import ProcessPoolExecutor

from .common import SRC, AnalysisError, Report, Sources


def _load_mutants(prop, mod):
    muts = list(getattr(mod, "MUTANTS", []))
    try:
        m2 = importlib.import_module(f"aurelsa.mutants.{prop.lower()}")
        muts += list(getattr(m2, "MUTANTS", []))
    except ModuleNotFoundError:
        pass
    return muts


def _run_one(args):
    prop, modname, mut, src_root = args
    _reset_caches()
    name, rel, old, new, expect = mut
    path = os.path.join(src_root, rel)
    try:
        with open(path) as f:
            txt = f.read()
    except OSError:
        return (name, "skipped", "file missing")
    if txt.count(old) != 1:
        return (name, "skipped", f"anchor occurs {txt.count(old)} times")
    new_txt = txt.replace(old, new)
    try:
        compile(new_txt, rel, "exec")
    except SyntaxError as e:
        return (name, "error", f"mutant does not compile: {e}")
    tmp = tempfile.mkdtemp(prefix="aurelsa_mut_")
    try:
        dst = os.path.join(tmp, "aurel")
        shutil.copytree(src_root, dst)
        with open(os.path.join(dst, rel), "w") as f:
            f.write(new_txt)
        mod = importlib.import_module(modname)
        rep = Report(prop, "quick", getattr(mod, "LEVEL", "other"))
        rep.sources = Sources(dst)
        try:
            mod.run(rep)
            for rule, n in rep.floors.items():
                if rep.rules[rule]["instances"] < n and not rep.findings:
                    raise AnalysisError(f"floor {rule}")
            rules = sorted({f.rule for f in rep.findings})
            detail = "; ".join(f"{f.rule}:{f.construct}" for f in rep.findings[:4])
        except AnalysisError as e:
            if rep.findings:    # a located violation is never masked by a later shortfall
                rules = sorted({f.rule for f in rep.findings})
                detail = "; ".join(f"{f.rule}:{f.construct}" for f in rep.findings[:4])
            else:
                rules, detail = ["ANALYSIS-ERROR"], str(e)
    finally:
        shutil.rmtree(tmp, ignore_errors=True)
    if expect == "silent":
        ok = not rules
    else:
        exp = {expect} if isinstance(expect, str) else set(expect)
        ok = bool(set(rules) & exp)
    return (name, "ok" if ok else "FAILED", f"expected {expect}, reported {rules} [{detail}]")


def _reset_caches():
    """per-tree caches keyed by AST identity must not outlive the tree they were built for"""
    from . import reading_rules, boolnorm
    reading_rules._SINGLE.clear()
    boolnorm.FUNCS.clear()


def _run_seed(args):
    """apply a seeded patch to a scratch copy and run the property's analysis on it"""
    import subprocess
    _reset_caches()
    prop, modname, name, patch, expect_detect = args
    tmp = tempfile.mkdtemp(prefix="aurelsa_seed_")
    try:
        shutil.copytree(os.path.dirname(SRC), os.path.join(tmp, "src"))
        subprocess.run(["git", "init", "-q"], cwd=tmp, check=True, capture_output=True)
        r = subprocess.run(["git", "apply", "--whitespace=nowarn", patch], cwd=tmp,
                           capture_output=True, text=True)
        if r.returncode != 0:
            return (name, "skipped", "patch does not apply to the current tree")
        mod = importlib.import_module(modname)
        rep = Report(prop, "quick", getattr(mod, "LEVEL", "other"))
        rep.sources = Sources(os.path.join(tmp, "src", "aurel"))
        try:
            mod.run(rep)
            from .common import load_known, match_known
            known = load_known()
            rules = sorted({f.rule for f in rep.findings if not match_known(known, prop, f)})
        except AnalysisError as e:
            from .common import load_known, match_known
            known = load_known()
            rules = sorted({f.rule for f in rep.findings if not match_known(known, prop, f)})
            if not rules:       # (a located violation is never masked by a later shortfall)
                rules = ["ANALYSIS-ERROR: " + str(e)[:80]]
    finally:
        shutil.rmtree(tmp, ignore_errors=True)
    detected = bool(rules) and not rules[0].startswith("ANALYSIS-ERROR")
    if expect_detect == "silent-or-unrecognised":
        # a twin recorded (seeded/<id>/meta.json, "unrecognised_by") as a shape this check does
        # not recognise: it may stop with an ANALYSIS-ERROR, it must never report a violation
        ok = not detected
        return (name, "ok" if ok else "FAILED",
                f"expected silence or an analysis error, reported {rules}")
    ok = detected if expect_detect else not rules
    return (name, "ok" if ok else "FAILED",
            f"expected {'a violation' if expect_detect else 'silence'}, reported {rules}")


def _seed_jobs(prop, mod):
    import json
    from .common import VERIF
    idx_path = os.path.join(VERIF, "seeded", "INDEX.json")
    if not os.path.exists(idx_path):
        return []
    with open(idx_path) as f:
        idx = json.load(f)
    jobs = []
    for name, e in sorted(idx.items()):
        patch = os.path.join(VERIF, "seeded", name, "patch.diff")
        if not os.path.exists(patch):
            continue
        if prop in e.get("detected_by", []):
            jobs.append((prop, mod.__name__, "seed:" + name, patch, True))
        elif name.startswith("twin"):
            lenient = False
            try:
                with open(os.path.join(VERIF, "seeded", name, "meta.json")) as f:
                    lenient = prop in (json.load(f).get("unrecognised_by") or [])
            except (OSError, ValueError):
                pass
            jobs.append((prop, mod.__name__, "seed:" + name, patch,
                         "silent-or-unrecognised" if lenient else False))
    return jobs


def run(prop, mod, rep):
    muts = _load_mutants(prop, mod)
    seeds = _seed_jobs(prop, mod) if rep.sources.root == SRC else []
    if seeds:
        with ProcessPoolExecutor(max_workers=min(16, len(seeds))) as ex:
            sres = list(ex.map(_run_seed, seeds))
        bad = [r for r in sres if r[1] == "FAILED"]
        for n, st, d in sres:
            if st == "ok":
                rep.ok("selftest", n)
            elif st == "skipped":
                rep.note(f"self-test {n} skipped: {d}")
        rep.extra_cov["selftest_seeds"] = {
            "seeds": len(seeds), "as_expected": len([r for r in sres if r[1] == "ok"]),
            "skipped": len([r for r in sres if r[1] == "skipped"]),
            "samples": [f"{n}: {st} ({d})" for n, st, d in sres[:5]]}
        if bad:
            raise AnalysisError("self-test (seeded changes) failed: "
                                + " | ".join(f"{n}: {d}" for n, _s, d in bad))
    if not muts:
        if not seeds:
            rep.note("self-test: no mutants registered for this property")
        return
    src_root = rep.sources.root if rep.sources.root != SRC else SRC
    jobs = [(prop, mod.__name__, m, src_root) for m in muts]
    with ProcessPoolExecutor(max_workers=min(16, len(jobs))) as ex:
        results = list(ex.map(_run_one, jobs))
    applied = [r for r in results if r[1] in ("ok", "FAILED")]
    failed = [r for r in results if r[1] in ("FAILED", "error")]
    skipped = [r for r in results if r[1] == "skipped"]
    rep.extra_cov["selftest"] = {
        "mutants": len(muts), "applied": len(applied), "detected_or_silent_as_expected":
        len(applied) - len([r for r in failed if r[1] == "FAILED"]),
        "skipped": [f"{n}: {d}" for n, _s, d in skipped],
        "samples": [f"{n}: {s} ({d})" for n, s, d in results[:6]]}
    for n, s, d in results:
        if s == "ok":
            rep.ok("selftest", f"mutant::{n}")
        elif s == "skipped":
            rep.note(f"self-test mutant {n} skipped: {d}")
    if failed:
        raise AnalysisError("self-test failed: " + " | ".join(f"{n}: {d}" for n, _s, d in
                                                               failed))
