"""Syntactic differentiation of exact polynomials (tpoly.P) with respect to one atom.

Atoms are classified by a registry filled while the expressions are evaluated:
  REG[name] = ('fn', fname, [arg P ...])       sin, cos, sinh, cosh, exp, log, ...
  REG[name] = ('pow', base P, exponent-monomial P)   base ** (irrational/symbolic exponent)
  tpoly.OPAQUE[name] = P                       "(<sum>)" raised to a non-integer power
  facts[name] = P                              declared derivative of an opaque atom
Everything else is independent of the variable.  The result is again a P, so that equality
with another expression is decided on normal forms."""
from __future__ import annotations

from fractions import Fraction

from . import tpoly
from .tpoly import P, asP

REG = {}


class CannotDifferentiate(Exception):
    pass


def fn_atom(name, args):
    args = [asP(a) for a in args]
    if name == "sqrt":
        return args[0].pow(Fraction(1, 2))
    if name in ("sin", "sinh") and len(args) == 1 and args[0].is_zero():
        return P()
    if name in ("cos", "cosh", "exp") and len(args) == 1 and args[0].is_zero():
        return P.const(1)
    nm = f"{name}(" + ",".join(repr(a) for a in args) + ")"
    REG[nm] = ("fn", name, args)
    return P.atom(nm)


def power(a, b):
    """a ** b for polynomials; a symbolic exponent is split into its rational constant part
    and one opaque factor per remaining monomial, so that  t**(1+s-q)  and  t * t**(s-q)
    have the same normal form."""
    a, b = asP(a), asP(b)
    if b.is_const():
        return a.pow(b.cval())
    c0 = b.t.get((), Fraction(0))
    out = a.pow(c0) if c0 else P.const(1)
    for mono, c in b.t.items():
        if mono == ():
            continue
        M = P({mono: Fraction(1)})
        nm = f"pow({a!r},{M!r})"
        REG[nm] = ("pow", a, M)
        out = out * P.atom(nm, c)
    return out


def diff(p, var, facts=None):
    facts = facts or {}
    out = P()
    for mono, coef in p.t.items():
        for i, (atom, e) in enumerate(mono):
            da = diff_atom(atom, var, facts)
            if da.is_zero():
                continue
            rest = P({tuple(x for j, x in enumerate(mono) if j != i): coef})
            out = out + rest * P.atom(atom, e - 1).scale(e) * da
    return out


def diff_atom(atom, var, facts):
    if atom == var:
        return P.const(1)
    if atom in facts:
        return facts[atom]
    if atom in REG:
        r = REG[atom]
        if r[0] == "fn":
            _k, name, args = r
            if len(args) != 1:
                if all(diff(a, var, facts).is_zero() for a in args):
                    return P()
                raise CannotDifferentiate(atom)
            u = args[0]
            du = diff(u, var, facts)
            if du.is_zero():
                return P()
            if name == "exp":
                return P.atom(atom) * du
            if name == "log":
                return u.pow(-1) * du
            if name == "sin":
                return fn_atom("cos", [u]) * du
            if name == "cos":
                return -fn_atom("sin", [u]) * du
            if name == "sinh":
                return fn_atom("cosh", [u]) * du
            if name == "cosh":
                return fn_atom("sinh", [u]) * du
            raise CannotDifferentiate(atom)
        if r[0] == "pow":
            _k, a, M = r
            if not diff(M, var, facts).is_zero():
                raise CannotDifferentiate(atom)
            da = diff(a, var, facts)
            if da.is_zero():
                return P()
            return M * P.atom(atom) * a.pow(-1) * da
    if atom in tpoly.OPAQUE:
        return diff(tpoly.OPAQUE[atom], var, facts)
    return P()
