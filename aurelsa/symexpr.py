"""Evaluate scalar python/numpy expressions of straight-line code into exact polynomials
(tpoly.P) over opaque atoms and function atoms -- a normal form in which commutative
reordering, named temporaries, x*x vs x**2, inlined or out-lined pure helpers all coincide.
Nothing is executed: names are atoms, calls are function atoms (or inlined when the callee is
a straight-line module function)."""
from __future__ import annotations

import ast
from fractions import Fraction

from . import symdiff
from .common import AnalysisError, unparse
from .exact import const_value
from .tpoly import P, asP

NP_PREFIXES = ("np.", "numpy.", "sp.", "sympy.", "math.", "sc.special.", "scipy.special.")


class SymEval:
    def __init__(self, functions=None, keep=(), what="expression", opaque_calls=False):
        """functions: name -> ast.FunctionDef of module-level functions that may be inlined;
        keep: names of functions kept as opaque function atoms"""
        self.functions = functions or {}
        self.keep = set(keep)
        self.what = what
        self.opaque_calls = opaque_calls
        self.depth = 0

    def fail(self, node, why="not understood"):
        raise AnalysisError(f"{self.what}: {why}: {unparse(node)[:70]}")

    def ev(self, node, env):
        c = const_value(node)
        if c is not None:
            return asP(c)
        if isinstance(node, ast.Constant):
            if isinstance(node.value, complex):
                return asP(Fraction(node.value.imag).limit_denominator(10**9)) * P.atom("I") \
                    + asP(Fraction(node.value.real).limit_denominator(10**9))
            self.fail(node)
        if isinstance(node, ast.Name):
            if node.id in env:
                return env[node.id]
            self.fail(node, "unbound name")
        if isinstance(node, ast.Attribute):
            t = unparse(node)
            if t in ("np.pi", "numpy.pi", "math.pi", "sp.pi"):
                return P.atom("pi")
            if isinstance(node.value, ast.Name) and node.value.id in env and node.attr == "T":
                return symdiff.fn_atom("T", [env[node.value.id]])
            return P.atom(t)
        if isinstance(node, ast.UnaryOp):
            if isinstance(node.op, ast.USub):
                return -self.ev(node.operand, env)
            if isinstance(node.op, ast.UAdd):
                return self.ev(node.operand, env)
        if isinstance(node, ast.BinOp):
            a, b = self.ev(node.left, env), self.ev(node.right, env)
            if isinstance(node.op, ast.Add):
                return a + b
            if isinstance(node.op, ast.Sub):
                return a - b
            if isinstance(node.op, ast.Mult):
                return a * b
            if isinstance(node.op, ast.Div):
                return a * b.pow(-1)
            if isinstance(node.op, ast.Pow):
                return symdiff.power(a, b)
        if isinstance(node, ast.Subscript):
            idx = node.slice.elts if isinstance(node.slice, ast.Tuple) else [node.slice]
            try:
                args = [self.ev(i, env) for i in idx]
            except AnalysisError:
                return P.atom(unparse(node))
            if isinstance(node.value, ast.Name) and node.value.id not in env:
                return symdiff.fn_atom(node.value.id + "[]", args)
            try:
                basev = self.ev(node.value, env)
            except AnalysisError:
                return symdiff.fn_atom(unparse(node.value) + "[]", args)
            return symdiff.fn_atom("getitem", [basev] + args)
        if isinstance(node, ast.Call):
            f = unparse(node.func)
            if node.keywords:
                self.fail(node, "keyword arguments")
            args = [self.ev(a, env) for a in node.args]
            if f in ("maths.safe_division", "safe_division") and len(args) == 2:
                return args[0] * args[1].pow(-1)
            for pre in NP_PREFIXES:
                if f.startswith(pre):
                    return symdiff.fn_atom(f[len(pre):], args)
            short = f.split(".")[-1] if f.startswith("maths.") else f
            if short in self.keep:
                return symdiff.fn_atom(short, args)
            if short in self.functions:
                return self.inline(self.functions[short], args, node)
            if f in ("abs", "float", "int", "complex"):
                return symdiff.fn_atom(f, args) if f == "abs" else args[0]
            if self.opaque_calls:
                return symdiff.fn_atom(f, args)      # an unknown function of its arguments
        self.fail(node)

    def inline(self, fn, args, at):
        if self.depth > 4:
            self.fail(at, "inlining too deep")
        params = [a.arg for a in fn.args.args]
        if len(args) != len(params) or fn.args.vararg or fn.args.kwarg:
            self.fail(at, "call shape")
        env = dict(zip(params, args))
        self.depth += 1
        try:
            r = self.block(fn.body, env)
        finally:
            self.depth -= 1
        if r is None:
            self.fail(at, "callee does not return on a straight line")
        return r

    def block(self, stmts, env):
        """straight-line statements: assignments to names and a final return"""
        for st in stmts:
            if isinstance(st, ast.Expr) and isinstance(st.value, ast.Constant):
                continue
            if isinstance(st, ast.Assign) and len(st.targets) == 1 \
                    and isinstance(st.targets[0], ast.Name):
                env[st.targets[0].id] = self.ev(st.value, env)
                continue
            if isinstance(st, ast.Return) and st.value is not None:
                return self.ev(st.value, env)
            self.fail(st, "statement is not straight-line")
        return None
